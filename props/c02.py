"""C02 — invariance to how tree and data are written down.

Decided clause C02.M: switching between tip-state and tip-partial representations with
unknown/ambiguous symbols treated as missing selects the same tip vector for every symbol.
"""
from __future__ import annotations

import ast

from sa.consteval import fold_class
from sa.kernels import MODULE, extract, method_name
from sa.loader import AnalysisError, Unsupported, dotted_name, norm_text
from sa.members import self_attr
from sa.report import where

DT = 'torchtree.evolution.datatype'


def class_states(cls_node: ast.ClassDef, ev):
    """the state tuple handed to AbstractDataType.__init__ by this class's constructor"""
    init = next((f for f in cls_node.body if isinstance(f, ast.FunctionDef) and f.name == '__init__'), None)
    if init is None:
        raise Unsupported(cls_node, '__init__ not found')
    for c in ast.walk(init):
        if isinstance(c, ast.Call) and isinstance(c.func, ast.Attribute) and c.func.attr == '__init__' and len(c.args) == 2:
            return tuple(ev.expr(c.args[1]))
    raise Unsupported(init, 'states passed to super().__init__ not found')


def find_method(cls_node: ast.ClassDef, name: str, depth=0):
    """method `name` of the class or of a base class defined in the same module"""
    for f in cls_node.body:
        if isinstance(f, ast.FunctionDef) and f.name == name:
            return f
    mod = getattr(cls_node, '_parent', None)
    if mod is None or depth > 4:
        return None
    for b in cls_node.bases:
        bn = b.id if isinstance(b, ast.Name) else (b.attr if isinstance(b, ast.Attribute) else None)
        for c in getattr(mod, 'body', []):
            if isinstance(c, ast.ClassDef) and c.name == bn:
                r = find_method(c, name, depth + 1)
                if r is not None:
                    return r
    return None


class Pred:
    """evaluates the guard of the missing-data branch of partial() for one symbol with use_ambiguities=False"""

    def __init__(self, ev, cls_node, string_name, flag_name):
        self.ev, self.cls_node, self.sn, self.fn = ev, cls_node, string_name, flag_name
        self._states = None

    def val(self, e, ch):
        if isinstance(e, ast.Name):
            if e.id == self.sn:
                return ch
            if e.id == self.fn:
                return False
        if isinstance(e, ast.Attribute) and isinstance(e.value, ast.Name) and e.value.id == 'self' and e.attr in ('states', '_states'):
            if self._states is None:
                self._states = class_states(self.cls_node, self.ev)
            return self._states
        if isinstance(e, ast.Attribute) and isinstance(e.value, ast.Name) and e.value.id == 'self' and e.attr in ('state_count', '_state_count'):
            if self._states is None:
                self._states = class_states(self.cls_node, self.ev)
            return len(self._states)
        if isinstance(e, ast.Call) and isinstance(e.func, ast.Attribute) and e.func.attr in ('upper', 'lower') and not e.args:
            v = self.val(e.func.value, ch)
            if not isinstance(v, str):
                raise Unsupported(e, 'upper/lower on a non-string')
            return getattr(v, e.func.attr)()
        if isinstance(e, ast.Call) and isinstance(e.func, ast.Name) and e.func.id == 'ord' and len(e.args) == 1:
            return ord(self.val(e.args[0], ch))
        if isinstance(e, ast.Call) and isinstance(e.func, ast.Attribute) and len(e.args) == 1 and not e.keywords \
                and isinstance(e.func.value, ast.Name) and e.func.value.id == 'self':
            # self.encoding(c), self.is_state(c) …: a one-argument method of the class (or of a base class in the same module) that is a single return
            enc = find_method(self.cls_node, e.func.attr)
            body = [b for b in enc.body if not (isinstance(b, ast.Expr) and isinstance(b.value, ast.Constant))] if enc else []
            if len(body) != 1 or not isinstance(body[0], ast.Return) or len(enc.args.args) != 2:
                raise Unsupported(e, f"{e.func.attr}() not a single return of one argument")
            return Pred(self.ev, self.cls_node, enc.args.args[1].arg, '').val(body[0].value, self.val(e.args[0], ch))
        if isinstance(e, ast.BoolOp):
            vals = [self.val(x, ch) for x in e.values]
            return all(vals) if isinstance(e.op, ast.And) else any(vals)
        if isinstance(e, ast.UnaryOp) and isinstance(e.op, ast.Not):
            return not self.val(e.operand, ch)
        if isinstance(e, ast.Compare) and len(e.ops) == 1:
            a, b = self.val(e.left, ch), self.val(e.comparators[0], ch)
            op = e.ops[0]
            try:
                if isinstance(op, ast.In):
                    return a in b
                if isinstance(op, ast.NotIn):
                    return a not in b
                if isinstance(op, ast.Eq):
                    return a == b
                if isinstance(op, ast.NotEq):
                    return a != b
                if isinstance(op, ast.Lt):
                    return a < b
                if isinstance(op, ast.LtE):
                    return a <= b
                if isinstance(op, ast.Gt):
                    return a > b
                if isinstance(op, ast.GtE):
                    return a >= b
            except TypeError as ex:
                raise Unsupported(e, str(ex))
        if isinstance(e, ast.Subscript):
            obj = self.val(e.value, ch)
            try:
                if isinstance(e.slice, ast.Slice):
                    lo = self.val(e.slice.lower, ch) if e.slice.lower is not None else None
                    hi = self.val(e.slice.upper, ch) if e.slice.upper is not None else None
                    stp = self.val(e.slice.step, ch) if e.slice.step is not None else None
                    return obj[lo:hi:stp]
                return obj[self.val(e.slice, ch)]
            except Unsupported:
                raise
            except Exception as ex:
                raise Unsupported(e, f"subscript: {ex}")
        return self.ev.expr(e)


def missing_branch(cls_node: ast.ClassDef, ev):
    """(partial(), set of symbols sent to the missing-data branch when use_ambiguities is False, returned expression)"""
    fn = next((f for f in cls_node.body if isinstance(f, ast.FunctionDef) and f.name == 'partial'), None)
    if fn is None:
        raise Unsupported(cls_node, 'partial() not found')
    sn, flag = fn.args.args[1].arg, fn.args.args[2].arg
    for n in fn.body:
        if isinstance(n, ast.If) and any(isinstance(x, ast.Name) and x.id == flag for x in ast.walk(n.test)) and len(n.body) == 1 and isinstance(n.body[0], ast.Return):
            pr = Pred(ev, cls_node, sn, flag)
            missing = {chr(c) for c in range(128) if pr.val(n.test, chr(c))}
            return fn, missing, n.body[0].value
    raise Unsupported(fn, 'missing-data branch of partial() not found')


# ---------------------------------------------------------------------------
# C02.N — the name-to-index plumbing
# ---------------------------------------------------------------------------
TMOD = 'torchtree.evolution.tree_model'
SMOD = 'torchtree.evolution.site_pattern'
AMOD = 'torchtree.evolution.alignment'


def _enumerate_dict(fn, name):
    """`name = {<key>: idx for idx, x in enumerate(<seq>)}` -> (key expression text with the loop variable replaced by `x`, seq text) or None"""
    for st in ast.walk(fn):
        if isinstance(st, ast.Assign) and len(st.targets) == 1 and isinstance(st.targets[0], ast.Name) and st.targets[0].id == name and isinstance(st.value, ast.DictComp):
            dc = st.value
            if len(dc.generators) != 1:
                return None
            g = dc.generators[0]
            if not (isinstance(g.iter, ast.Call) and isinstance(g.iter.func, ast.Name) and g.iter.func.id == 'enumerate' and isinstance(g.target, ast.Tuple) and len(g.target.elts) == 2):
                return None
            idx, var = g.target.elts[0].id, g.target.elts[1].id
            if not (isinstance(dc.value, ast.Name) and dc.value.id == idx):
                return ('swapped', ast.unparse(g.iter.args[0]))
            key = ast.unparse(dc.key).replace(var, 'x')
            return (key, ast.unparse(g.iter.args[0]))
    return None


def check_leaf_index(ctx, rep, rule, prefix=''):
    """every store of a leaf's index in setup_indexes is the position of the leaf's taxon label in the taxon namespace (= the Taxa list, in which tip data and sampling
    dates are stored)"""
    tm = ctx.prog.module(TMOD)
    si = tm.functions.get('setup_indexes')
    if si is None:
        raise AnalysisError('setup_indexes not found')
    # stores executed for leaves: `node.index = …` not under the `if not node.is_leaf()` body
    leaf_stores = []
    for st in ast.walk(si):
        if isinstance(st, ast.Assign) and isinstance(st.targets[0], ast.Attribute) and st.targets[0].attr == 'index':
            p_, child, internal, tested = getattr(st, '_parent', None), st, False, False
            while p_ is not None and p_ is not si:
                if isinstance(p_, ast.If) and 'is_leaf' in ast.unparse(p_.test):
                    tested = True
                    negated = isinstance(p_.test, ast.UnaryOp) and isinstance(p_.test.op, ast.Not)
                    in_body = any(child is x for x in p_.body)
                    if in_body == negated:
                        internal = True
                p_, child = getattr(p_, '_parent', None), p_
            if tested and not internal:
                leaf_stores.append(st)
    if not leaf_stores:
        raise AnalysisError('setup_indexes: no store of a leaf index found')
    for st in leaf_stores:
        ok, facts = False, {'store': norm_text(st)}
        if isinstance(st.value, ast.Subscript) and isinstance(st.value.value, ast.Name):
            d = _enumerate_dict(si, st.value.value.id)
            look = ast.unparse(st.value.slice)
            facts.update({'lookup': look, 'table': d})
            ok = d is not None and d[0] == 'x.label' and d[1].endswith('taxon_namespace') and look.endswith('.taxon.label')
        rep.check(rule, f"{prefix}setup_indexes::leaf-index-is-the-position-of-its-taxon-name::{norm_text(st.value)[:40]}", ok, where(tm, st), facts,
                  f"setup_indexes gives a leaf the index `{norm_text(st.value)[:50]}`, which is not the position of its taxon label in the taxon namespace: tip partials / states "
                  f"and sampling dates are stored in Taxa order, so the leaf is paired with another taxon's data whenever the two orders differ")


CHILD_POSITIVE = """
def heights(tree, eps):
    for node in tree.postorder_node_iter():
        if not node.is_leaf():
            child = next(node.child_node_iter())
            h[node.index] = h[child.index] + max(eps, child.edge_length)
def first(tree):
    for node in tree.postorder_node_iter():
        kids = node.child_nodes()
        h[node.index] = h[kids[0].index]
def both(tree):
    for node in tree.postorder_node_iter():
        kids = node.child_nodes()
        out.append((node.index, kids[0].index, kids[1].index))
"""
LABEL_POSITIVE = """
def translate(tree, taxa):
    for taxon in tree.taxon_namespace:
        taxon.label = taxa[int(taxon.label) - 1].id
"""


def single_child_selections(fn):
    """[(node, description, symmetric?)]: places where a function picks children of a tree node one at a time.  `next(x.child_node_iter())` and a constant index
    into `x.child_nodes()` (or a name bound to it / an attribute called children) select by the order in which the children were written; the selection is
    order-free only if every child of the (binary) node is selected in the same function, i.e. both index 0 and index 1."""
    out = []
    kid_names = set()
    for st in ast.walk(fn):
        if isinstance(st, ast.Assign) and len(st.targets) == 1 and isinstance(st.targets[0], ast.Name) and isinstance(st.value, ast.Call) \
                and method_name(st.value) in ('child_nodes', 'child_node_iter'):
            kid_names.add(st.targets[0].id)
    groups = {}
    for x in ast.walk(fn):
        if isinstance(x, ast.Call) and isinstance(x.func, ast.Name) and x.func.id == 'next' and x.args:
            a = x.args[0]
            if isinstance(a, ast.Call) and isinstance(a.func, ast.Name) and a.func.id == 'iter' and a.args:
                a = a.args[0]
            if isinstance(a, ast.Call) and method_name(a) in ('child_node_iter', 'child_nodes'):
                out.append((x, f"`{ast.unparse(x)}` (the first child only)", False))
        if isinstance(x, ast.Subscript) and isinstance(x.slice, ast.Constant) and isinstance(x.slice.value, int):
            base = x.value
            txt = None
            if isinstance(base, ast.Call) and method_name(base) == 'child_nodes':
                txt = ast.unparse(base)
            elif isinstance(base, ast.Name) and base.id in kid_names:
                txt = base.id
            elif isinstance(base, ast.Attribute) and base.attr in ('children', '_child_nodes'):
                txt = ast.unparse(base)
            if txt is not None:
                groups.setdefault(txt, []).append(x)
    for txt, subs in groups.items():
        ks = {s_.slice.value for s_ in subs}
        out.append((subs[0], f"`{txt}[k]` for k in {sorted(ks)}", {0, 1} <= ks))
    return out


def check_child_symmetry(ctx, rep):
    t = ast.parse(CHILD_POSITIVE)
    got = [[sym for _, _, sym in single_child_selections(f)] for f in t.body]
    if got != [[False], [False], [True]]:
        raise AnalysisError(f"C02.N self-check: child selections of the embedded examples classified as {got}")
    n = 0
    for m in ctx.prog.modules.values():
        if not (m.name.startswith('torchtree.evolution') or m.name.startswith('torchtree.cli')):
            continue
        for fn in ast.walk(m.tree):
            if not isinstance(fn, ast.FunctionDef):
                continue
            sel = single_child_selections(fn)
            for node, desc, sym in sel:
                n += 1
                cl = getattr(fn, '_parent', None)
                scope = f"{cl.name}.{fn.name}" if isinstance(cl, ast.ClassDef) else fn.name
                rep.check('C02.N', f"{m.name.replace('torchtree.', '')}::{scope}::children-selected-one-at-a-time-are-all-selected", sym, where(m, node), {'selection': desc},
                          f"{scope} uses {desc} of a node: which child that is depends on the order the children were written in the newick string, and the other child "
                          f"never enters the computation — reordering the children of a node changes the result")
    rep.analysed['single_child_selection_sites'] = n
    if n < 3:
        rep.incomplete('C02.N', 'child-selections', '', f"only {n} child selections found (expected the traversal tables of tree_model / tree_regression / io)")


def positional_label_lookups(tree):
    """subscripts `T[… int(<x>.label) …]`: a leaf label parsed as a number and used as a position in another sequence"""
    out = []
    for x in ast.walk(tree):
        if isinstance(x, ast.Subscript):
            for c in ast.walk(x.slice):
                if isinstance(c, ast.Call) and isinstance(c.func, ast.Name) and c.func.id == 'int' and c.args \
                        and any(isinstance(a, ast.Attribute) and a.attr in ('label', 'taxon') for a in ast.walk(c.args[0])):
                    out.append(x)
                    break
    return out


def check_labels_are_names(ctx, rep):
    if len(positional_label_lookups(ast.parse(LABEL_POSITIVE))) != 1:
        raise AnalysisError('C02.N self-check: the positional label lookup of the embedded example is not recognised')
    tm = ctx.prog.module(TMOD)
    hits = []
    mods = [m for m in ctx.prog.modules.values() if m.name.startswith('torchtree.evolution')]
    for m in mods:
        for x in positional_label_lookups(m.tree):
            hits.append((m, x))
    key = 'evolution::leaf-labels-are-taxon-names-never-positions'
    if hits:
        m, x = hits[0]
        rep.bad('C02.N', key, where(m, x), {'lookups': [ast.unparse(h)[:80] for _, h in hits]},
                f"`{ast.unparse(x)[:80]}` reads a leaf label as a number and uses it as a position: a taxon whose NAME is that number is attached to whatever taxon sits at "
                f"that position of the list, so tip data are matched by list order instead of by name")
    else:
        rep.ok('C02.N', key, where(tm, tm.functions['parse_tree']), {'modules_scanned': len(mods)})


SLICE_POSITIVE = """
def f(index, n, seq):
    a = slice(*index.indices(n))
    start = 0 if index.start is None else index.start
    stop = n if index.stop is None else index.stop
    return [seq[i] for i in range(start, stop)], seq[a]
def g(index, n, seq):
    start, stop, step = index.indices(n)
    return seq[slice(start, stop, step)]
"""
SLICE_POSITIVE2 = """
def h(indices, seq):
    slices = [i if isinstance(i, slice) else slice(i, i + 1) for i in indices]
    return [seq[s] for s in slices]
def h2(i, seq, n):
    if i < 0:
        i += n
    return seq[slice(i, i + 1)]
"""
SLICE_NEGATIVE = """
def f(index, n, seq):
    cols = list(range(*index.indices(n)))
    start = index.start
    if start is not None and start < 0:
        start += n
    return [seq[i] for i in cols], seq[index], list(range(start or 0, n))
"""


def hand_resolved_slices(tree):
    """uses of a slice's bounds that Python does not resolve: (1) `slice(*s.indices(n))` — the triple of `indices` is meant for `range`, as a slice its −1 stop (negative
    step, open end) means 'the last position' and selects nothing; (2) `s.start` / `s.stop` handed to `range` with no treatment of negative values"""
    out = []
    for fn in [n for n in ast.walk(tree) if isinstance(n, (ast.FunctionDef, ast.Lambda))]:
        from_indices, bounds = set(), {}
        body = [x for st in (fn.body if isinstance(fn.body, list) else [fn.body]) for x in ast.walk(st)]
        for st in body:
            if isinstance(st, ast.Assign) and len(st.targets) == 1:
                v, t = st.value, st.targets[0]
                if isinstance(v, ast.Call) and isinstance(v.func, ast.Attribute) and v.func.attr == 'indices':
                    for e in (t.elts if isinstance(t, ast.Tuple) else [t]):
                        if isinstance(e, ast.Name):
                            from_indices.add(e.id)
                reads = [x for x in ast.walk(v) if isinstance(x, ast.Attribute) and x.attr in ('start', 'stop') and not (isinstance(x.value, ast.Name) and x.value.id == 'self')]
                if reads and isinstance(t, ast.Name) and not any(isinstance(x, ast.Call) and isinstance(x.func, ast.Attribute) and x.func.attr == 'indices' for x in ast.walk(v)):
                    bounds[t.id] = reads[0]
        if not from_indices and not bounds and not any(isinstance(x, ast.Call) and isinstance(x.func, ast.Name) and x.func.id in ('slice', 'range') for x in body):
            continue
        handled = set()
        for x in body:
            if isinstance(x, ast.Compare) and any(isinstance(c, ast.Constant) and c.value == 0 for c in [x.left] + x.comparators):
                handled |= {n.id for n in ast.walk(x) if isinstance(n, ast.Name)}
                handled |= {ast.unparse(n) for n in ast.walk(x) if isinstance(n, ast.Attribute)}
            if isinstance(x, ast.BinOp) and isinstance(x.op, ast.Mod):
                handled |= {n.id for n in ast.walk(x.left) if isinstance(n, ast.Name)}
        for c in body:
            if not (isinstance(c, ast.Call) and isinstance(c.func, ast.Name)):
                continue
            if c.func.id == 'slice':
                for a in c.args:
                    inner = a.value if isinstance(a, ast.Starred) else a
                    if isinstance(inner, ast.Call) and isinstance(inner.func, ast.Attribute) and inner.func.attr == 'indices':
                        out.append(('slice-from-indices', c))
                        break
                    if isinstance(inner, ast.Name) and inner.id in from_indices:
                        out.append(('slice-from-indices', c))
                        break
            if c.func.id == 'slice' and len(c.args) == 2 and isinstance(c.args[1], ast.BinOp) and isinstance(c.args[1].op, ast.Add) and isinstance(c.args[1].right, ast.Constant) \
                    and c.args[1].right.value == 1 and ast.unparse(c.args[1].left) == ast.unparse(c.args[0]) and not isinstance(c.args[0], ast.Constant):
                names = {n.id for n in ast.walk(c.args[0]) if isinstance(n, ast.Name)}
                if not (names & handled):
                    out.append(('one-element-slice', c))
            if c.func.id == 'range':
                for a in c.args:
                    for x in ast.walk(a):
                        if isinstance(x, ast.Name) and x.id in bounds and x.id not in handled and ast.unparse(bounds[x.id]) not in handled:
                            out.append(('bound-into-range', c))
                        elif isinstance(x, ast.Attribute) and x.attr in ('start', 'stop') and not (isinstance(x.value, ast.Name) and x.value.id == 'self') \
                                and ast.unparse(x) not in handled:
                            out.append(('bound-into-range', c))
    seen, uniq = set(), []
    for k, c in out:
        if id(c) not in seen:
            seen.add(id(c))
            uniq.append((k, c))
    return uniq


REORDER_CALLS = {'ladderize', 'randomly_rotate', 'reroot_at_node', 'reroot_at_edge', 'reroot_at_midpoint', 'to_outgroup_position', 'randomly_reorient', 'reorient',
                 'shuffle_taxa', 'prune_taxa', 'prune_taxa_with_labels', 'retain_taxa', 'retain_taxa_with_labels', 'prune_leaves_without_taxa', 'collapse_unweighted_edges',
                 'collapse_basal_bifurcation', 'suppress_unifurcations', 'randomly_assign_taxa', 'set_child_nodes', 'set_edge_lengths_from_node_ages', 'scale_edges'}


def check_written_down(ctx, rep, rule='C02.N'):
    """(1) column selections are resolved by Python's own slice semantics, (2) the tree whose nodes are indexed is the tree that was written (no rotation, re-rooting or
    pruning between the parser and setup_indexes — internal nodes are numbered in the post-order of the newick, and every per-node vector the user supplies is laid out in
    that order), (3) which nodes carry a branch is a matter of topology (has a parent), not of which lengths the file happens to write"""
    if len(hand_resolved_slices(ast.parse(SLICE_POSITIVE))) != 3 or hand_resolved_slices(ast.parse(SLICE_NEGATIVE)) or \
            [k for k, _ in hand_resolved_slices(ast.parse(SLICE_POSITIVE2))] != ['one-element-slice']:
        raise AnalysisError(f'{rule} self-check: hand-resolved slices of the embedded examples are not recognised as expected')
    mods = [m for m in ctx.prog.modules.values() if m.name.startswith('torchtree.evolution') or m.name.startswith('torchtree.core.utils')]
    hits = [(m, k, c) for m in mods for k, c in hand_resolved_slices(m.tree)]
    sm = ctx.prog.module('torchtree.evolution.site_pattern')
    key = 'evolution::column-selections-resolved-by-python-slicing'
    if hits:
        m, k, c = hits[0]
        why = ("the (start, stop, step) triple of slice.indices() is meant for range(); put back into a slice its stop of −1 (negative step, open end) means 'the last "
               "position' and the selection is empty" if k == 'slice-from-indices' else
               "slice(i, i + 1) selects nothing for i = −1 (the stop becomes 0): the last column, written the usual way, silently drops out of the selection"
               if k == 'one-element-slice' else
               "a slice bound is handed to range() as written: a negative bound ('the last k columns') is not converted to a position, so range runs through the end of the "
               "alignment and over it once more")
        rep.bad(rule, key, where(m, c), {'sites': [f"{k}:{ast.unparse(x)[:60]}" for _, k, x in hits]}, f"`{ast.unparse(c)[:80]}`: {why} — the likelihood is that of other columns than "
                f"the ones selected")
    else:
        rep.ok(rule, key, where(sm, sm.functions['compress']), {'modules_scanned': len(mods)})
    # (2)
    tm = ctx.prog.module(TMOD)
    key = 'evolution::the-tree-indexed-is-the-tree-written'
    hits = []
    calls = 0
    for m in mods:
        for c in ast.walk(m.tree):
            if isinstance(c, ast.Call) and isinstance(c.func, ast.Attribute):
                calls += 1
                if c.func.attr in REORDER_CALLS:
                    hits.append((m, c))
    if hits:
        m, c = hits[0]
        rep.bad(rule, key, where(m, c), {'calls': [ast.unparse(x)[:60] for _, x in hits]},
                f"`{ast.unparse(c)[:60]}` rearranges the parsed tree: internal nodes are numbered in the post-order of the tree as written and every per-node vector of the "
                f"configuration (branch lengths, heights, rates) is laid out in that order, so the values land on other branches")
    else:
        rep.ok(rule, key, where(tm, tm.functions['parse_tree']), {'method_calls_scanned': calls})
    # (2') the parser keeps the root where it was written: every newick read asks dendropy for a rooted tree whatever the string says (`rooting='force-rooted'`); with the
    # default a leading [&U] makes update_bipartitions collapse the basal bifurcation — a root with three children, of which the traversal keeps two
    key = 'evolution::newick-read-as-a-rooted-tree'
    reads, wrong = 0, []
    for m in mods:
        for fn in [f for f in ast.walk(m.tree) if isinstance(f, ast.FunctionDef)]:
            dicts = {}
            for st in ast.walk(fn):
                if isinstance(st, ast.Assign) and len(st.targets) == 1 and isinstance(st.targets[0], ast.Name):
                    v = st.value
                    if isinstance(v, ast.Dict):
                        dicts[st.targets[0].id] = {k.value: x for k, x in zip(v.keys, v.values) if isinstance(k, ast.Constant)}
                    elif isinstance(v, ast.Call) and isinstance(v.func, ast.Name) and v.func.id == 'dict':
                        dicts[st.targets[0].id] = {k.arg: k.value for k in v.keywords if k.arg}
            for c in ast.walk(fn):
                if isinstance(c, ast.Call) and isinstance(c.func, ast.Attribute) and c.func.attr in ('get', 'get_from_string', 'get_from_path', 'read') \
                        and isinstance(c.func.value, ast.Name) and c.func.value.id in ('Tree', 'TreeList') and any(k.arg == 'schema' or k.arg is None for k in c.keywords):
                    reads += 1
                    kw = {k.arg: k.value for k in c.keywords if k.arg}
                    for k in c.keywords:
                        if k.arg is None and isinstance(k.value, ast.Name) and k.value.id in dicts:
                            kw = {**dicts[k.value.id], **kw}
                    r = kw.get('rooting')
                    if not (isinstance(r, ast.Constant) and r.value == 'force-rooted'):
                        wrong.append((m, c, ast.unparse(r) if r is not None else 'absent'))
    if wrong:
        m, c, r = wrong[0]
        rep.bad(rule, key, where(m, c), {'rooting': [w[2] for w in wrong]},
                f"`{ast.unparse(c)[:60]}` reads the newick with rooting={r}: a string that starts with [&U] comes back with its basal bifurcation collapsed, the root has three "
                f"children and the traversal keeps the first two — the same tree written with or without the comment gives another likelihood")
    elif reads < 2:
        rep.undecided(rule, key, where(tm, tm.functions['parse_tree']), f"only {reads} newick reads found in the evolution modules (parse_tree's two expected)")
    else:
        rep.ok(rule, key, where(tm, tm.functions['parse_tree']), {'newick_reads': reads})
    # (2'') the symbols of a sequence are the ones in the file, all of them: the readers strip white space only — a symbol removed at the end of a LINE is removed or kept
    # depending on where the file wraps its lines, and shifts every later column of that sequence against the others
    key = 'evolution::sequence-symbols-are-kept-as-read'
    am = ctx.prog.module('torchtree.evolution.alignment')
    strips, bad_strip = 0, []
    for c in ast.walk(am.tree):
        if isinstance(c, ast.Call) and isinstance(c.func, ast.Attribute) and c.func.attr in ('strip', 'rstrip', 'lstrip'):
            strips += 1
            if c.args and not (isinstance(c.args[0], ast.Constant) and isinstance(c.args[0].value, str) and c.args[0].value.strip() == ''):
                bad_strip.append(c)
    if bad_strip:
        rep.bad(rule, key, where(am, bad_strip[0]), {'calls': [ast.unparse(x)[:50] for x in bad_strip]},
                f"`{ast.unparse(bad_strip[0])[:50]}` removes symbols from the ends of what was read: applied line by line it deletes a column from some sequences only (the ones whose "
                f"line happens to end there), so the remaining columns are no longer aligned and the likelihood is that of other data")
    elif strips < 1:
        rep.undecided(rule, key, where(am, am.functions.get('read_fasta_sequences') or am.tree), 'no strip call found in the sequence readers')
    else:
        rep.ok(rule, key, where(am, am.functions.get('read_fasta_sequences') or am.tree), {'strip_calls': strips})
    # (3)
    key = 'evolution::branches-are-the-nodes-with-a-parent'
    hits, filters = [], 0
    for m in mods:
        for c in ast.walk(m.tree):
            tests = []
            if isinstance(c, ast.Call) and isinstance(c.func, ast.Attribute) and c.func.attr.endswith('_node_iter'):
                for a in list(c.args) + [k.value for k in c.keywords]:
                    if isinstance(a, ast.Lambda):
                        tests.append(a.body)
            if isinstance(c, ast.comprehension) and ('_node_iter' in ast.unparse(c.iter) or '.nodes(' in ast.unparse(c.iter)):
                tests.extend(c.ifs)
            for t in tests:
                filters += 1
                if any(isinstance(x, ast.Attribute) and x.attr in ('edge_length', 'edge') for x in ast.walk(t)):
                    hits.append((m, t))
    if hits:
        m, t = hits[0]
        rep.bad(rule, key, where(m, t), {'filters': [ast.unparse(x)[:60] for _, x in hits]},
                f"nodes are selected by `{ast.unparse(t)[:60]}`: whether a node has a length written in the file is not whether it has a branch — a root written with `:0.0` is "
                f"taken for a branch (and a tip written without a length is dropped), so the same tree written differently gives another branch vector")
    else:
        rep.ok(rule, key, where(tm, tm.functions['parse_tree']), {'node_filters_scanned': filters})


def check_names(ctx, rep):
    from sa.cfg import CFG
    tm = ctx.prog.module(TMOD)
    # (a) polytomies are resolved on every path before the nodes are indexed
    pt = tm.functions.get('parse_tree')
    if pt is None:
        raise AnalysisError('parse_tree not found')
    cfg = CFG(pt)
    res = [n for n in cfg.stmt_nodes() if n.stmt is not None and any(isinstance(c, ast.Call) and method_name(c) == 'resolve_polytomies' for c in ast.walk(n.stmt))
           and not isinstance(n.stmt, (ast.If, ast.For, ast.While, ast.With, ast.Try))]
    idxs = [n for n in cfg.stmt_nodes() if n.stmt is not None and isinstance(n.stmt, (ast.Expr, ast.Assign)) and any(
        isinstance(c, ast.Call) and method_name(c) == 'setup_indexes' for c in ast.walk(n.stmt))]
    if not idxs:
        raise AnalysisError('parse_tree no longer calls setup_indexes')
    ok = bool(res) and all(cfg.must_pass(cfg.entry, i, res) for i in idxs)
    rep.check('C02.N', 'parse_tree::polytomies-resolved-on-every-path-before-indexing', ok, where(tm, pt), {'resolve_sites': len(res), 'index_sites': len(idxs)},
              "parse_tree reaches setup_indexes on a path that skips tree.resolve_polytomies(): update_traversals keeps only children[0] and children[1] of every node, so a "
              "multifurcation below the root silently loses subtrees and the likelihood depends on where the root was written")
    # (b) leaf index from the taxon label
    si = tm.functions.get('setup_indexes')
    if si is None:
        raise AnalysisError('setup_indexes not found')
    check_leaf_index(ctx, rep, 'C02.N')
    # (c) unrooted model: both root branches receive the other's length
    un = tm.classes.get('UnRootedTreeModel')
    fj = next((f for f in un.body if isinstance(f, ast.FunctionDef) and f.name == 'from_json'), None) if un is not None else None
    if fj is None:
        raise AnalysisError('UnRootedTreeModel.from_json not found')
    pair = None
    for st in ast.walk(fj):
        if isinstance(st, ast.Assign) and isinstance(st.targets[0], ast.Tuple) and len(st.targets[0].elts) == 2 and 'seed_node' in ast.unparse(st.value) \
                and all(isinstance(e, ast.Name) for e in st.targets[0].elts):
            pair = tuple(e.id for e in st.targets[0].elts)
    adds = set()
    for st in ast.walk(fj):
        if isinstance(st, ast.AugAssign) and isinstance(st.op, ast.Add) and isinstance(st.target, ast.Subscript) and isinstance(st.value, ast.Attribute) and st.value.attr == 'edge_length':
            tgt, src = st.target.slice, st.value.value
            if isinstance(tgt, ast.Attribute) and tgt.attr == 'index' and isinstance(tgt.value, ast.Name) and isinstance(src, ast.Name):
                adds.add((tgt.value.id, src.id))
    key = 'UnRootedTreeModel.from_json::both-root-branches-carry-the-sum'
    if pair is None or not adds:
        rep.undecided('C02.N', key, where(tm, fj), 'root children unpacking / `blens[child.index] += other.edge_length` updates not recognised')
    else:
        a, b = pair
        rep.check('C02.N', key, adds == {(a, b), (b, a)}, where(tm, fj), {'root_children': pair, 'updates': sorted(adds)},
                  f"with keep_branch_lengths the two root branches are merged: whichever child's entry survives `blens[:-1]` must carry the sum, so both `{a}` and `{b}` "
                  f"need the other's length added; found only {sorted(adds)} — the tree's root branch is wrong whenever the surviving child is the other one "
                  f"(depends on the order the children are written in)")
    # (c') the kept lengths are the ones written in the newick string: the element of the list is the node's edge_length (a cast at most) — a floor, a clamp or a
    # rounding changes the tree that was written down (and a floored zero-length branch makes the likelihood depend on how a polytomy was resolved)
    comp = None
    for st in ast.walk(fj):
        if isinstance(st, ast.Assign) and isinstance(st.value, ast.ListComp) and any(isinstance(x, ast.Attribute) and x.attr == 'edge_length' for x in ast.walk(st.value.elt)):
            comp = st.value
    key = 'UnRootedTreeModel.from_json::kept-lengths-are-the-newick-lengths'
    if comp is None:
        rep.undecided('C02.N', key, where(tm, fj), 'list of kept branch lengths not recognised')
    else:
        e = comp.elt
        while isinstance(e, ast.Call) and isinstance(e.func, ast.Name) and e.func.id in ('float',) and len(e.args) == 1:
            e = e.args[0]
        tgt = comp.generators[0].target
        plain = isinstance(e, ast.Attribute) and e.attr == 'edge_length' and isinstance(e.value, ast.Name) and isinstance(tgt, ast.Name) and e.value.id == tgt.id
        rep.check('C02.N', key, plain, where(tm, comp), {'element': ast.unparse(comp.elt)},
                  f"with keep_branch_lengths the branch-length parameter must receive the lengths of the newick string; the element is `{ast.unparse(comp.elt)}`, which alters them")
    # (d) sequences are put in Taxa order by taxon name
    am = ctx.prog.module(AMOD)
    al = am.classes.get('Alignment')
    init = next((f for f in al.body if isinstance(f, ast.FunctionDef) and f.name == '__init__'), None) if al is not None else None
    if init is None:
        raise AnalysisError('Alignment.__init__ not found')
    ok, facts = False, {}
    for c in ast.walk(init):
        if isinstance(c, ast.Call) and method_name(c) in ('sort', 'sorted'):
            k = next((kw.value for kw in c.keywords if kw.arg == 'key'), None)
            if isinstance(k, ast.Lambda) and isinstance(k.body, ast.Subscript) and isinstance(k.body.value, ast.Name):
                d = _enumerate_dict(init, k.body.value.id)
                arg = k.args.args[0].arg
                facts = {'key': ast.unparse(k.body), 'table': d}
                taxa_param = init.args.args[3].arg if len(init.args.args) > 3 else 'taxa'
                ok = d is not None and d[0] == 'x.id' and d[1] == taxa_param and ast.unparse(k.body.slice) == f"{arg}.taxon"
    rep.check('C02.N', 'Alignment.__init__::sequences-sorted-into-taxa-order-by-name', ok, where(am, init), facts,
              "the sequences must be sorted by the position of their taxon name in the Taxa list (the order of the sequence list must not matter)")
    # (d') the order of the sequence list must not matter: nothing read from a positional element of the list as given (sequences[0] …) decides what is stored
    seqs = init.args.args[2].arg if len(init.args.args) > 2 else 'sequences'
    tainted = set()
    for st in ast.walk(init):
        if isinstance(st, ast.Assign) and any(isinstance(x, ast.Subscript) and isinstance(x.value, ast.Name) and x.value.id == seqs and isinstance(x.slice, ast.Constant)
                                              for x in ast.walk(st.value)):
            for t in st.targets:
                tainted.add(ast.unparse(t))
    dependent = []
    for st in ast.walk(init):
        writes = (isinstance(st, ast.Assign) and any(isinstance(t, ast.Subscript) and isinstance(t.value, ast.Name) and t.value.id == seqs for t in st.targets)) or \
                 (isinstance(st, ast.Expr) and isinstance(st.value, ast.Call) and isinstance(st.value.func, ast.Attribute) and isinstance(st.value.func.value, ast.Name)
                  and st.value.func.value.id == seqs and st.value.func.attr in ('append', 'insert', 'extend', 'remove', 'pop'))
        if not writes:
            continue
        ctx_nodes = [st]
        p_ = getattr(st, '_parent', None)
        while p_ is not None and p_ is not init:
            if isinstance(p_, (ast.If, ast.While)):
                ctx_nodes.append(p_.test)
            p_ = getattr(p_, '_parent', None)
        if any(ast.unparse(x) in tainted for nd in ctx_nodes for x in ast.walk(nd) if isinstance(x, (ast.Name, ast.Attribute))):
            dependent.append(st)
    rep.check('C02.N', 'Alignment.__init__::stored-sequences-do-not-depend-on-list-order', not dependent, where(am, dependent[0] if dependent else init),
              {'read_from_a_positional_element': sorted(tainted), 'dependent_stores': [norm_text(d)[:60] for d in dependent]},
              f"Alignment.__init__ changes the sequences (`{norm_text(dependent[0])[:60] if dependent else ''}`) depending on {sorted(tainted)}, which is read from a fixed position of the "
              f"list as it was given: listing the same sequences in another order stores different data")
    # (e) tips are emitted in Taxa order, looked up by taxon name
    sm = ctx.prog.module(SMOD)
    for name in ('compress_alignment', 'compress_alignment_states'):
        f = sm.functions.get(name)
        if f is None:
            raise AnalysisError(f"{name} not found")
        loops = [n for n in ast.walk(f) if isinstance(n, ast.For) and ast.unparse(n.iter).endswith('.taxa') and isinstance(n.target, ast.Name)]
        ok = False
        if len(loops) == 1:
            v = loops[0].target.id
            lookups = [x for x in ast.walk(loops[0]) if isinstance(x, ast.Subscript) and isinstance(x.value, ast.Name) and x.value.id == 'patterns']
            ok = bool(lookups) and all(ast.unparse(x.slice) == f"{v}.id" for x in lookups)
        rep.check('C02.N', f"{name}::tips-emitted-in-taxa-order-by-name", ok, where(sm, f), None,
                  f"{name} must emit one tip per taxon of alignment.taxa, in that order, looking the patterns up by the taxon's name")
    f = sm.functions.get('compress')
    ok = False
    if f is not None:
        unz = [st for st in ast.walk(f) if isinstance(st, ast.Assign) and isinstance(st.targets[0], ast.Tuple) and ast.unparse(st.value).replace(' ', '') == f"zip(*{f.args.args[0].arg})"]
        names = [e.id for e in unz[0].targets[0].elts] if unz else []
        # the dictionary that is returned pairs the names that came with the sequences with the compressed rows: dict(zip(names, rows)), {n: r for n, r in zip(names, rows)},
        # or rows stored under `d[name]` in a loop over zip(names, …) / enumerate(names)
        ret = [r.value for r in ast.walk(f) if isinstance(r, ast.Return) and r.value is not None]
        rname = ret[0].elts[0].id if ret and isinstance(ret[0], ast.Tuple) and ret[0].elts and isinstance(ret[0].elts[0], ast.Name) else None
        pd = [st for st in ast.walk(f) if isinstance(st, ast.Assign) and isinstance(st.targets[0], ast.Name) and st.targets[0].id == rname]

        def zipped_with_names(z):
            return isinstance(z, ast.Call) and isinstance(z.func, ast.Name) and z.func.id == 'zip' and z.args and isinstance(z.args[0], ast.Name) and names and z.args[0].id == names[0]
        ok = False
        if names and len(pd) == 1:
            v = pd[0].value
            if isinstance(v, ast.Call) and isinstance(v.func, ast.Name) and v.func.id in ('dict', 'OrderedDict') and len(v.args) == 1 and zipped_with_names(v.args[0]):
                ok = True
            elif isinstance(v, ast.DictComp) and len(v.generators) == 1 and zipped_with_names(v.generators[0].iter) and isinstance(v.generators[0].target, ast.Tuple) \
                    and isinstance(v.key, ast.Name) and isinstance(v.generators[0].target.elts[0], ast.Name) and v.key.id == v.generators[0].target.elts[0].id:
                ok = True
            elif (isinstance(v, ast.Dict) and not v.keys) or (isinstance(v, ast.Call) and isinstance(v.func, ast.Name) and v.func.id in ('dict', 'OrderedDict') and not v.args):
                for lp in [n for n in ast.walk(f) if isinstance(n, ast.For) and zipped_with_names(n.iter) and isinstance(n.target, ast.Tuple) and isinstance(n.target.elts[0], ast.Name)]:
                    key = lp.target.elts[0].id
                    sts = [st for st in ast.walk(lp) if isinstance(st, ast.Assign) and isinstance(st.targets[0], ast.Subscript) and isinstance(st.targets[0].value, ast.Name)
                           and st.targets[0].value.id == rname]
                    if sts and all(isinstance(st.targets[0].slice, ast.Name) and st.targets[0].slice.id == key for st in sts):
                        ok = True
    rep.check('C02.N', 'compress::patterns-keyed-by-taxon-name', ok, where(sm, f) if f is not None else '', None,
              "compress must key the compressed columns by the taxon name that came with each sequence")
    # (e') a pattern stands for columns with the very same symbols only (which column of a merged set is kept depends on the order of the sites / taxa)
    from props import c01
    if f is not None:
        raw, facts = c01.counter_keys_are_raw_columns(f)
        if raw is None:
            rep.undecided('C02.N', 'compress::patterns-are-the-distinct-raw-columns', where(sm, f), facts.get('why', 'column counter not recognised'), facts)
        else:
            rep.check('C02.N', 'compress::patterns-are-the-distinct-raw-columns', raw, where(sm, f), facts,
                      f"the pattern counter is keyed by {facts.get('offending')}, not by the column itself: columns with different symbols share one pattern and the tip vectors of "
                      f"whichever column came first are used for all of them")
    check_child_symmetry(ctx, rep)
    check_labels_are_names(ctx, rep)
    check_written_down(ctx, rep)
    # the order of the columns / of the index blocks does not matter only if every distinct column is kept with its full count (C01.W), and where the root is written does
    # not matter only if the per-node branch vector is the tree model's lengths followed by the one zero of the collapsed root branch (C01.B)
    from sa.report import RuleProxy as _RP
    for f_, pre in ((c01.check_compress, 'compress::'), (c01.check_assembly, 'assembly::')):
        try:
            f_(ctx, _RP(rep, 'C02.N', pre))
        except Unsupported as u:
            rep.undecided('C02.N', pre + f_.__name__, '', str(u))
    # (f) nothing computed from a method argument is memoised on the shared SitePattern without that argument in the key
    from props import c11
    from sa.report import RuleProxy
    c11.check_memo_keys(ctx, RuleProxy(rep, 'C02.N', 'memo::'), only=lambda m: m.name in (SMOD, AMOD, TMOD, 'torchtree.evolution.tree_likelihood'))

def check_tip_state_clamp(ctx, rep):
    """tip states are data_type.encoding(symbol) clamped at state_count — the index of the all-ones column the tip-state kernels append: clamped lower, a gap / unknown is
    scored as the last real state; the bound may be spelled through a local name (resolved through its single assignment)"""
    sp = ctx.prog.module('torchtree.evolution.site_pattern')
    fn = sp.functions.get('compress_alignment_states')
    if fn is None:
        raise AnalysisError('compress_alignment_states not found')
    assigned = {}
    for st in ast.walk(fn):
        if isinstance(st, ast.Assign) and len(st.targets) == 1 and isinstance(st.targets[0], ast.Name):
            assigned.setdefault(st.targets[0].id, []).append(st.value)
    clamps = [c for c in ast.walk(fn) if isinstance(c, ast.Call) and method_name(c) in ('clamp', 'clip')]
    ok = False
    for c in clamps:
        mx = next((kw.value for kw in c.keywords if kw.arg == 'max'), c.args[2] if len(c.args) > 2 else None)
        if isinstance(mx, ast.Name) and len(assigned.get(mx.id, [])) == 1:
            mx = assigned[mx.id][0]
        enc = any(isinstance(x, ast.Call) and method_name(x) == 'encoding' for x in ast.walk(c))
        ok = ok or (mx is not None and ast.unparse(mx).endswith('data_type.state_count') and enc)
    rep.check('C02.M', 'compress_alignment_states::clamped-at-state-count', ok, where(sp, fn), None,
              "tip states must be data_type.encoding(symbol) clamped to state_count (the index of the all-ones column)")


def check_sampling_times_order(ctx, rep):
    """C02.N — the vector of sampling times is indexed like the leaves (taxon-index order, the order of the Taxa): every store to an attribute `sampling_times` is None, a
    device / dtype move of itself, or a value filled by iterating over the taxa — never by iterating over the tree's leaves (newick order) or traversals."""
    moves = {'cuda', 'cpu', 'to', 'clone', 'detach', 'double', 'float'}
    tree_orders = ('leaf_node_iter', 'leaf_nodes', 'postorder', 'preorder', 'levelorder', 'nodes(', '.leaves')
    n = 0
    for mname, m in sorted(ctx.prog.modules.items()):
        if not mname.startswith('torchtree.evolution'):
            continue
        for fn in [f for f in ast.walk(m.tree) if isinstance(f, ast.FunctionDef)]:
            cl_ = getattr(fn, '_parent', None)
            scope = f"{cl_.name}.{fn.name}" if isinstance(cl_, ast.ClassDef) else fn.name
            for st in ast.walk(fn):
                if not (isinstance(st, ast.Assign) and any(isinstance(t, ast.Attribute) and t.attr == 'sampling_times' for t in st.targets)):
                    continue
                tgt = next(t for t in st.targets if isinstance(t, ast.Attribute) and t.attr == 'sampling_times')
                key = f"{mname.replace('torchtree.', '')}::{scope}::sampling-times-in-taxon-order::{norm_text(st.value)[:40]}"
                v = st.value
                if isinstance(v, ast.Constant) and v.value is None:
                    continue
                n += 1
                if isinstance(v, ast.Call) and isinstance(v.func, ast.Attribute) and v.func.attr in moves and isinstance(v.func.value, ast.Attribute) \
                        and v.func.value.attr == 'sampling_times' and ast.unparse(v.func.value.value) == ast.unparse(tgt.value):
                    rep.ok('C02.N', key, where(m, st), {'kind': 'move of itself'})
                    continue
                names = {x.id for x in ast.walk(v) if isinstance(x, ast.Name)}
                iters = [g.iter for c in ast.walk(v) if isinstance(c, (ast.ListComp, ast.GeneratorExp)) for g in c.generators]
                for loop in ast.walk(fn):
                    if isinstance(loop, ast.For) and any(
                            (isinstance(b, ast.Assign) and any(isinstance(t, ast.Subscript) and isinstance(t.value, ast.Name) and t.value.id in names for t in b.targets))
                            or (isinstance(b, ast.Call) and isinstance(b.func, ast.Attribute) and b.func.attr in ('append', 'insert', 'extend') and isinstance(b.func.value, ast.Name)
                                and b.func.value.id in names) for b in ast.walk(loop)):
                        iters.append(loop.iter)
                texts = [ast.unparse(i) for i in iters]
                bad = [t for t in texts if any(k in t for k in tree_orders)]
                if bad:
                    rep.bad('C02.N', key, where(m, st), {'iterates_over': texts},
                            f"{scope}: `{norm_text(st)[:70]}` fills the sampling times by iterating over {bad[0]} — the order of the leaves in the tree as written, not the order of "
                            f"the Taxa that leaf indices refer to: with heterochronous tips every leaf whose position differs gets another leaf's date")
                elif texts and all('taxa' in t for t in texts):
                    rep.ok('C02.N', key, where(m, st), {'iterates_over': texts})
                else:
                    rep.undecided('C02.N', key, where(m, st), f"order of the stored value not recognised (iterates over {texts})")
    if n < 3:
        rep.incomplete('C02.N', 'sampling-times-in-taxon-order', '', f"only {n} stores to sampling_times found")


def check_lookup_datatypes(ctx, rep):
    """data types whose encoding is not a class-level table (GeneralDataType: dictionaries built per instance; CodonDataType: computed): with ambiguities off, partial()
    must call a symbol definite exactly when encoding() does — it either derives its answer from self.encoding(...) or tests membership in the very table encoding() reads"""
    m = ctx.prog.module(DT)
    n = 0
    for cname, cls in sorted(m.classes.items()):
        if cname in ('NucleotideDataType', 'AminoAcidDataType'):
            continue
        part = next((f for f in cls.body if isinstance(f, ast.FunctionDef) and f.name == 'partial'), None)
        enc = next((f for f in cls.body if isinstance(f, ast.FunctionDef) and f.name == 'encoding'), None)
        if part is None or enc is None or any((dotted_name(d) or '').endswith('abstractmethod') for d in part.decorator_list):
            continue
        n += 1
        key = f"{cname}::partial-with-ambiguities-off-is-definite-exactly-when-encoding-is"
        W = where(m, part)
        sn = part.args.args[1].arg
        flag = part.args.args[2].arg if len(part.args.args) > 2 else None
        # (i) derived from the encoding
        uses_encoding = any(isinstance(c, ast.Call) and self_attr(c.func) == 'encoding' for c in ast.walk(part))
        if uses_encoding:
            rep.ok('C02.M', key, W, {'class': 'partial() is computed from self.encoding(symbol)'})
            continue
        # (ii) membership in the table encoding() reads
        tables = {self_attr(c.func.value) for c in ast.walk(enc) if isinstance(c, ast.Call) and isinstance(c.func, ast.Attribute) and c.func.attr == 'get' and self_attr(c.func.value)}
        tables |= {self_attr(s.value) for s in ast.walk(enc) if isinstance(s, ast.Subscript) and self_attr(s.value)}
        first_if = next((st for st in part.body if isinstance(st, ast.If)), None)
        if first_if is None or not tables:
            rep.undecided('C02.M', key, W, 'neither derived from encoding() nor a membership test on the table encoding() reads')
            continue

        def simplify(t):
            """conjuncts of the test with the flag set to False; None = the test is false"""
            if isinstance(t, ast.Name) and t.id == flag:
                return None
            if isinstance(t, ast.UnaryOp) and isinstance(t.op, ast.Not) and isinstance(t.operand, ast.Name) and t.operand.id == flag:
                return []
            if isinstance(t, ast.BoolOp) and isinstance(t.op, ast.And):
                out = []
                for v in t.values:
                    r = simplify(v)
                    if r is None:
                        return None
                    out += r
                return out
            if isinstance(t, ast.BoolOp) and isinstance(t.op, ast.Or):
                alts = [simplify(v) for v in t.values]
                alts = [a for a in alts if a is not None]
                if len(alts) == 1:
                    return alts[0]
                if not alts:
                    return None
                if any(a == [] for a in alts):
                    return []
                return [t]
            return [t]
        conj = simplify(first_if.test)
        member = []
        other = []
        for c in conj or []:
            if isinstance(c, ast.Compare) and len(c.ops) == 1 and isinstance(c.ops[0], ast.In) and isinstance(c.left, ast.Name) and c.left.id == sn and self_attr(c.comparators[0]):
                member.append(self_attr(c.comparators[0]))
            else:
                other.append(norm_text(c))
        ok = conj is not None and not other and any(t in tables for t in member)
        rep.check('C02.M', key, ok, W, {'encoding_tables': sorted(tables), 'definite_test_with_flag_off': [norm_text(c) for c in (conj or [])], 'flag_read': any(
            isinstance(x, ast.Name) and x.id == flag for x in ast.walk(part))},
                  f"{cname}.partial(symbol, use_ambiguities=False) calls a symbol definite when `{' and '.join(norm_text(c) for c in (conj or [])) or 'never'}`, but encoding() looks it up "
                  f"in {sorted(tables)}: an ambiguity code keeps its state set in the tip-partial representation while the tip-state representation treats it as missing, "
                  f"so the two representations give different likelihoods")
    if n < 2:
        raise AnalysisError(f"only {n} lookup-based data types found (GeneralDataType / CodonDataType expected)")


def check_table_datatypes(ctx, rep):
    """table-driven data types: with ambiguities off, partial() and encoding() select the same tip vector for each of the 128 code points"""
    m = ctx.prog.module(DT)
    for cname, states_name, amb_name, nstates in (('NucleotideDataType', 'NUCLEOTIDE_STATES', 'NUCLEOTIDE_AMBIGUITY_STATES', 4),
                                                  ('AminoAcidDataType', 'AMINO_ACIDS_STATES', 'AMINO_ACIDS_AMBIGUITY_STATES', 20)):
        cls = m.classes.get(cname)
        if cls is None:
            raise AnalysisError(f"{cname} not found")
        W = where(m, cls)
        try:
            env = fold_class(cls)
            st, amb = env[states_name], env[amb_name]
            from sa.consteval import ConstEval
            ev = ConstEval(env, class_name=cname)
            fn, missing_set, missing = missing_branch(cls, ev)
            lit = {chr(c) for c in range(128)} - missing_set
        except (Unsupported, KeyError) as u:
            rep.undecided('C02.M', f"{cname}", W, str(u))
            continue
        definite = {chr(c) for c in range(128) if st[c] < nstates}
        rep.check('C02.M', f"{cname}::definite-symbol-literal", set(lit) == definite, where(m, fn),
                  {'literal': ''.join(sorted(lit)), 'symbols_with_a_definite_state': ''.join(sorted(definite))},
                  f"{cname}.partial treats {sorted(set(lit) ^ definite)} differently from encoding(): with ambiguities off the tip-partial representation "
                  f"and the tip-state representation disagree for these symbols")
        # missing branch returns all ones
        try:
            mv = ev.expr(missing)
            ok = tuple(float(x) for x in mv) == (1.0,) * nstates
        except Unsupported:
            ok = False
            mv = None
        rep.check('C02.M', f"{cname}::missing-is-all-ones", ok, where(m, fn), {'returned': str(mv)[:80]},
                  f"{cname}.partial must return the all-ones vector for a symbol treated as missing")
        # per symbol
        bad = []
        for c in range(128):
            ch = chr(c)
            part = (1.0,) * nstates if ch not in lit else tuple(float(x) for x in amb[st[c]])
            enc = min(st[c], nstates)
            col = tuple(1.0 if (enc == nstates or i == enc) else 0.0 for i in range(nstates))
            if part != col:
                bad.append((c, ch, part, col))
        rep.check('C02.M', f"{cname}::all-128-symbols-agree", not bad, W, {'checked': 128, 'first_disagreement': str(bad[:1])},
                  f"{cname}: symbol {bad[0][1]!r} gives tip partial {bad[0][2]} but the tip-state kernels select {bad[0][3]}" if bad else '')


def run(ctx, rep):
    rep.explanation = (
        "C02.M: for every one of the 128 code points and both table-driven data types, the tip vector that partial(c, use_ambiguities=False) returns "
        "(decided from the folded tables and the string literal of the missing-data branch) equals the column the tip-state kernels select for "
        "encoding(c) clamped to the state count: one-hot for a definite state, the appended all-ones column otherwise.  Extracted facts: the literal "
        "equals {c : STATES[c] < state_count}; the missing branch returns all ones; compress_alignment_states clamps at state_count; both tip-state "
        "kernels append exactly one column of ones on the last axis of the tip matrices and gather on that axis."
    )
    rep.rule('C02.M', "tip-state and tip-partial (ambiguities off) representations select the same tip vector for every symbol")
    rep.rule('C02.N', "name-to-index plumbing: sequences sorted into Taxa order by name, tips emitted in Taxa order by name, leaf index = position of the taxon label, "
                      "polytomies resolved on every path before indexing, both root branches carry the merged length, no memo on the shared SitePattern that ignores an argument")
    rep.not_decided += ["numerical invariance under permutations of taxa / sequences / children / columns", "rerooting invariance of the pruning itself (see C01 for the kernels)",
                        "pattern compression weights (C01.W)"]
    try:
        check_lookup_datatypes(ctx, rep)
    except Unsupported as u:
        rep.undecided('C02.M', 'check_lookup_datatypes', f"line {getattr(u.node, 'lineno', 0)}", str(u))
    try:
        check_names(ctx, rep)
    except Unsupported as u:
        rep.undecided('C02.N', 'check_names', f"line {getattr(u.node, 'lineno', 0)}", str(u))
    check_table_datatypes(ctx, rep)
    check_sampling_times_order(ctx, rep)
    # moving the root must not change the value (pulley principle): with rescaling this needs ONE scaler per site and node, taken over categories and states together and
    # added back as a per-site term — a scaler per rate category re-weights the categories differently at every node, and where the root sits then matters (C03.P rules)
    from props import c03
    from sa.report import RuleProxy
    c03.check_scalers(ctx, RuleProxy(rep, 'C02.W', 'scalers::'))
    check_tip_state_clamp(ctx, rep)
    # kernels: one ones-column appended on the last axis, gathered on the last axis
    lm = ctx.prog.module(MODULE)
    n = 0
    for name, f in lm.functions.items():
        if 'tip_states' not in name:
            continue
        n += 1
        try:
            k = extract(f)
        except Unsupported as u:
            rep.undecided('C02.M', f"{name}::unknown-state-column", where(lm, f), str(u))
            continue
        mt = k.mat_tips or {}
        ok = mt.get('axis') == -1 and mt.get('first_is_tip_slice_of_mats') and mt.get('second_is_ones') and mt.get('one_column')
        gathers = [x for pos in ('first', 'second') for x in k.factors[pos] if x.kind == 'gather']
        ok = ok and len(gathers) == 2 and all(g.gather_last and not g.transposed and g.matrix == mt.get('name') for g in gathers)
        rep.check('C02.M', f"{name}::unknown-state-column", bool(ok), where(lm, f), {'mat_tips': mt, 'gathers': [g.as_dict() for g in gathers]},
                  f"{name}: the tip matrices must get exactly one extra column of ones on the last axis (index state_count = unknown) and tip states must index that axis")
    if n < 2:
        raise AnalysisError('tip-state kernels not found')
    # C02.W — merging identical columns into weighted patterns: the weight multiplies the whole per-site log-likelihood (log term and log scalers) in every kernel
    rep.rule('C02.W', "in every pruning kernel the pattern weight multiplies the complete per-site log-likelihood — the log of the root sum and the log scalers — and the sum runs over sites")
    # the kernels read the traversal they are given: the post-order list IS the tree model's own list (`self.tree_model.postorder`), so a kernel that pops / sorts / extends
    # it changes the tree every later evaluation — and every other likelihood sharing the tree model — walks
    for name, f in sorted(lm.functions.items()):
        if not name.startswith('calculate_treelikelihood'):
            continue
        params = {a.arg for a in f.args.args}
        rebound = {t.id for st in ast.walk(f) if isinstance(st, ast.Assign) for t in st.targets if isinstance(t, ast.Name)}
        muts = [c for c in ast.walk(f) if isinstance(c, ast.Call) and isinstance(c.func, ast.Attribute) and c.func.attr in ('pop', 'append', 'insert', 'remove', 'sort', 'reverse', 'clear', 'extend')
                and isinstance(c.func.value, ast.Name) and c.func.value.id in params - rebound and 'index' in c.func.value.id]
        rep.check('C02.W', f"{name}::the-traversal-it-is-given-is-left-as-it-is", not muts, where(lm, muts[0] if muts else f), {'mutations': [ast.unparse(x)[:40] for x in muts]},
                  f"{name}: `{ast.unparse(muts[0])[:40] if muts else ''}` changes the traversal list handed to the kernel, which is the tree model's own: the evaluation that does it is "
                  f"right, the next ones (after a parameter change, or of another likelihood on the same tree) walk a tree without its root")
    nk = 0
    for name, f in sorted(lm.functions.items()):
        if not name.startswith('calculate_treelikelihood'):
            continue
        try:
            k = extract(f)
        except Unsupported as u:
            rep.undecided('C02.W', name, where(lm, f), str(u))
            continue
        nk += 1
        r = k.ret
        ok = bool(r.get('weights_multiply_log')) and r.get('outer_axis') == -1 and (k.scaler is None or (r.get('scaler_term') is not None and bool(r.get('scaler_inside_weighted_sum'))))
        rep.check('C02.W', f"{name}::weights-multiply-the-whole-site-term", ok, where(lm, f), {'scaler_term': r.get('scaler_term'), 'added_after_weights': r.get('term_added_after_weights')},
                  f"{name}: a column that occurs w times must contribute w times its complete log-likelihood; here part of the per-site term "
                  f"({r.get('term_added_after_weights') or 'the log term'}) escapes the multiplication by the pattern weights, so compressing identical columns changes the result")
    if nk < 5:
        raise AnalysisError(f"only {nk} pruning kernels analysed")
