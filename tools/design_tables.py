"""Regenerate the generated tables of DESIGN.md §7 (rules as built; defects) from evidence/*.json and known_findings.json.
Run after all quick checks have been run: /venv/bin/python tools/design_tables.py"""
import json, os, re
HERE = os.path.dirname(os.path.dirname(os.path.abspath(__file__)))
PROPS = [f"C{i:02d}" for i in range(1, 21)]


def esc(s):
    return str(s).replace('|', '\\|').replace('\n', ' ')


rows, total, nrules = [], 0, 0
for p in PROPS:
    path = os.path.join(HERE, 'evidence', f'{p}.json')
    if not os.path.exists(path):
        continue
    cov = json.load(open(path))['coverage']
    pr = cov.get('per_rule', {})
    for r, txt in cov['rules'].items():
        c = pr.get(r, {})
        n = c.get('discharged', 0)
        k = c.get('known', c.get('violated', 0))
        x = c.get('excluded', 0)
        extra = (f" (+{k} known)" if k else '') + (f" (+{x} listed as excluded)" if x else '')
        rows.append(f"| {r} | {n}{extra} | {esc(txt)} |")
        nrules += 1
    total += cov['obligations']
rules_tbl = '| rule | instances discharged today | what is decided |\n|---|---|---|\n' + '\n'.join(rows)
kf = json.load(open(os.path.join(HERE, 'known_findings.json')))['findings']
fx = '| property | rule | commit | what failed | demonstration |\n|---|---|---|---|---|\n' + '\n'.join(f"| {f['property']} | {f['rule']} | `{f.get('commit', '')}` | {esc(f.get('what_failed') or f.get('what', ''))[:260]} | {f.get('demonstration', '')} |" for f in kf if f['status'] == 'fixed')
kn = '| property | rule | instance key | what fails and why it is not repaired here | demonstration |\n|---|---|---|---|---|\n' + '\n'.join(f"| {f['property']} | {f['rule']} | `{esc(f['key'])[:80]}` | {esc(f.get('what', ''))[:330]} | {f.get('demonstration', '')} |" for f in kf if f['status'] == 'known')
p = os.path.join(HERE, 'DESIGN.md')
s = open(p).read()


def put(tag, body, s):
    a, b = f"<!-- BEGIN {tag} -->", f"<!-- END {tag} -->"
    if a in s:
        return re.sub(re.escape(a) + r".*?" + re.escape(b), lambda m: a + '\n' + body + '\n' + b, s, flags=re.S)
    return s


s = put('RULES', rules_tbl, s)
s = put('FIXED', fx, s)
s = put('KNOWN', kn, s)
s = re.sub(r"### 7\.2 Rules as built \(\d+ rules, \d+ obligations decided on the current tree\)", f"### 7.2 Rules as built ({nrules} rules, {total} obligations decided on the current tree)", s)
open(p, 'w').write(s)
print(nrules, 'rules', total, 'obligations')
