from sa.selftest import Mut

DT = 'torchtree/evolution/datatype.py'
SP = 'torchtree/evolution/site_pattern.py'
TL = 'torchtree/evolution/tree_likelihood.py'

def T(id, file, old, new, expect=None, benign=False):
    return Mut(id, file, '', old, new, expect=expect, benign=benign, mode='text')

CORPUS = [
    T('c02-literal-misses-U', DT, "string not in 'ACGTUacgtu'", "string not in 'ACGTacgt'", expect=[('C02.M', 'NucleotideDataType::definite-symbol-literal'), ('C02.M', 'NucleotideDataType::all-128-symbols-agree')]),
    T('c02-literal-has-N', DT, "string not in 'ACGTUacgtu'", "string not in 'ACGTUNacgtun'", expect=[('C02.M', 'NucleotideDataType::definite-symbol-literal')]),
    T('c02-missing-not-ones', DT, "            return (1.0,) * 4", "            return (0.25,) * 4", expect=[('C02.M', 'NucleotideDataType::missing-is-all-ones')]),
    T('c02-aa-literal', DT, "'ACDEFGHIKLMNPQRSTVWYacdefghiklmnpqrstvwy'", "'ACDEFGHIKLMNPQRSTVWYBacdefghiklmnpqrstvwyb'", expect=[('C02.M', 'AminoAcidDataType::definite-symbol-literal')]),
    T('c02-no-clamp', SP, "                max=alignment.data_type.state_count,", "                max=alignment.data_type.state_count + 1,", expect=[('C02.M', 'compress_alignment_states')]),
    T('c02-two-columns', TL, "            torch.ones(mats[..., :tip_count, :, :, :].shape[:-1] + (1,)),\n        ),\n        -1,\n    )\n\n    for node, left, right in post_indexing:",
      "            torch.ones(mats[..., :tip_count, :, :, :].shape[:-1] + (2,)),\n        ),\n        -1,\n    )\n\n    for node, left, right in post_indexing:",
      expect=[('C02.M', 'calculate_treelikelihood_tip_states_discrete::unknown-state-column')]),
    T('c02-zeros-column', TL, "            torch.ones(mats[..., :tip_count, :, :, :].shape[:-1] + (1,)),\n        ),\n        -1,\n    )\n\n    scalers = []",
      "            torch.zeros(mats[..., :tip_count, :, :, :].shape[:-1] + (1,)),\n        ),\n        -1,\n    )\n\n    scalers = []",
      expect=[('C02.M', 'calculate_treelikelihood_tip_states_discrete_rescaled::unknown-state-column')]),
    T('c02-definite-by-upper-in-states', DT, "string not in 'ACGTUacgtu'", "string.upper() not in self.states", expect=[('C02.M', 'NucleotideDataType::definite-symbol-literal')]),
    T('c02-gather-row-transposed', TL, "            p_left = mat_tips[..., left, :, :, partials[left]]\n        else:\n            p_left = mats[..., left, :, :, :] @ partials[left]\n\n        if right < tip_count:\n            p_right = mat_tips[..., right, :, :, partials[right]]\n        else:\n            p_right = mats[..., right, :, :, :] @ partials[right]\n\n        partials[node] = p_left * p_right\n",
      "            p_left = mat_tips[..., left, :, partials[left], :].transpose(-1, -2)\n        else:\n            p_left = mats[..., left, :, :, :] @ partials[left]\n\n        if right < tip_count:\n            p_right = mat_tips[..., right, :, :, partials[right]]\n        else:\n            p_right = mats[..., right, :, :, :] @ partials[right]\n\n        partials[node] = p_left * p_right\n",
      expect=[('C02.M', 'calculate_treelikelihood_tip_states_discrete::unknown-state-column')]),
    T('c02-benign-definite-by-encoding', DT, "string not in 'ACGTUacgtu'", "self.encoding(string) >= 4", benign=True),
    T('c02-benign-literal-order', DT, "string not in 'ACGTUacgtu'", "string not in 'acgtuACGTU'", benign=True),
]
