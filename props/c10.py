"""C10 — a sample dimension never mixes samples.

Decided clause (C10.D) only: in the evaluation methods of densities, models, transforms and derived parameters, and in the
likelihood kernels, no *whole-tensor* reduction (sum / mean / prod / max / min / logsumexp / unique … without an axis) is
applied to a value that can carry a sample dimension (a value derived from a method argument or from an attribute of the
object).  Such a reduction folds all samples into one number, so for batched input the value reported for sample s depends
on the other samples — a violation of the property for every batched evaluation that reaches it.  This is a necessary
condition of C10, not C10: which broadcasts are right when only some parameters are batched, the S == K coincidences and the
shape-dependent reduction of the joint density quantify over run-time shapes and are not decided.

Whole-tensor reductions that exist today were read one by one; the ones that are right are frozen in TABLE with their reason
(boolean reductions used only to choose a code path are recognised structurally).
"""
from __future__ import annotations

import ast
from typing import Dict, List, Optional

from sa.loader import AnalysisError, dotted_name, norm_text
from sa.report import where
from sa.util import backward_slice, local_assignments

REDUCTIONS = {'sum', 'mean', 'prod', 'max', 'min', 'amax', 'amin', 'logsumexp', 'median', 'norm', 'unique', 'nansum', 'nanmean', 'std', 'var', 'argmax', 'argmin'}
BOOLEAN = {'any', 'all'}
SKIP_METHODS = {'from_json', 'json_factory', '__init__', '__repr__', '__str__', '__eq__', 'maximum_likelihood', 'to', 'cuda', 'cpu', 'state_dict', 'load_state_dict',
                'update_bounds', 'sort_indices', 'update_traversals', 'update_leaf_heights', 'setup_indexes', 'initialize', 'log', 'close', 'parameters'}
SCOPE_PACKAGES = ('torchtree.distributions.', 'torchtree.evolution.coalescent', 'torchtree.evolution.bdsk', 'torchtree.evolution.birth_death', 'torchtree.evolution.tree_likelihood',
                  'torchtree.evolution.site_model', 'torchtree.evolution.branch_model', 'torchtree.evolution.substitution_model.', 'torchtree.evolution.tree_model',
                  'torchtree.evolution.tree_height_transform', 'torchtree.evolution.rate_transform', 'torchtree.evolution.poisson_tree_likelihood', 'torchtree.core.parameter',
                  'torchtree.core.container', 'torchtree.core.model', 'torchtree.nn.', 'torchtree.ops.', 'torchtree.distributions')

# whole-tensor reductions confirmed by reading: (qualified function, normalised text of the call) -> reason
TABLE = {
    ('torchtree.distributions.joint_distribution.JointDistributionModel.entropy', 'torch.cat(entropies, 0).sum()'):
        "entropy of the variational family: a number per family, its parameters are never sampled; not the model call the property is about",
}


def method_name(call: ast.Call) -> str:
    return (dotted_name(call.func) or (call.func.attr if isinstance(call.func, ast.Attribute) else '')).split('.')[-1]


def reduction_without_axis(c: ast.Call) -> Optional[ast.AST]:
    """operand of a whole-tensor reduction, None if the call names an axis or is not a tensor reduction"""
    if not isinstance(c.func, ast.Attribute):
        return None
    name = c.func.attr
    if name not in REDUCTIONS and name not in BOOLEAN:
        return None
    base = c.func.value
    torch_fn = isinstance(base, ast.Name) and base.id == 'torch'
    if isinstance(base, ast.Name) and base.id in ('math', 'np', 'numpy', 'itertools', 'functools', 'builtins', 'random', 'operator', 'collections'):
        return None
    args = c.args[1:] if torch_fn else c.args
    if torch_fn and not c.args:
        return None
    if any(k.arg in ('dim', 'axis') for k in c.keywords):
        return None
    if args:
        # torch.max(a, b) element-wise; x.max(other) element-wise; everything else positional is the axis
        if name in ('max', 'min') and len(args) == 1 and not isinstance(args[0], (ast.Constant, ast.UnaryOp)):
            return None
        return None
    return c.args[0] if torch_fn else base


def may_be_batched(e: ast.AST, fn: ast.FunctionDef, defs) -> bool:
    """the value is derived from a method argument or an attribute of the object (not only from shapes, constants or fresh index ranges)"""
    params = {a.arg for a in fn.args.args + fn.args.kwonlyargs} - {'self', 'cls'}
    # one row picked out of a flattened tensor (`x.flatten()[:k]`, `x.reshape(-1)[:k]`) has no sample dimension left
    if isinstance(e, ast.Subscript) and isinstance(e.value, ast.Call) and isinstance(e.value.func, ast.Attribute) and (
            (e.value.func.attr in ('flatten', 'ravel') and not e.value.args) or (e.value.func.attr in ('reshape', 'view') and len(e.value.args) == 1 and ast.unparse(e.value.args[0]) == '-1')):
        return False
    exprs = list(backward_slice(e, defs))
    # lists filled by append / extend
    names = {n.id for x in exprs for n in ast.walk(x) if isinstance(n, ast.Name)}
    for c in ast.walk(fn):
        if isinstance(c, ast.Call) and isinstance(c.func, ast.Attribute) and c.func.attr in ('append', 'extend', 'insert') and isinstance(c.func.value, ast.Name) \
                and c.func.value.id in names and c.args:
            exprs += backward_slice(c.args[-1], defs)
    for x in exprs:
        for n in ast.walk(x):
            if isinstance(n, ast.Name) and n.id in params:
                par = getattr(n, '_parent', None)
                if isinstance(par, ast.Attribute) and par.attr in ('shape', 'dtype', 'device', 'ndim'):
                    continue
                return True
            if isinstance(n, ast.Attribute) and isinstance(n.value, ast.Name) and n.value.id == 'self':
                par = getattr(n, '_parent', None)
                if isinstance(par, ast.Attribute) and par.attr in ('shape', 'dtype', 'device', 'ndim'):
                    continue
                if n.attr in ('taxa_count', 'state_count', '_categories', 'dim', 'k'):
                    continue
                return True
    return False


def used_only_as_branch_condition(c: ast.Call) -> bool:
    p, child = getattr(c, '_parent', None), c
    while isinstance(p, (ast.BoolOp, ast.UnaryOp, ast.Compare)):
        child, p = p, getattr(p, '_parent', None)
    if isinstance(p, (ast.If, ast.While, ast.IfExp, ast.Assert)) and p.test is child:
        return True
    # x = torch.any(…); if x: …
    if isinstance(p, ast.Assign) and len(p.targets) == 1 and isinstance(p.targets[0], ast.Name):
        name = p.targets[0].id
        fn = p
        while fn is not None and not isinstance(fn, ast.FunctionDef):
            fn = getattr(fn, '_parent', None)
        if fn is not None:
            uses = [n for n in ast.walk(fn) if isinstance(n, ast.Name) and n.id == name and isinstance(n.ctx, ast.Load)]
            return bool(uses) and all(used_only_as_branch_condition_name(u) for u in uses)
    return False


def used_only_as_branch_condition_name(u: ast.Name) -> bool:
    p, child = getattr(u, '_parent', None), u
    while isinstance(p, (ast.BoolOp, ast.UnaryOp, ast.Compare)):
        child, p = p, getattr(p, '_parent', None)
    return isinstance(p, (ast.If, ast.While, ast.IfExp, ast.Assert)) and p.test is child


POSITIVE = """
class D:
    def log_prob(self, x):
        a = torch.sum(x * self.theta)
        b = x.max()
        c = torch.logsumexp(x, -1)
        d = torch.max(x, self.theta)
        e = torch.arange(x.shape[-1]).sum()
        return a + b + c.sum(-1) + d.sum(dim=-1) + e
"""


def self_check():
    """the classifier must flag exactly the two whole-tensor reductions of the embedded example on every run"""
    t = ast.parse(POSITIVE)
    for n in ast.walk(t):
        for ch in ast.iter_child_nodes(n):
            ch._parent = n
    fn = t.body[0].body[0]
    defs = local_assignments(fn)
    flagged = []
    for c in ast.walk(fn):
        if isinstance(c, ast.Call):
            op = reduction_without_axis(c)
            if op is not None and may_be_batched(op, fn, defs):
                flagged.append(ast.unparse(c))
    if sorted(flagged) != ['torch.sum(x * self.theta)', 'x.max()']:
        raise AnalysisError(f"C10.D self-check failed: flagged {flagged}")


def run(ctx, rep):
    rep.explanation = (
        "Every call of a tensor reduction in the evaluation methods of the density / model / transform / parameter classes and in the likelihood kernels is "
        "classified: names an axis (fine), element-wise two-argument max/min (fine), operand provably free of sample dimensions (shape-derived, constants, index "
        "ranges: fine), boolean reduction used only as a branch condition (chooses a code path, no value is mixed: listed), frozen table entry (reason printed), or "
        "a whole-tensor reduction of a value derived from an argument or attribute — a violation: for batched input it folds all samples into one number."
    )
    rep.rule('C10.D', "no whole-tensor reduction (no axis named) of a value that can carry a sample dimension in densities, models, transforms, derived parameters and kernels")
    rep.not_decided += ["which broadcasts are right when only some parameters are batched", "S == K coincidences", "shape-dependent reduction of the joint density",
                        "that unsupported shape combinations raise", "reductions along a wrong but named axis (see C01, C05, C06, C08, C20 for the instances decided there)"]
    self_check()
    n_fn = n_red = 0
    used_table = set()
    for mname, m in sorted(ctx.prog.modules.items()):
        if not any(mname.startswith(p) or mname == p.rstrip('.') for p in SCOPE_PACKAGES):
            continue
        fns = []
        for cname, cnode in m.classes.items():
            for st in cnode.body:
                if isinstance(st, ast.FunctionDef) and st.name not in SKIP_METHODS:
                    fns.append((f"{mname}.{cname}.{st.name}", st))
        for fname, f in m.functions.items():
            if fname not in SKIP_METHODS:
                fns.append((f"{mname}.{fname}", f))
        for qual, fn in fns:
            n_fn += 1
            defs = local_assignments(fn)
            for c in ast.walk(fn):
                if not isinstance(c, ast.Call):
                    continue
                # nested defs are visited on their own
                operand = reduction_without_axis(c)
                if operand is None:
                    continue
                name = c.func.attr
                n_red += 1
                txt = norm_text(c)
                key = f"{qual.replace('torchtree.', '')}::{txt[:70]}"
                W = where(m, c)
                if not may_be_batched(operand, fn, defs):
                    rep.ok('C10.D', key, W, {'class': 'operand free of sample dimensions (shapes / constants / index ranges)'})
                    continue
                if name in BOOLEAN and used_only_as_branch_condition(c):
                    rep.excluded('C10.D', key, W, 'boolean reduction used only to choose a code path: no value of one sample flows into another')
                    continue
                if (qual, txt) in TABLE:
                    used_table.add((qual, txt))
                    rep.ok('C10.D', key, W, {'class': 'confirmed by reading', 'reason': TABLE[(qual, txt)]})
                    continue
                rep.bad('C10.D', key, W, {'operand': norm_text(operand)[:100]},
                        f"{qual.split('.')[-2]}.{qual.split('.')[-1]}: `{txt[:80]}` reduces over every axis of a value derived from the method's inputs; evaluated with parameters "
                        f"that carry a sample dimension it folds all samples into one number, so the value for sample s depends on the other samples")
    rep.analysed.update({'functions_scanned': n_fn, 'reductions_without_axis': n_red, 'table_entries_used': len(used_table), 'table_entries': len(TABLE)})
    if n_fn < 300:
        raise AnalysisError(f"only {n_fn} evaluation methods scanned")
    stale = set(TABLE) - used_table
    for qual, txt in sorted(stale):
        rep.undecided('C10.D', f"table::{qual}::{txt[:40]}", '', 'frozen table entry no longer matches any construct (the table must be re-confirmed)')
