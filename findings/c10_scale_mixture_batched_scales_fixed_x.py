"""C10.C — ScaleMixtureNormal._call is an element-wise combination of x, the global scale, the local scales (and the slab); its _sample_shape looked at x only.
With the scales carrying the sample dimension and x fixed (a horseshoe prior evaluated for draws of its scales), the model returns [S, n] but reports sample_shape [],
and JointDistributionModel adds the densities of ALL samples into one number.

Run: PYTHONPATH=/repo /venv/bin/python findings/c10_scale_mixture_batched_scales_fixed_x.py   (exit 1 = defect present)"""
import sys
import torch
from torch.distributions import Normal
from torchtree import Parameter
from torchtree.distributions.scale_mixture import ScaleMixtureNormal
from torchtree.distributions.joint_distribution import JointDistributionModel

torch.manual_seed(1)
S, n = 4, 3
x = Parameter('x', torch.tensor([0.3, -1.0, 2.0]))
tau = Parameter('tau', torch.rand(S, 1) + 0.5)
lam = Parameter('lam', torch.rand(S, n) + 0.5)
prior = ScaleMixtureNormal('p', x, 0.0, tau, lam)
joint = JointDistributionModel('j', [prior])
got = joint()
expected = Normal(0.0, tau.tensor * lam.tensor).log_prob(x.tensor).sum(-1)
print('sample_shape reported by the prior:', tuple(prior.sample_shape), ' joint value shape:', tuple(got.shape))
print('joint   :', got.flatten().tolist())
print('expected:', expected.flatten().tolist())
if got.numel() != S or not torch.allclose(got.flatten(), expected):
    print('DEFECT: the joint density does not have one value per sample of the scales')
    sys.exit(1)
print('OK')
