"""C08.O — PiecewiseExponentialCoalescentGrid.log_prob looks the piece of every coalescent event up in SORTED order (indices_internals comes from the sorted mask) but
subtracts the piece's start from the internal heights in the order they were PASSED.  The density of a tree must not depend on the order in which its internal
heights are listed ("all valid coalescent time vectors in any permutation"); here it does as soon as the growth rates differ between pieces.
(The class also has the known integral defect C08.I; this demonstration compares the class with itself, so that defect cancels.)

Run: PYTHONPATH=/repo /venv/bin/python findings/c08_piecewise_exponential_internal_heights_in_input_order.py   (exit 1 = defect present)"""
import sys
import torch
from torchtree.evolution.coalescent import PiecewiseExponentialCoalescentGrid

torch.set_default_dtype(torch.float64)
theta = torch.tensor([3.0])
growth = torch.tensor([0.5, -0.3, 1.2, 0.1])
grid = torch.tensor([1.0, 2.5, 6.0])
tips = torch.tensor([0.0, 0.0, 0.5, 1.5, 0.0])
internal_sorted = torch.tensor([0.8, 2.0, 3.1, 7.5])
d = PiecewiseExponentialCoalescentGrid(theta, growth, grid)
ref = d.log_prob(torch.cat((tips, internal_sorted)))
worst = 0.0
for perm in ([3, 2, 1, 0], [1, 0, 3, 2], [2, 3, 0, 1]):
    lp = d.log_prob(torch.cat((tips, internal_sorted[perm])))
    print('internal heights', internal_sorted[perm].tolist(), '->', float(lp), ' (sorted:', float(ref), ')')
    worst = max(worst, abs(float(lp) - float(ref)))
if worst > 1e-9:
    print(f"DEFECT: the density changes by up to {worst:.4f} when the same internal heights are listed in another order")
    sys.exit(1)
print('OK')
