"""C19 — every configuration the CLI emits is runnable and targets the right density."""
from __future__ import annotations

import ast
import copy
import re
from typing import Dict, List, Optional, Set, Tuple

from sa.jsonkeys import ReaderInfo, reader_info
from sa.loader import AnalysisError, Unsupported, dotted_name, norm_text
from sa.report import where

CLI = 'torchtree.cli'


def cli_modules(ctx):
    return [m for name, m in sorted(ctx.prog.modules.items()) if name.startswith(CLI + '.') or name == CLI]


def functions_of(m):
    out = []
    for n in ast.walk(m.tree):
        if isinstance(n, (ast.FunctionDef, ast.AsyncFunctionDef)):
            out.append(n)
    return out


def enclosing_function(n):
    p = getattr(n, '_parent', None)
    while p is not None and not isinstance(p, (ast.FunctionDef, ast.AsyncFunctionDef)):
        p = getattr(p, '_parent', None)
    return p


# ---------------------------------------------------------------------------
# reader table
# ---------------------------------------------------------------------------
class Readers:
    def __init__(self, ctx):
        self.ctx = ctx
        self.registered = ctx.classes.registered()
        self.cache: Dict[str, Optional[ReaderInfo]] = {}

    def resolve_type(self, t: str):
        """class for a 'type' string: registered short name or dotted path inside the package"""
        if t in self.registered:
            return self.registered[t]
        if t.startswith(self.ctx.prog.package + '.'):
            r = self.ctx.prog.resolve(t)
            if r and r[0] == 'class':
                return self.ctx.classes.classes.get(f"{r[1].name}.{r[2].name}")
            # torchtree.Parameter style re-exports
            short = t.split('.')[-1]
            if short in self.registered:
                r2 = self.ctx.prog.resolve(t)
                return self.registered[short] if r2 is not None or t.count('.') == 1 else None
        return None

    def info(self, t: str) -> Optional[ReaderInfo]:
        if t in self.cache:
            return self.cache[t]
        ci = self.resolve_type(t)
        res = None
        if ci is not None:
            r = ci.resolve('from_json')
            if r is not None:
                try:
                    res = reader_info(self.ctx, ci, r[1], r[0].module)
                except Unsupported:
                    res = None
        self.cache[t] = res
        return res


# ---------------------------------------------------------------------------
# liveness: is a typed literal ever handed to its reader?
# ---------------------------------------------------------------------------
class Liveness:
    def __init__(self, ctx, readers):
        self.ctx, self.readers = ctx, readers
        self.calls = {}   # function name -> call nodes in the CLI
        for m in cli_modules(ctx):
            for c in ast.walk(m.tree):
                if isinstance(c, ast.Call):
                    n = c.func.id if isinstance(c.func, ast.Name) else (c.func.attr if isinstance(c.func, ast.Attribute) else None)
                    if n:
                        self.calls.setdefault(n, []).append(c)
        self.memo = {}

    def _reads(self, t: str, key: str) -> Optional[bool]:
        info = self.readers.info(t)
        if info is None or info.open:
            return None
        return key in info.mandatory or key in info.may or key in info.ref_keys

    def slot_dead(self, node, depth=0) -> Optional[str]:
        """reason if the value at `node` sits in a slot no reader looks at"""
        if depth > 6:
            return None
        p = getattr(node, '_parent', None)
        child = node
        while p is not None and isinstance(p, (ast.List, ast.Tuple, ast.BinOp, ast.IfExp, ast.Starred)):
            child, p = p, getattr(p, '_parent', None)
        if isinstance(p, ast.Dict):
            key = None
            for k, v in zip(p.keys, p.values):
                if v is child:
                    key = k.value if isinstance(k, ast.Constant) else None
            t = literal_type(p)
            if t is not None and key is not None and self._reads(t, key) is False:
                return f"key '{key}' of the enclosing {t} object is never read by {t}.from_json"
            return self.slot_dead(p, depth + 1)
        fn = enclosing_function(node)
        if isinstance(p, ast.Assign) and len(p.targets) == 1:
            tg = p.targets[0]
            if isinstance(tg, ast.Subscript) and isinstance(tg.value, ast.Name) and isinstance(tg.slice, ast.Constant) and fn is not None:
                # X['k'] = <node>: type of X from its literal in the same function
                for d in ast.walk(fn):
                    if isinstance(d, ast.Assign) and isinstance(d.value, ast.Dict) and any(isinstance(x, ast.Name) and x.id == tg.value.id for x in d.targets):
                        t = literal_type(d.value)
                        if t is not None and self._reads(t, tg.slice.value) is False:
                            return f"key '{tg.slice.value}' of the {t} object `{tg.value.id}` is never read by {t}.from_json"
                return None
            if isinstance(tg, ast.Name) and fn is not None:
                # variable: dead only if every use is a return and every call site of the function is dead
                uses = [n for n in ast.walk(fn) if isinstance(n, ast.Name) and n.id == tg.id and isinstance(n.ctx, ast.Load)]
                if uses and all(isinstance(getattr(u, '_parent', None), ast.Return) for u in uses):
                    return self.calls_dead(fn, depth)
                return None
        if isinstance(p, ast.Return) and fn is not None:
            return self.calls_dead(fn, depth)
        return None

    def calls_dead(self, fn, depth) -> Optional[str]:
        sites = self.calls.get(fn.name, [])
        if not sites:
            return None
        reasons = [self.slot_dead(c, depth + 1) for c in sites]
        if all(reasons):
            return f"returned by {fn.name}(), whose only use: {reasons[0]}"
        return None


def literal_type(d: ast.Dict) -> Optional[str]:
    for k, v in zip(d.keys, d.values):
        if isinstance(k, ast.Constant) and k.value == 'type' and isinstance(v, ast.Constant) and isinstance(v.value, str):
            return v.value
    return None


def literal_keys(d: ast.Dict) -> Tuple[Set[str], bool]:
    keys = set()
    open_ = False
    for k in d.keys:
        if k is None:
            open_ = True
        elif isinstance(k, ast.Constant) and isinstance(k.value, str):
            keys.add(k.value)
        elif isinstance(k, ast.Attribute) and k.attr == 'tag':
            keys.add('<tag:' + ast.unparse(k) + '>')
        elif isinstance(k, ast.Attribute) and k.attr == 'value':
            keys.add('<constraint>')
        else:
            open_ = True
    return keys, open_


def later_stores(fn, var: str, ctx, module) -> Tuple[Set[str], bool]:
    """constant keys stored into `var[...] = …` anywhere in fn; open if a computed key / update() is used"""
    keys = set()
    open_ = False
    for st in ast.walk(fn):
        if isinstance(st, ast.Assign):
            for t in st.targets:
                if isinstance(t, ast.Subscript) and isinstance(t.value, ast.Name) and t.value.id == var:
                    if isinstance(t.slice, ast.Constant) and isinstance(t.slice.value, str):
                        keys.add(t.slice.value)
                    elif isinstance(t.slice, ast.Attribute) and t.slice.attr == 'tag':
                        keys.add('<tag:' + ast.unparse(t.slice) + '>')
                    elif isinstance(t.slice, ast.Attribute) and t.slice.attr == 'value':
                        pass
                    else:
                        open_ = True
        if isinstance(st, ast.Call) and isinstance(st.func, ast.Attribute) and st.func.attr == 'update' and isinstance(st.func.value, ast.Name) and st.func.value.id == var:
            open_ = True
    return keys, open_


def typed_literals(ctx):
    """(module, function, dict node, type string, variable name or None)"""
    out = []
    for m in cli_modules(ctx):
        for d in ast.walk(m.tree):
            if isinstance(d, ast.Dict):
                t = literal_type(d)
                if t is None:
                    continue
                fn = enclosing_function(d)
                var = None
                p = getattr(d, '_parent', None)
                if isinstance(p, ast.Assign) and len(p.targets) == 1 and isinstance(p.targets[0], ast.Name):
                    var = p.targets[0].id
                out.append((m, fn, d, t, var))
    return out


def check_types_and_keys(ctx, rep):
    readers = Readers(ctx)
    lits = typed_literals(ctx)
    if len(lits) < 60:
        raise AnalysisError(f"only {len(lits)} typed dict literals found in the CLI")
    rep.analysed['typed_literals'] = len(lits)
    live = Liveness(ctx, readers)
    from sa.jsonkeys import const_key
    for m, fn, d, t, var in lits:
        fname = fn.name if fn is not None else '<module>'
        idv = next((v for k, v in zip(d.keys, d.values) if isinstance(k, ast.Constant) and k.value == 'id'), None)
        idt = ast.unparse(idv)[:40] if idv is not None else '?'
        key = f"{m.name.split('.')[-1]}.{fname}::{t}::{idt}"
        W = where(m, d)
        dead = live.slot_dead(d)
        if dead:
            rep.excluded('C19.T', key, W, f"dead configuration, never handed to a reader: {dead}")
            continue
        ci = readers.resolve_type(t)
        external = not t.startswith(ctx.prog.package) and '.' in t
        rep.check('C19.T', key, ci is not None or external, W, {'type': t},
                  f"the CLI emits an object of type '{t}', which is neither a registered class nor a resolvable dotted path in the package: torchtree rejects the file")
        if ci is None:
            continue
        info = readers.info(t)
        if info is None:
            rep.undecided('C19.K', key, W, 'reader of this type could not be analysed')
            continue
        keys, open_ = literal_keys(d)
        if var is not None and fn is not None:
            k2, o2 = later_stores(fn, var, ctx, m)
            keys |= k2
            open_ = open_ or o2
        # resolve tag keys
        resolved = set()
        for k in keys:
            if k.startswith('<tag:'):
                e = ast.parse(k[5:-1], mode='eval').body
                v = const_key(ctx, m, e)
                resolved.add(v if v else k)
            else:
                resolved.add(k)
        missing = sorted(info.mandatory - resolved)
        facts = {'type': t, 'written': sorted(resolved), 'reader_mandatory': sorted(info.mandatory)}
        if missing and open_:
            rep.undecided('C19.K', key, W, f"literal is extended dynamically; cannot confirm {missing}", facts)
        else:
            rep.check('C19.K', key, not missing, W, facts,
                      f"{ci.name}.from_json dereferences {missing} on every path but the object the CLI emits in {fname}() never gets "
                      f"{'them' if len(missing) > 1 else 'it'}: torchtree stops with a parse error")
        # nested 'transform' / 'distribution' strings
        for k, v in zip(d.keys, d.values):
            if isinstance(k, ast.Constant) and k.value in ('transform', 'distribution') and isinstance(v, ast.Constant) and isinstance(v.value, str):
                s = v.value
                ok = s in readers.registered or (not s.startswith(ctx.prog.package) and '.' in s) or readers.resolve_type(s) is not None \
                    or (s.startswith(ctx.prog.package) and ctx.prog.resolve(s) is not None)
                rep.check('C19.T', f"{key}::{k.value}={s}", ok, W, None, f"'{s}' (a {k.value}) is not a registered class nor a resolvable path")


# ---------------------------------------------------------------------------
# Jacobians
# ---------------------------------------------------------------------------
def normalized_block(stmts) -> List[str]:
    out = []
    for st in stmts:
        txt = ast.unparse(st)
        out.append(re.sub(r'''["']''', "'", txt))
    return out


def jacobian_block(fn: ast.FunctionDef):
    """statements from `jacobians_list = create_jacobians(...)` to `json_list.append(joint_jacobian)` inclusive"""
    start = end = None
    for i, st in enumerate(fn.body):
        if isinstance(st, ast.Assign) and isinstance(st.value, ast.Call) and (dotted_name(st.value.func) or '').endswith('create_jacobians'):
            start = i
        if start is not None and isinstance(st, ast.Assign) and isinstance(st.value, ast.Dict) and any(
                isinstance(v, ast.Constant) and v.value == 'joint.jacobian' for v in st.value.values):
            end = i
    if start is None or end is None:
        return None
    return fn.body[start:end + 1]


def check_jacobians(ctx, rep):
    builders = {}
    for modname, fname in ((f"{CLI}.advi", 'build_advi'), (f"{CLI}.hmc", 'build_hmc'), (f"{CLI}.mcmc", 'build_mcmc')):
        m = ctx.prog.module(modname)
        fn = m.functions.get(fname)
        if fn is None:
            raise AnalysisError(f"{modname}.{fname} not found")
        builders[fname] = (m, fn, jacobian_block(fn))
    blocks = {}
    for fname, (m, fn, blk) in builders.items():
        W = where(m, fn)
        if blk is None:
            rep.bad('C19.J', f"{fname}::jacobian-block", W, None, f"{fname} does not build joint.jacobian from create_jacobians(json_list)")
            continue
        norm = normalized_block(blk)
        blocks[fname] = norm
        src = '\n'.join(norm)
        facts = {'block': norm}
        # create_jacobians is applied to the whole specification list, after the constraints were turned into transforms
        first = blk[0]
        arg0 = first.value.args[0] if first.value.args else None
        made = [i for i, st in enumerate(fn.body) if any(isinstance(c, ast.Call) and (dotted_name(c.func) or '').split('.')[-1] in ('make_unconstrained', 'create_variational_model')
                                                             for c in ast.walk(st))]
        after_unconstrain = bool(made) and min(made) < fn.body.index(first)
        rep.check('C19.J', f"{fname}::collected-after-constraints-became-transforms", isinstance(arg0, ast.Name) and after_unconstrain, W, facts,
                  f"{fname}: create_jacobians must scan the whole specification after make_unconstrained / the variational model turned constrained parameters into "
                  f"TransformedParameters; otherwise their log-Jacobians are missing from the target")
        has_tree = bool(re.search(r"if arg\.clock is not None and arg\.heights == 'ratio':\s*\n\s*jacobians_list\.append\('tree'\)", src))
        rep.check('C19.J', f"{fname}::ratio-height-jacobian", has_tree, W, facts,
                  f"{fname}: with a clock and ratio heights the tree model's node-height log-Jacobian ('tree') must be added exactly under that condition")
        rem = bool(re.search(r"if arg\.coalescent in COALESCENT_PIECEWISE:\s*\n\s*jacobians_list\.remove\('coalescent\.theta'\)", src))
        rep.check('C19.J', f"{fname}::no-jacobian-for-gmrf-on-log-scale", rem, W, facts,
                  f"{fname}: for piecewise coalescents the smoothing prior is placed on log θ, so coalescent.theta's Jacobian must be removed (and only then)")
        jj = blk[-1].value if isinstance(blk[-1], ast.Assign) else None
        ok = False
        if isinstance(jj, ast.Dict):
            dd = {k.value: v for k, v in zip(jj.keys, jj.values) if isinstance(k, ast.Constant)}
            ok = isinstance(dd.get('type'), ast.Constant) and dd['type'].value == 'JointDistributionModel' and \
                ast.unparse(dd.get('distributions')).replace('"', "'") == "['joint'] + jacobians_list"
        rep.check('C19.J', f"{fname}::joint-plus-each-jacobian-once", ok, W, facts,
                  f"{fname}: joint.jacobian must be the JointDistributionModel of ['joint'] + jacobians_list (constrained joint density plus each log-Jacobian once)")
        # the sampler / optimiser over unconstrained parameters is handed joint.jacobian
        hands = [c for c in ast.walk(fn) if isinstance(c, ast.Call) and isinstance(c.func, ast.Name) and c.func.id in ('create_advi', 'create_hmc', 'create_mcmc')]
        ok = bool(hands) and all(c.args and isinstance(c.args[0], ast.Constant) and c.args[0].value == 'joint.jacobian' for c in hands)
        rep.check('C19.J', f"{fname}::target-is-joint.jacobian", ok, W, {'calls': [norm_text(c)[:80] for c in hands]},
                  f"{fname}: the algorithm working on unconstrained parameters must target 'joint.jacobian', not the constrained joint")
    vals = {tuple(v) for v in blocks.values()}
    any_builder = list(builders.values())[0]
    rep.check('C19.J', 'builders::jacobian-blocks-identical', len(vals) == 1 and len(blocks) == 3, where(any_builder[0], any_builder[1]), {k: v for k, v in blocks.items()},
              "build_advi, build_hmc and build_mcmc assemble the Jacobian terms differently: one sub-command targets a different density than the others")
    # create_jacobians itself
    jm = ctx.prog.module(f"{CLI}.jacobians")
    cj = jm.functions.get('create_jacobians')
    if cj is None:
        raise AnalysisError('create_jacobians not found')
    W = where(jm, cj)
    src = ast.unparse(cj)
    rec_list = any(isinstance(n, ast.For) and any(isinstance(c, ast.Call) and isinstance(c.func, ast.Name) and c.func.id == 'create_jacobians' for c in ast.walk(n))
                   for n in ast.walk(cj))
    rec_values = 'dict_def.values()' in src and src.count('create_jacobians(') >= 3
    appends = [c for c in ast.walk(cj) if isinstance(c, ast.Call) and isinstance(c.func, ast.Attribute) and c.func.attr == 'append']
    once = len(appends) == 1 and ast.unparse(appends[0].args[0]).replace('"', "'") == "dict_def['id']"
    rep.check('C19.J', 'create_jacobians::visits-every-nested-object-once', rec_list and rec_values and once, W, None,
              "create_jacobians must recurse into every list element and every dict value and emit each TransformedParameter id exactly once")
    # only unit-scale affine transforms are skipped
    skip = [n for n in ast.walk(cj) if isinstance(n, ast.If) and isinstance(n.test, ast.UnaryOp) and isinstance(n.test.op, ast.Not)]
    ok = False
    if len(skip) == 1:
        t = ast.unparse(skip[0].test.operand).replace('"', "'")
        ok = "dict_def['transform'] == 'torch.distributions.AffineTransform'" in t and "dict_def['parameters']['scale'] == 1.0" in t and ' and ' in t
    rep.check('C19.J', 'create_jacobians::skips-only-unit-scale-affine', ok, W, None,
              "only AffineTransform with scale 1.0 (zero log-Jacobian) may be left out of the Jacobian list")
    typ = any(isinstance(n, ast.Compare) and ast.unparse(n).replace('"', "'") == "dict_def['type'] == 'TransformedParameter'" for n in ast.walk(cj))
    rep.check('C19.J', 'create_jacobians::matches-TransformedParameter', typ, W, None, "create_jacobians must select objects whose type is 'TransformedParameter'")


# ---------------------------------------------------------------------------
# make_unconstrained
# ---------------------------------------------------------------------------
TRANSFORM_FOR = {'unit-interval': 'SigmoidTransform', 'lower>0': 'AffineTransform', 'lower<=0': 'ExpTransform', 'simplex': 'StickBreakingTransform'}


def check_make_unconstrained(ctx, rep):
    um = ctx.prog.module(f"{CLI}.utils")
    fn = um.functions.get('make_unconstrained')
    if fn is None:
        raise AnalysisError('make_unconstrained not found')
    # collect branches that set json_object['transform']
    branches = []
    for n in ast.walk(fn):
        if isinstance(n, ast.Assign) and isinstance(n.targets[0], ast.Subscript) and isinstance(n.targets[0].slice, ast.Constant) and n.targets[0].slice.value == 'transform' \
                and isinstance(n.value, ast.Constant):
            # the innermost block containing this statement
            blk = n._parent
            body = blk.body if n in getattr(blk, 'body', []) else blk.orelse
            conds = []
            p, child = n._parent, n
            while p is not None and p is not fn:
                if isinstance(p, ast.If):
                    conds.append((ast.unparse(p.test).replace('"', "'"), child in p.body or any(child is x for b in p.body for x in ast.walk(b))))
                child, p = p, getattr(p, '_parent', None)
            branches.append((n, body, conds))
    if len(branches) != 4:
        raise Unsupported(fn, f"{len(branches)} transform-setting branches in make_unconstrained (expected 4)")
    seen = set()
    for n, body, conds in branches:
        tname = n.value.value.split('.')[-1]
        ctext = ' & '.join(('' if pos else 'not ') + c for c, pos in conds)
        # classify the constraint from the guarding conditions
        kind = None
        flat = ' '.join(c for c, _ in conds)
        inner = conds[0] if conds else ('', True)
        if 'SIMPLEX' in inner[0]:
            kind = 'simplex'
        elif "== 0" in inner[0] and "== 1" in inner[0] and inner[1]:
            kind = 'unit-interval'
        elif "LOWER.value] > 0" in inner[0]:
            kind = 'lower>0' if inner[1] else 'lower<=0'
        seen.add(kind)
        key = f"make_unconstrained::{kind or ctext[:40]}"
        W = where(um, n)
        rep.check('C19.U', key + '::transform-matches-constraint', kind is not None and TRANSFORM_FOR.get(kind) == tname, W, {'guard': ctext, 'transform': tname},
                  f"constraint branch `{ctext}` installs {tname}, whose codomain is not the constrained set ({TRANSFORM_FOR.get(kind)} expected)")
        # type switched, constrained tensor deleted, x initialised through the same transform's inverse
        sets_type = any(isinstance(st, ast.Assign) and isinstance(st.targets[0], ast.Subscript) and isinstance(st.targets[0].slice, ast.Constant)
                        and st.targets[0].slice.value == 'type' and isinstance(st.value, ast.Constant) and st.value.value == 'TransformedParameter' for st in body)
        dels = any(isinstance(st, ast.Delete) and any(isinstance(t, ast.Subscript) and isinstance(t.slice, ast.Constant) and t.slice.value == 'tensor' for t in st.targets)
                   for b in body for st in ast.walk(b))
        tdef = [st for st in body if isinstance(st, ast.Assign) and isinstance(st.targets[0], ast.Name) and st.targets[0].id == 'transform']
        same_transform = bool(tdef) and isinstance(tdef[0].value, ast.Call) and (dotted_name(tdef[0].value.func) or '').split('.')[-1] == tname
        inv_calls = [c for b in body for c in ast.walk(b) if isinstance(c, ast.Call) and isinstance(c.func, ast.Attribute) and c.func.attr == 'inv'
                     and isinstance(c.func.value, ast.Name) and c.func.value.id == 'transform']
        inits_from_requested = bool(inv_calls) and all(any(isinstance(x, ast.Subscript) and isinstance(x.slice, ast.Constant) and x.slice.value == 'tensor' for x in ast.walk(c))
                                                        for c in inv_calls)
        rep.check('C19.U', key + '::initial-value-through-the-same-inverse', sets_type and dels and same_transform and inits_from_requested, W,
                  {'switches_type': sets_type, 'deletes_constrained_tensor': dels, 'inverse_of_same_transform': same_transform, 'initialised_from_requested_value': inits_from_requested},
                  f"branch for {kind}: the unconstrained parameter must be initialised with {tname}().inv(requested constrained value) and the constrained 'tensor' removed, so "
                  f"that the initial constrained value equals the one requested")
        if kind == 'lower>0':
            # affine shift by the lower bound with scale 1, then the shifted parameter is itself made positive
            par = [st for st in body if isinstance(st, ast.Assign) and isinstance(st.targets[0], ast.Subscript) and isinstance(st.targets[0].slice, ast.Constant)
                   and st.targets[0].slice.value == 'parameters' and isinstance(st.value, ast.Dict)]
            ok = False
            if par:
                dd = {k.value: v for k, v in zip(par[0].value.keys, par[0].value.values) if isinstance(k, ast.Constant)}
                ok = 'LOWER' in ast.unparse(dd.get('loc', ast.Constant(value=0))) and isinstance(dd.get('scale'), ast.Constant) and dd['scale'].value == 1.0
            rec = any(isinstance(c, ast.Call) and isinstance(c.func, ast.Name) and c.func.id == 'make_unconstrained' for b in body for c in ast.walk(b))
            lower0 = any(isinstance(d, ast.Dict) and any(isinstance(v, ast.Constant) and v.value == 0.0 and isinstance(k, ast.Attribute) for k, v in zip(d.keys, d.values))
                         for b in body for d in ast.walk(b))
            rep.check('C19.U', key + '::shift-then-positive', ok and rec and lower0, W, None,
                      "a lower bound L > 0 must become Affine(loc=L, scale=1) of a parameter that is itself constrained to be positive and made unconstrained recursively")
    rep.check('C19.U', 'make_unconstrained::all-four-constraints-handled', seen == set(TRANSFORM_FOR), where(um, fn), {'seen': sorted(map(str, seen))},
              "make_unconstrained must handle (0,1), lower>0, lower≤0 and simplex constraints")


def run(ctx, rep):
    rep.explanation = (
        "Reader table: for every registered class the keys its from_json dereferences on every path to a normal return (CFG must-pass, helpers inlined) and "
        "the keys it hands to process_object*.  Every dict literal with a constant 'type' in torchtree/cli (joined with later constant-key stores on the same "
        "variable) must carry the reader's mandatory keys, and its type / transform / distribution strings must resolve.  The Jacobian assembly of the three "
        "builders is compared as normalised AST and checked clause by clause; create_jacobians must visit every nested object once and skip only unit-scale "
        "affine transforms; each constraint branch of make_unconstrained must install the transform whose codomain is the constraint and initialise the "
        "unconstrained value through that transform's inverse; identifiers referenced by loggers, samplers and Jacobian lists must unify with some "
        "identifier template the builders can define."
    )
    rep.rule('C19.T', "every 'type' / 'transform' / 'distribution' string the CLI emits resolves to a registered class or dotted path")
    rep.rule('C19.K', "every typed object literal the CLI emits carries the keys its reader dereferences on every path")
    rep.rule('C19.J', "Jacobians: collected after constraints became transforms, tree Jacobian for ratio heights, none for log-scale GMRF, counted once, identical in advi/hmc/mcmc, samplers target joint.jacobian")
    rep.rule('C19.U', "make_unconstrained: transform codomain = constraint; unconstrained value = inverse transform of the requested value; constrained tensor removed")
    rep.rule('C19.R', "identifiers referenced by loggers / samplers / Jacobian lists / reference-typed keys unify with an identifier template defined by the builders")
    rep.rule('C19.E', "every option value the parsers accept has a handler: under each accepted value no local is read where no assignment can reach it")
    rep.rule('C19.N', "tensor-only torch functions are never applied to a plain Python number in the builders")
    rep.not_decided += ["finiteness of density and gradient at the initial point", "pairwise option coverage at run time", "plugins"]
    from props import c19_ids, c19_flow
    steps = ((check_types_and_keys, 'C19.K'), (check_jacobians, 'C19.J'), (check_make_unconstrained, 'C19.U'), (c19_ids.check_ids, 'C19.R'),
             (c19_flow.check_exhaustive, 'C19.E'), (c19_flow.check_pynum, 'C19.N'))
    for f, rule in steps:
        try:
            f(ctx, rep)
        except Unsupported as u:
            rep.undecided(rule, f.__name__, f"line {getattr(u.node, 'lineno', 0)}", str(u))
