"""C05, generic part — a site model none of the hand-written rules knows.

The update method of the class (the one its rates() calls behind the dirty flag) is executed *abstractly*: every value is a list of blocks along the category axis, a block
is one element wide (`1`) or K elements wide (`K`, K generic) and carries a rational function over scalar symbols (one-element parameters, sums) and vector symbols (per-category
parameters).  `x.sum(-1, keepdim=True)` is linear: the sum of a K-wide block is written with one symbol per monomial of vector symbols (`Σ[r·w]`), scalar factors move out.
`torch.cat((a, b), -1)` concatenates block lists; element-wise arithmetic works block by block.  Optional members (`if self._mu is not None`, `invariant is None`) are
enumerated.  At the end Σ_k prob_k·rate_k must be the polynomial 1 (mu when a relative rate is present) on every path.  Anything outside this vocabulary is refused
(Unsupported): the class is then reported as undecided, never as correct.

Interpretation of parameters: a parameter attribute whose name says it is a single proportion / rate (`_invariant`, `_mu`, `_pinv`) is one element wide, every other parameter is
K wide.  A one-element interpretation is a special case of the K-wide one, so an identity that fails here fails for real inputs.
"""
from __future__ import annotations

import ast
import itertools
from fractions import Fraction
from typing import Dict, List, Optional, Tuple

from sa.loader import AnalysisError, Unsupported, dotted_name
from sa.members import self_attr
from sa.poly import Rat, p_const, p_add, p_mul, p_sym

SCALAR_ATTRS = {'_invariant', '_mu', '_pinv', '_rate'}
Block = Tuple[str, Rat]      # ('1' | 'K', value)


def method_name(call: ast.Call) -> str:
    return (dotted_name(call.func) or (call.func.attr if isinstance(call.func, ast.Attribute) else '')).split('.')[-1]


def _is_vec(sym: str, vec_syms) -> bool:
    return sym in vec_syms


def block_sum(b: Block, vec_syms) -> Rat:
    """Σ over the elements of a block"""
    kind, v = b
    if kind == '1':
        return v
    # denominator must be free of vector symbols
    for mono in v.den:
        if any(_is_vec(s, vec_syms) for s, _ in mono):
            raise Unsupported(None, 'sum of a quotient whose denominator varies over the categories')
    num = {}
    for mono, c in v.num.items():
        vec = tuple((s, p) for s, p in mono if _is_vec(s, vec_syms))
        sca = tuple((s, p) for s, p in mono if not _is_vec(s, vec_syms))
        if vec:
            name = 'Σ[' + '·'.join(f"{s}^{p}" if p != 1 else s for s, p in vec) + ']'
            m2 = tuple(sorted(sca + ((name, 1),)))
        else:
            m2 = tuple(sorted(sca + (('K', 1),)))
        # merge equal symbols (a scalar symbol can coincide with the new one only by name clash, which the Σ[…] / K names exclude)
        num[m2] = num.get(m2, 0) + c
    num = {m: c for m, c in num.items() if c != 0}
    return Rat(num, v.den)


class Interp:
    def __init__(self, cls, fn: ast.FunctionDef, present: Dict[str, bool], args: Dict[str, object]):
        self.cls, self.fn, self.present = cls, fn, present
        self.vec_syms = set()
        self.env: Dict[str, object] = dict(args)
        self.attrs: Dict[str, object] = {}

    # -- values -----------------------------------------------------------
    def param(self, attr: str):
        if attr in self.present and not self.present[attr]:
            return None
        name = attr.strip('_')
        if attr in SCALAR_ATTRS:
            return [('1', Rat.sym(name))]
        self.vec_syms.add(name)
        return [('K', Rat.sym(name))]

    def lift(self, v, like=None):
        if isinstance(v, (int, float, Fraction)):
            return [('1', Rat.const(Fraction(str(v))))]
        return v

    def elementwise(self, a, b, op):
        a, b = self.lift(a), self.lift(b)
        if a is None or b is None:
            raise Unsupported(None, 'arithmetic on an absent optional member')
        if len(a) == 1 and len(b) > 1 and a[0][0] == '1':
            a = [('1', a[0][1])] * len(b)
        if len(b) == 1 and len(a) > 1 and b[0][0] == '1':
            b = [('1', b[0][1])] * len(a)
        if len(a) != len(b):
            raise Unsupported(None, 'element-wise operation on different block layouts')
        out = []
        for (ka, va), (kb, vb) in zip(a, b):
            out.append(('K' if 'K' in (ka, kb) else '1', op(va, vb)))
        return out

    def ev(self, e):
        if isinstance(e, ast.Constant):
            if e.value is None:
                return None
            if isinstance(e.value, (int, float)) and not isinstance(e.value, bool):
                return [('1', Rat.const(Fraction(str(e.value))))]
            raise Unsupported(e, 'constant')
        if isinstance(e, ast.Name):
            if e.id in self.env:
                return self.env[e.id]
            raise Unsupported(e, f"unbound name {e.id}")
        if isinstance(e, ast.Attribute):
            a = self_attr(e)
            if a is not None:
                if a in self.attrs:
                    return self.attrs[a]
                r = self.cls.resolve(a, 'getter')
                if r:
                    return self.call_fn(r[1], {})
                return ('param', a)
            if e.attr == 'tensor':
                base = self.ev(e.value)
                if isinstance(base, tuple) and base and base[0] == 'param':
                    return self.param(base[1])
                if base is None:
                    raise Unsupported(e, '.tensor of an absent optional member')
                return base
            raise Unsupported(e, f"attribute {ast.unparse(e)[:40]}")
        if isinstance(e, ast.UnaryOp) and isinstance(e.op, ast.USub):
            return self.elementwise(0, self.ev(e.operand), lambda x, y: x - y)
        if isinstance(e, ast.BinOp):
            ops = {ast.Add: lambda x, y: x + y, ast.Sub: lambda x, y: x - y, ast.Mult: lambda x, y: x * y, ast.Div: lambda x, y: x / y}
            if type(e.op) not in ops:
                raise Unsupported(e, 'operator')
            return self.elementwise(self.ev(e.left), self.ev(e.right), ops[type(e.op)])
        if isinstance(e, ast.IfExp):
            return self.ev(e.body) if self.test(e.test) else self.ev(e.orelse)
        if isinstance(e, ast.Call):
            name = method_name(e)
            torch_fn = isinstance(e.func, ast.Attribute) and isinstance(e.func.value, ast.Name) and e.func.value.id == 'torch'
            if name == 'cat' and torch_fn and isinstance(e.args[0], (ast.Tuple, ast.List)):
                ax = e.args[1] if len(e.args) > 1 else next((k.value for k in e.keywords if k.arg == 'dim'), None)
                if ax is None or ast.unparse(ax) != '-1':
                    raise Unsupported(e, 'cat along another axis')
                out = []
                for x in e.args[0].elts:
                    v = self.ev(x)
                    if v is None:
                        raise Unsupported(e, 'cat of an absent member')
                    out += self.lift(v)
                return out
            if name in ('zeros_like', 'ones_like') and torch_fn:
                v = self.ev(e.args[0])
                c = Rat.const(0 if name == 'zeros_like' else 1)
                return [(k, c) for k, _ in v]
            if name == 'sum' and isinstance(e.func, ast.Attribute):
                recv = e.args[0] if torch_fn else e.func.value
                rest = e.args[1:] if torch_fn else e.args
                ax = rest[0] if rest else next((k.value for k in e.keywords if k.arg == 'dim'), None)
                keep = any(k.arg == 'keepdim' and isinstance(k.value, ast.Constant) and k.value.value is True for k in e.keywords)
                if ax is None or ast.unparse(ax) != '-1' or not keep:
                    raise Unsupported(e, 'sum that is not over the category axis with keepdim')
                v = self.ev(recv)
                total = Rat.const(0)
                for b in v:
                    total = total + block_sum(b, self.vec_syms)
                return [('1', total)]
            if name in ('expand', 'clone', 'contiguous', 'to', 'expand_as') and isinstance(e.func, ast.Attribute) and not torch_fn:
                return self.ev(e.func.value)
            if isinstance(e.func, ast.Attribute) and self_attr(e.func):
                r = self.cls.resolve(self_attr(e.func))
                if r:
                    params = [a.arg for a in r[1].args.args][1:]
                    return self.call_fn(r[1], dict(zip(params, [self.ev(a) for a in e.args])))
            raise Unsupported(e, f"call {ast.unparse(e)[:50]}")
        raise Unsupported(e, f"expression {ast.unparse(e)[:50]}")

    def test(self, t) -> bool:
        if isinstance(t, ast.Compare) and len(t.ops) == 1 and isinstance(t.ops[0], (ast.Is, ast.IsNot)) and isinstance(t.comparators[0], ast.Constant) and t.comparators[0].value is None:
            v = self.ev(t.left)
            if isinstance(v, tuple) and v and v[0] == 'param':
                absent = v[1] in self.present and not self.present[v[1]]
            else:
                absent = v is None
            return absent if isinstance(t.ops[0], ast.Is) else not absent
        if isinstance(t, ast.UnaryOp) and isinstance(t.op, ast.Not):
            return not self.test(t.operand)
        if isinstance(t, ast.BoolOp):
            vals = [self.test(v) for v in t.values]
            return all(vals) if isinstance(t.op, ast.And) else any(vals)
        raise Unsupported(t, f"test {ast.unparse(t)[:50]}")

    # -- statements -------------------------------------------------------
    def call_fn(self, fn, args):
        saved = self.env
        self.env = dict(args)
        try:
            r = self.block(fn.body)
        finally:
            self.env = saved
        return r[1] if r else None

    def block(self, stmts):
        for st in stmts:
            if isinstance(st, ast.Expr) and isinstance(st.value, ast.Constant):
                continue
            if isinstance(st, ast.Assign) and len(st.targets) == 1:
                v = self.ev(st.value)
                t = st.targets[0]
                if isinstance(t, ast.Name):
                    self.env[t.id] = v
                elif self_attr(t):
                    self.attrs[self_attr(t)] = v
                else:
                    raise Unsupported(st, 'assignment target')
            elif isinstance(st, ast.AugAssign):
                ops = {ast.Add: lambda x, y: x + y, ast.Sub: lambda x, y: x - y, ast.Mult: lambda x, y: x * y, ast.Div: lambda x, y: x / y}
                if type(st.op) not in ops:
                    raise Unsupported(st, 'operator')
                cur = self.ev(st.target)
                v = self.elementwise(cur, self.ev(st.value), ops[type(st.op)])
                if isinstance(st.target, ast.Name):
                    self.env[st.target.id] = v
                elif self_attr(st.target):
                    self.attrs[self_attr(st.target)] = v
                else:
                    raise Unsupported(st, 'assignment target')
            elif isinstance(st, ast.If):
                r = self.block(st.body if self.test(st.test) else st.orelse)
                if r is not None:
                    return r
            elif isinstance(st, ast.Return):
                return ('ret', self.ev(st.value) if st.value is not None else None)
            elif isinstance(st, ast.Pass):
                continue
            else:
                raise Unsupported(st, f"statement {ast.unparse(st)[:50]}")
        return None


def decide_class(cls) -> List[dict]:
    """one verdict per combination of optional members: {'present': …, 'mean': Rat, 'ok': bool}; raises Unsupported"""
    r_rates, r_probs = cls.resolve('rates'), cls.resolve('probabilities')
    if not r_rates or not r_probs:
        raise Unsupported(cls.node, 'rates() / probabilities() not found')

    def returned_attr(fn):
        rets = [r for r in ast.walk(fn) if isinstance(r, ast.Return) and r.value is not None]
        if len(rets) != 1 or not self_attr(rets[0].value):
            raise Unsupported(fn, 'accessor does not return one attribute')
        return self_attr(rets[0].value)
    rattr, pattr = returned_attr(r_rates[1]), returned_attr(r_probs[1])
    # the refresh call behind the dirty flag
    calls = [c for c in ast.walk(r_rates[1]) if isinstance(c, ast.Call) and self_attr(c.func) and self_attr(c.func).startswith('update')]
    if len(calls) != 1:
        raise Unsupported(r_rates[1], 'refresh call of rates() not found')
    upd = cls.resolve(self_attr(calls[0].func))
    if not upd:
        raise Unsupported(r_rates[1], 'refresh method not resolved')
    # optional members: constructor parameters with default None stored on the object
    optional = []
    init = cls.resolve('__init__')[1]
    defaults = dict(zip([a.arg for a in init.args.args][len(init.args.args) - len(init.args.defaults):], init.args.defaults))
    for c in cls.internal_mro():
        i2 = c.methods.get('__init__')
        if i2 is None:
            continue
        d2 = dict(zip([a.arg for a in i2.args.args][len(i2.args.args) - len(i2.args.defaults):], i2.args.defaults))
        for st in ast.walk(i2):
            if isinstance(st, ast.Assign) and self_attr(st.targets[0]) and isinstance(st.value, ast.Name) and st.value.id in d2 \
                    and isinstance(d2[st.value.id], ast.Constant) and d2[st.value.id].value is None:
                optional.append(self_attr(st.targets[0]))
    optional = sorted(set(optional))
    out = []
    for combo in itertools.product([False, True], repeat=len(optional)):
        present = dict(zip(optional, combo))
        it = Interp(cls, upd[1], present, {})
        params = [a.arg for a in upd[1].args.args][1:]
        args = {}
        for pname, a in zip(params, calls[0].args):
            args[pname] = it.ev(a)
            if isinstance(args[pname], tuple) and args[pname][0] == 'param':
                args[pname] = it.param(args[pname][1])
        it.env = dict(args)
        it.block(upd[1].body)
        if rattr not in it.attrs or pattr not in it.attrs:
            raise Unsupported(upd[1], f"{upd[1].name} does not define self.{rattr} / self.{pattr}")
        R, P = it.lift(it.attrs[rattr]), it.lift(it.attrs[pattr])
        if [k for k, _ in R] != [k for k, _ in P]:
            raise Unsupported(upd[1], 'rates and probabilities have different block layouts')
        mean = Rat.const(0)
        for (k, r), (_, p) in zip(R, P):
            mean = mean + block_sum((k, r * p), it.vec_syms)
        want = Rat.sym('mu') if present.get('_mu') else Rat.const(1)
        out.append({'present': {k: v for k, v in present.items()}, 'mean': mean, 'ok': mean.equals(want), 'want': want, 'layout': [k for k, _ in R]})
    return out


# ---------------------------------------------------------------------------
# embedded examples: the evaluator must accept the first class and refuse the second on every run
# ---------------------------------------------------------------------------
EXAMPLES = '''
class SiteModel:
    def __init__(self, id_, mu=None):
        self._mu = mu
        self.needs_update = True

class Good(SiteModel):
    def __init__(self, id_, rates, proportions, invariant=None, mu=None):
        super().__init__(id_, mu)
        self._free_rates = rates
        self._proportions = proportions
        self._invariant = invariant
    @property
    def invariant(self):
        return self._invariant.tensor if self._invariant is not None else None
    def update_rates_probs(self):
        proportions = self._proportions.tensor
        rates = self._free_rates.tensor
        invariant = self.invariant
        if invariant is not None:
            proportions = torch.cat((invariant, (1.0 - invariant) * proportions), dim=-1)
            rates = torch.cat((torch.zeros_like(invariant), rates), dim=-1)
        rates = rates / (rates * proportions).sum(-1, keepdim=True)
        if self._mu is not None:
            rates = rates * self._mu.tensor
        self._rates = rates
        self._probabilities = proportions
    def rates(self):
        if self.needs_update:
            self.update_rates_probs()
            self.needs_update = False
        return self._rates
    def probabilities(self):
        if self.needs_update:
            self.update_rates_probs()
            self.needs_update = False
        return self._probabilities

class Bad(Good):
    def update_rates_probs(self):
        proportions = self._proportions.tensor
        rates = self._free_rates.tensor
        rates = rates / (rates * proportions).sum(-1, keepdim=True)
        invariant = self.invariant
        if invariant is not None:
            proportions = torch.cat((invariant, (1.0 - invariant) * proportions), dim=-1)
            rates = torch.cat((torch.zeros_like(invariant), rates), dim=-1)
        if self._mu is not None:
            rates = rates * self._mu.tensor
        self._rates = rates
        self._probabilities = proportions
'''


class _MiniClass:
    """just enough of sa.classes.ClassInfo for the embedded examples"""

    def __init__(self, node, table):
        self.node, self.table = node, table
        self.methods = {b.name: b for b in node.body if isinstance(b, ast.FunctionDef) and not any(isinstance(d, ast.Name) and d.id == 'property' for d in b.decorator_list)}
        self.getters = {b.name: b for b in node.body if isinstance(b, ast.FunctionDef) and any(isinstance(d, ast.Name) and d.id == 'property' for d in b.decorator_list)}

    def internal_mro(self):
        out, c = [], self
        while c is not None:
            out.append(c)
            base = c.node.bases[0].id if c.node.bases and isinstance(c.node.bases[0], ast.Name) else None
            c = self.table.get(base)
        return out

    def resolve(self, name, kind='method'):
        for c in self.internal_mro():
            d = c.methods if kind == 'method' else c.getters
            if name in d:
                return (c, d[name])
        return None


def self_check():
    t = ast.parse(EXAMPLES)
    for n in ast.walk(t):
        for ch in ast.iter_child_nodes(n):
            ch._parent = n
    table: Dict[str, _MiniClass] = {}
    for c in t.body:
        if isinstance(c, ast.ClassDef):
            table[c.name] = _MiniClass(c, table)
    good = decide_class(table['Good'])
    bad = decide_class(table['Bad'])
    if not (len(good) == 4 and all(v['ok'] for v in good)):
        raise AnalysisError(f"C05 generic self-check: the correct example is not accepted: {[(v['present'], repr(v['mean'])) for v in good if not v['ok']]}")
    wrong = [v for v in bad if not v['ok']]
    if not (len(wrong) == 2 and all(v['present']['_invariant'] for v in wrong)):
        raise AnalysisError(f"C05 generic self-check: the wrong example is not refused where it should be: {[(v['present'], repr(v['mean']), v['ok']) for v in bad]}")
