"""C02 / C06 (known): with `use_postorder_indices: true` a leaf's index is its post-order rank, while tip partials and sampling dates stay in Taxa order:
the likelihood then depends on how the taxa list and the newick string are ordered, and tips are given another taxon's date.
Run: PYTHONPATH=<tree> /venv/bin/python findings/c02_known_postorder_leaf_indices.py   (exit 1 = defect present)"""
import sys, torch
from torchtree.core.utils import JSONParseError  # noqa: F401
from torchtree.evolution.tree_model import UnRootedTreeModel, TimeTreeModel
from torchtree.evolution.tree_likelihood import TreeLikelihoodModel


def likelihood(taxa_order, postorder):
    seqs = {'A': 'AAAAACGT', 'B': 'CCCCACGT', 'C': 'GGGGACGA', 'D': 'TTTTACGG'}
    taxa = {'id': 'taxa', 'type': 'Taxa', 'taxa': [{'id': t, 'type': 'Taxon'} for t in taxa_order]}
    tree = {'id': 'tree', 'type': 'UnRootedTreeModel', 'newick': '((C:0.3,D:0.05):0.2,(A:0.01,B:0.4):0.0);', 'keep_branch_lengths': True,
            'use_postorder_indices': postorder, 'branch_lengths': {'id': 'bl', 'type': 'Parameter', 'tensor': 0.1, 'full': [5]}, 'taxa': taxa}
    model = {'id': 'like', 'type': 'TreeLikelihoodModel', 'tree_model': tree,
             'site_model': {'id': 'sm', 'type': 'ConstantSiteModel'},
             'substitution_model': {'id': 'm', 'type': 'JC69'},
             'site_pattern': {'id': 'sp', 'type': 'SitePattern', 'alignment': {'id': 'al', 'type': 'Alignment', 'datatype': 'nucleotide', 'taxa': 'taxa',
                                                                         'sequences': [{'taxon': t, 'sequence': s} for t, s in seqs.items()]}}}
    return TreeLikelihoodModel.from_json(model, {})().item()


bad = 0
ref = likelihood(['A', 'B', 'C', 'D'], False)
for order in (['A', 'B', 'C', 'D'], ['C', 'D', 'A', 'B'], ['D', 'A', 'C', 'B']):
    for po in (False, True):
        v = likelihood(order, po)
        flag = '' if abs(v - ref) < 1e-5 else '   <-- differs'
        bad += bool(flag)
        print(f"taxa order {order} use_postorder_indices={po}: logL = {v:.6f}{flag}")
# dates
tm = TimeTreeModel.from_json({'id': 't', 'type': 'TimeTreeModel', 'newick': '((C:1,D:2):5,(A:2,B:1):1);', 'use_postorder_indices': True,
                              'internal_heights': {'id': 'h', 'type': 'Parameter', 'tensor': [2.0, 5.0, 9.0]},
                              'taxa': {'id': 'taxa', 'type': 'Taxa', 'taxa': [{'id': n, 'type': 'Taxon', 'attributes': {'date': d}}
                                                                            for n, d in (('A', 0.0), ('B', 1.0), ('C', 4.0), ('D', 5.0))]}}, {})
dates = {'A': 0.0, 'B': 1.0, 'C': 4.0, 'D': 5.0}
for leaf in tm.tree.leaf_node_iter():
    got = tm.sampling_times[leaf.index].item()
    if got != dates[leaf.taxon.label]:
        bad += 1
        print(f"tip {leaf.taxon.label} (date {dates[leaf.taxon.label]}) sits at sampling time {got}")
print('DEFECT present' if bad else 'OK')
sys.exit(1 if bad else 0)
