"""C17 (fixed): a checkpoint written at the end of iteration K stored "iteration": K and a resumed run started again AT iteration K:
it performed one more iteration than was left and repeated the iteration label (which the operators' tuning schedule and the loggers see).
Deterministic check with a plain SGD optimiser on a quadratic loss: uninterrupted N iterations vs K iterations + resume.
Run: PYTHONPATH=<tree> /venv/bin/python findings/c17_resume_repeats_iteration.py   (exit 1 = defect present)"""
import sys, json, os, tempfile, torch, io, contextlib
from torchtree import Parameter
from torchtree.core.model import CallableModel
from torchtree.optim.optimizer import Optimizer
torch.set_default_dtype(torch.float64)


class Quadratic(CallableModel):
    def __init__(self, x):
        super().__init__('loss')
        self.x = x
        self.samples = torch.Size([1])

    def _call(self, *args, **kwargs):
        return -((self.x.tensor - 3.0) ** 2).sum()

    def _sample_shape(self):
        return torch.Size([])

    def handle_parameter_changed(self, variable, index, event):
        self.lp_needs_update = True
        self.fire_model_changed()

    @classmethod
    def from_json(cls, data, dic):
        raise NotImplementedError


def build(iterations, ckpt=None, freq=1000):
    x = Parameter('x', torch.tensor([0.0]))
    loss = Quadratic(x)
    x.requires_grad = True
    opt = Optimizer('opt', [x], loss, torch.optim.SGD([x.tensor], lr=0.1, maximize=True), iterations, maximize=True, checkpoint=ckpt, checkpoint_frequency=freq)
    return x, opt


def run(opt):
    with contextlib.redirect_stdout(io.StringIO()):
        opt.run()


N, K = 6, 3
d = tempfile.mkdtemp()
ck = os.path.join(d, 'checkpoint.json')
x_full, opt_full = build(N)
run(opt_full)
x_a, opt_a = build(K, ck, freq=K)
run(opt_a)
state = [e for e in json.load(open(ck)) if e.get('id') == 'opt'][0]
x_b, opt_b = build(N)
with torch.no_grad():
    x_b.tensor.copy_(x_a.tensor)
x_b.fire_parameter_changed()
opt_b.load_state_dict(state)
first = opt_b._epoch
run(opt_b)
ok = torch.allclose(x_b.tensor, x_full.tensor) and first == K + 1
print(f"uninterrupted x = {x_full.tensor.item():.6f}; resumed x = {x_b.tensor.item():.6f}; resumed run starts at iteration {first} (checkpoint written at the end of {K})")
print('OK' if ok else 'DEFECT: the resumed run repeats an iteration')
sys.exit(0 if ok else 1)
