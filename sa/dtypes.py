"""Default-precision construction: a tensor built from Python numbers without an explicit dtype (`torch.tensor(values)`, `torch.as_tensor`, `torch.linspace`)
has torch's default precision (float32) whatever precision the model was asked for.  Storing such a tensor is what the code base does in a few places (listed as
examined); *computing* with it (arithmetic, cumulative sums, reductions) or *converting* it afterwards (`.to(dtype)`, `.double()`, `.type(...)`) means the numbers have
already been rounded to 24 bits before they reach the requested precision — the contradiction "built without a dtype, then given one" is decided per function by a
forward taint over local names.
"""
from __future__ import annotations

import ast
from typing import Iterable

from sa.loader import AnalysisError, dotted_name, norm_text
from sa.report import where

CONSTRUCTORS = {'tensor', 'as_tensor', 'linspace', 'logspace', 'FloatTensor'}
COMPUTE_METHODS = {'cumsum', 'cumprod', 'sum', 'mean', 'prod', 'log', 'exp', 'sqrt', 'pow', 'diff', 'to', 'double', 'type', 'float', 'type_as', 'mul', 'add', 'sub', 'div',
                   'logsumexp', 'std', 'var', 'cumsum_', 'expm1', 'log1p'}
INTEGER_HINTS = ('index', 'indices', 'mapping', 'count', 'events', 'preorder', 'postorder', 'mask')


def _is_literal_or_int(a: ast.AST) -> bool:
    """literal numbers / containers of literals, or things that are plainly integer data"""
    if all(isinstance(x, (ast.Constant, ast.List, ast.Tuple, ast.UnaryOp, ast.USub, ast.UAdd, ast.Load)) for x in ast.walk(a)):
        return True
    txt = ast.unparse(a)
    return any(h in txt for h in INTEGER_HINTS)


def _python_numbers(fn: ast.FunctionDef, a: ast.AST, depth=0) -> bool:
    """the argument is made of Python numbers read from a mapping (JSON data, taxon attributes): `data['times']`, `[t['date'] for t in taxa]`, or a local list filled from such
    lookups.  (A list of tensors keeps the tensors' dtype and is not concerned.)"""
    for x in ast.walk(a):
        if isinstance(x, ast.Subscript) and isinstance(x.slice, ast.Constant) and isinstance(x.slice.value, str):
            return True
    if depth < 3:
        for x in ast.walk(a):
            if isinstance(x, ast.Name) and isinstance(x.ctx, ast.Load):
                for st in ast.walk(fn):
                    if isinstance(st, ast.Assign):
                        for t in st.targets:
                            base = t.value if isinstance(t, ast.Subscript) else t
                            if isinstance(base, ast.Name) and base.id == x.id and st.value is not a and not any(y is a for y in ast.walk(st.value)):
                                if _python_numbers(fn, st.value, depth + 1):
                                    return True
    return False


def default_precision_constructions(fn: ast.FunctionDef):
    for c in ast.walk(fn):
        if isinstance(c, ast.Call) and isinstance(c.func, ast.Attribute) and isinstance(c.func.value, ast.Name) and c.func.value.id == 'torch' \
                and c.func.attr in CONSTRUCTORS and c.args:
            if any(k.arg == 'dtype' or k.arg is None for k in c.keywords):
                continue
            if c.func.attr in ('tensor', 'as_tensor') and (_is_literal_or_int(c.args[0]) or len(c.args) > 1 or not _python_numbers(fn, c.args[0])):
                continue
            yield c


def _uses(fn: ast.FunctionDef, c: ast.Call):
    """computations / conversions applied to the value built by `c` (followed through local names)"""
    tainted_nodes = {id(c)}
    tainted_names = set()
    out = []
    changed = True
    assigns = [st for st in ast.walk(fn) if isinstance(st, ast.Assign) and len(st.targets) == 1 and isinstance(st.targets[0], ast.Name)]

    def tainted(e) -> bool:
        for x in ast.walk(e):
            par = getattr(x, '_parent', None)
            if isinstance(par, ast.Attribute) and par.attr in ('shape', 'dtype', 'device', 'ndim') and par.value is x:
                continue
            if id(x) in tainted_nodes:
                return True
            if isinstance(x, ast.Name) and isinstance(x.ctx, ast.Load) and x.id in tainted_names:
                return True
        return False
    rounds = 0
    while changed and rounds < 10:
        changed = False
        rounds += 1
        for st in assigns:
            if st.targets[0].id not in tainted_names and tainted(st.value):
                # a conversion / dtype-explicit rebuild of the value ends the taint of the *new* name but is itself a use
                tainted_names.add(st.targets[0].id)
                changed = True
    for x in ast.walk(fn):
        if isinstance(x, ast.BinOp) and isinstance(x.op, (ast.Add, ast.Sub, ast.Mult, ast.Div, ast.Pow)) and (tainted(x.left) or tainted(x.right)):
            # list concatenation inside the constructor's own argument is not tensor arithmetic
            if any(id(y) == id(c) for y in ast.walk(x)) or not _inside(x, c):
                out.append(('arithmetic', x))
        elif isinstance(x, ast.Call) and isinstance(x.func, ast.Attribute) and x.func.attr in COMPUTE_METHODS and tainted(x.func.value) and not _inside(x, c):
            out.append((f".{x.func.attr}()", x))
        elif isinstance(x, ast.Call) and isinstance(x.func, ast.Attribute) and isinstance(x.func.value, ast.Name) and x.func.value.id == 'torch' \
                and x.func.attr in COMPUTE_METHODS and x.args and tainted(x.args[0]) and not _inside(x, c):
            out.append((f"torch.{x.func.attr}()", x))
    return out


def _inside(x, c) -> bool:
    """x lies inside the argument list of the constructor call c"""
    p = x
    while p is not None:
        if p is c:
            return True
        p = getattr(p, '_parent', None)
    return False


def check_default_precision(ctx, rep, rule: str, modules: Iterable[str], floor: int = 1) -> int:
    self_check()
    n = 0
    for mname in modules:
        m = ctx.prog.module(mname)
        for fn in ast.walk(m.tree):
            if not isinstance(fn, ast.FunctionDef):
                continue
            cl = getattr(fn, '_parent', None)
            scope = f"{cl.name}.{fn.name}" if isinstance(cl, ast.ClassDef) else fn.name
            seen = {}
            for c in default_precision_constructions(fn):
                n += 1
                txt = norm_text(c)[:60]
                k = seen[txt] = seen.get(txt, -1) + 1
                key = f"{mname.replace('torchtree.', '')}::{scope}::{txt}#{k}"
                uses = _uses(fn, c)
                if uses:
                    what, node = uses[0]
                    rep.bad(rule, key, where(m, c), {'uses': [f"{w}: {norm_text(u)[:60]}" for w, u in uses[:4]]},
                            f"{scope}: `{txt}` builds a tensor from Python numbers at torch's default precision (float32) and the function then computes with it / converts it "
                            f"({what}: `{norm_text(node)[:60]}`): the values are rounded to 24 bits before the requested precision is applied, so times / heights "
                            f"differ from the ones given by up to 6e-8 relative and every quantity derived from differences of them by much more")
                else:
                    rep.ok(rule, key, where(m, c), {'class': 'stored or indexed only (no arithmetic, no later conversion in this function)'})
    if n < floor:
        rep.incomplete(rule, '*', '', f"only {n} dtype-less tensor constructions examined, expected at least {floor}")
    rep.analysed['default_precision_constructions'] = n
    return n


POSITIVE = '''
def f(data, dtype):
    a = torch.tensor(data['times'])
    b = torch.tensor([0.0] + data['intervals']).cumsum(0)
    c = torch.tensor(data['x'], dtype=dtype)
    d = torch.tensor(data['y'])
    e = torch.tensor([1.0, 2.0])
    nodes = torch.cat((a[k == 1], a[k == 0]), -1)
    return nodes.to(dtype=dtype), b, c * 2, d, e + 1
'''


def self_check():
    t = ast.parse(POSITIVE)
    for n in ast.walk(t):
        for ch in ast.iter_child_nodes(n):
            ch._parent = n
    fn = t.body[0]
    res = {}
    for c in default_precision_constructions(fn):
        res[ast.unparse(c)[:30]] = sorted({w for w, _ in _uses(fn, c)})
    want = {"torch.tensor(data['times'])": ['.to()'], "torch.tensor([0.0] + data['int": ['.cumsum()'], "torch.tensor(data['y'])": []}
    if res != want:
        raise AnalysisError(f"default-precision self-check failed: {res}")


# ---------------------------------------------------------------------------
# work buffers: a tensor allocated without a dtype and then written INTO takes torch's default precision, and every value stored into it is rounded to it
# ---------------------------------------------------------------------------
BUFFER_FACTORIES = {'torch.ones', 'torch.zeros', 'torch.full', 'torch.empty', 'torch.eye'}
BUFFER_POSITIVE = '''
def log_p(self, t):
    B = torch.zeros_like(self.mu)
    p = torch.ones(self.mu.shape[:-1] + (3,), device=self.mu.device)
    q = torch.ones(self.mu.shape[:-1] + (3,), dtype=self.mu.dtype)
    idx = torch.zeros(3, dtype=torch.long)
    h = torch.empty(5)
    for i in range(3):
        p[..., i] *= torch.exp(self.mu[..., i] * t)
        q[..., i] = self.mu[..., i]
        h[i] = float(i)
    return p, q, h
'''


def default_precision_buffers(fn: ast.FunctionDef):
    """(allocation, store) pairs: a local allocated by torch.ones / zeros / full / empty / eye without dtype (and without **kwargs) that receives, through a subscript store or
    an augmented subscript assignment, a value computed from the object's tensors or by torch (not plain Python numbers)"""
    bufs = {}
    for st in ast.walk(fn):
        if isinstance(st, ast.Assign) and len(st.targets) == 1 and isinstance(st.targets[0], ast.Name) and isinstance(st.value, ast.Call) \
                and (dotted_name(st.value.func) or '') in BUFFER_FACTORIES:
            c = st.value
            if not any(k.arg == 'dtype' or k.arg is None for k in c.keywords):
                bufs[st.targets[0].id] = c
    out = []
    if not bufs:
        return out
    params = {a.arg for a in fn.args.args + fn.args.kwonlyargs} - {'self', 'cls'}
    for st in ast.walk(fn):
        tg = []
        if isinstance(st, ast.Assign):
            tg = [t for t in st.targets if isinstance(t, ast.Subscript)]
        elif isinstance(st, ast.AugAssign) and isinstance(st.target, ast.Subscript):
            tg = [st.target]
        for t in tg:
            b = t.value
            while isinstance(b, ast.Subscript):
                b = b.value
            if not (isinstance(b, ast.Name) and b.id in bufs):
                continue
            from sa.util import backward_slice, local_assignments
            defs = {k: v for k, v in local_assignments(fn).items() if k not in bufs}
            tensorish = any((isinstance(x, ast.Attribute) and isinstance(x.value, ast.Name) and x.value.id == 'self')
                            or (isinstance(x, ast.Call) and (dotted_name(x.func) or '').startswith('torch.') and (dotted_name(x.func) or '') not in ('torch.arange', 'torch.Size'))
                            or (isinstance(x, ast.Attribute) and x.attr == 'tensor')
                            for e in backward_slice(st.value, defs) for x in ast.walk(e))
            if tensorish:
                out.append((bufs[b.id], st))
    return out


def check_work_buffers(ctx, rep, rule: str, modules: Iterable[str]) -> int:
    t = ast.parse(BUFFER_POSITIVE)
    got = [ast.unparse(s.targets[0] if isinstance(s, ast.Assign) else s.target) for _, s in default_precision_buffers(t.body[0])]
    if got != ['p[..., i]']:
        raise AnalysisError(f"work-buffer self-check failed: {got}")
    n = 0
    for mname in modules:
        m = ctx.prog.module(mname)
        for fn in ast.walk(m.tree):
            if not isinstance(fn, ast.FunctionDef):
                continue
            cl = getattr(fn, '_parent', None)
            scope = f"{cl.name}.{fn.name}" if isinstance(cl, ast.ClassDef) else fn.name
            allocs = [st.value for st in ast.walk(fn) if isinstance(st, ast.Assign) and isinstance(st.value, ast.Call) and (dotted_name(st.value.func) or '') in BUFFER_FACTORIES]
            n += len(allocs)
            hits = default_precision_buffers(fn)
            for alloc, st in hits[:1]:
                rep.bad(rule, f"{mname.replace('torchtree.', '')}::{scope}::buffer::{norm_text(alloc)[:50]}", where(m, alloc), {'stores': [norm_text(s)[:70] for _, s in hits]},
                        f"{scope}: `{norm_text(alloc)[:60]}` allocates a work array at torch's default precision and `{norm_text(st)[:60]}` stores computed values into it: an "
                        f"in-place store converts to the dtype of the array, so double-precision intermediate results are rounded to 24 bits and everything derived from them "
                        f"(differences like 1 − p₀ most of all) loses the requested precision")
            if allocs and not hits:
                rep.ok(rule, f"{mname.replace('torchtree.', '')}::{scope}::buffers-carry-the-dtype-of-what-is-stored", where(m, fn), {'allocations': len(allocs)})
    rep.analysed['work_buffer_allocations'] = n
    return n


# ---------------------------------------------------------------------------
# constructor arguments that may be Python numbers, turned into tensors without a dtype and computed with in other methods
# ---------------------------------------------------------------------------
ATTR_POSITIVE = '''
class D:
    def __init__(self, alpha, beta: float, gamma: torch.Tensor, validate_args=None):
        self.alpha = torch.as_tensor(alpha)
        self.beta = torch.as_tensor(beta, dtype=torch.float64)
        self.gamma = torch.as_tensor(gamma)
    def log_prob(self, x):
        return self.alpha * torch.log(self.beta) + self.gamma + x
'''


def default_precision_attributes(cnode: ast.ClassDef):
    """(attribute, construction, use) for `self.A = torch.as_tensor(p)` / `torch.tensor(p)` in __init__ with p a constructor parameter that can be a Python number (annotated
    float / int / Number, or not annotated at all) and no dtype, where another method computes with self.A"""
    init = next((b for b in cnode.body if isinstance(b, ast.FunctionDef) and b.name == '__init__'), None)
    if init is None:
        return []
    ann = {a.arg: (ast.unparse(a.annotation) if a.annotation is not None else None) for a in init.args.args + init.args.kwonlyargs}
    out = []
    for st in ast.walk(init):
        if not (isinstance(st, ast.Assign) and isinstance(st.value, ast.Call) and (dotted_name(st.value.func) or '') in ('torch.as_tensor', 'torch.tensor') and st.value.args):
            continue
        c = st.value
        if any(k.arg == 'dtype' or k.arg is None for k in c.keywords) or len(c.args) > 1:
            continue
        a0 = c.args[0]
        if not (isinstance(a0, ast.Name) and a0.id in ann):
            continue
        an = ann[a0.id]
        numberish = an is None or any(k in an for k in ('float', 'int', 'Number')) and not any(k in an for k in ('Tensor', 'Parameter'))
        if not numberish:
            continue
        attrs = [t.attr for t in st.targets if isinstance(t, ast.Attribute) and isinstance(t.value, ast.Name) and t.value.id == 'self']
        for attr in attrs:
            for fn in [b for b in cnode.body if isinstance(b, ast.FunctionDef) and b.name != '__init__']:
                for x in ast.walk(fn):
                    operands = []
                    if isinstance(x, ast.BinOp) and isinstance(x.op, (ast.Add, ast.Sub, ast.Mult, ast.Div, ast.Pow)):
                        operands = [x.left, x.right]
                    elif isinstance(x, ast.Call) and (dotted_name(x.func) or '').startswith('torch.') and x.args:
                        operands = list(x.args)
                    if any(isinstance(o, ast.Attribute) and o.attr == attr and isinstance(o.value, ast.Name) and o.value.id == 'self' for o in operands):
                        out.append((attr, c, x))
                        break
                else:
                    continue
                break
    return out


def check_default_precision_attributes(ctx, rep, rule: str, modules: Iterable[str]) -> int:
    t = ast.parse(ATTR_POSITIVE)
    if [a for a, _, _ in default_precision_attributes(t.body[0])] != ['alpha']:
        raise AnalysisError('default-precision attribute self-check failed')
    n = 0
    for mname in modules:
        m = ctx.prog.module(mname)
        for cname, cnode in m.classes.items():
            n += 1
            for attr, c, use in default_precision_attributes(cnode):
                rep.bad(rule, f"{mname.replace('torchtree.', '')}::{cname}.__init__::self.{attr}::number-kept-at-the-requested-precision", where(m, c), {'use': norm_text(use)[:80]},
                        f"{cname}.__init__ turns the constructor argument into a tensor with `{norm_text(c)[:50]}`: a Python number becomes a float32 tensor (torch's default), and "
                        f"`{norm_text(use)[:60]}` then computes the constant terms of a double-precision density in single precision (errors of 1e-7 relative, growing with the "
                        f"size of the tree)")
    rep.ok(rule, f"{'+'.join(x.split('.')[-1] for x in modules)}::constructor-numbers-keep-their-precision", '', {'classes_scanned': n})
    return n
