"""C12.D: CumSumExpTransform.log_abs_det_jacobian used autograd.functional.jacobian without create_graph: the Jacobian term
that inference adds for cumulative-sum-exp parameterised population sizes (skyride) carried no gradient."""
import torch
from torchtree.distributions.transforms import CumSumExpTransform
t = CumSumExpTransform()
x = torch.tensor([0.3, -0.2, 0.8], requires_grad=True)
ld = t.log_abs_det_jacobian(x, t(x))
print('log-det', ld.item(), 'requires_grad', ld.requires_grad)
if not ld.requires_grad:
    print('FAIL: the log-Jacobian is detached from x'); raise SystemExit(1)
ld.backward()
want = torch.tensor([3.0, 2.0, 1.0])      # d/dx_j sum_i cumsum(x)_i
ok = torch.allclose(x.grad, want)
print('OK' if ok else f'FAIL gradient {x.grad.tolist()} vs {want.tolist()}')
xb = torch.tensor([[0.3, -0.2, 0.8], [0.1, 0.2, 0.3]])
ok = ok and torch.allclose(t.log_abs_det_jacobian(xb, t(xb)), xb.cumsum(-1).sum(-1))
raise SystemExit(0 if ok else 1)
