#!/venv/bin/python
"""setup: nothing to build (stdlib-only analysers); verify the tool chain is usable."""
import ast, json, os, sys
HERE = os.path.dirname(os.path.dirname(os.path.abspath(__file__)))
sys.path.insert(0, HERE)
import check  # noqa
os.makedirs(os.path.join(HERE, 'evidence', 'replay'), exist_ok=True)
print('setup ok: python', sys.version.split()[0])
