"""C08.I — the closed-form integral of every non-constant demographic model is the antiderivative of 1/N(t)
for the very N(t) whose logarithm the density adds at coalescent events; degenerate-case switches are exact.

The statements of log_prob that feed the interval integral and the log N term are evaluated into rational
functions over per-event atoms (h@0/h@1 = start/end of an interval) extended with exp(·) and log(·) atoms that
carry their argument.  For each piece I(h0, h1) of the integral the checker verifies, as identities,

        d I / d h1  ==  1 / N(h1)         and        I(h0, h0) == 0

(total derivative with d exp(p)/dh1 = p'·exp(p), d log(q)/dh1 = q'/q; equality of exp-polynomials by grouping
monomials with equal total exponent — distinct exponentials are linearly independent over rational functions).
A piece selected by a guard that forces a quantity to zero is checked in that limit instead; a guard that does
not force it (one-sided, or an absolute tolerance on a population-size difference, which breaks the scaling
law) leaves the general identity as the obligation.
"""
from __future__ import annotations

import ast
from fractions import Fraction
from typing import Dict, List, Optional, Tuple

from sa.loader import AnalysisError, Unsupported, dotted_name, norm_text
from sa.poly import Poly, Rat, p_add, p_const, p_mul, p_is_zero
from sa.report import where

MOD = 'torchtree.evolution.coalescent'

Piece = Tuple[Tuple[Tuple[str, bool], ...], Rat]   # ((guard text, polarity)…, value)


def method_name(call: ast.Call) -> str:
    return (dotted_name(call.func) or (call.func.attr if isinstance(call.func, ast.Attribute) else '')).split('.')[-1]


class Sym:
    def __init__(self):
        self.exps: Dict[str, Rat] = {}
        self.logs: Dict[str, Rat] = {}
        self.seq: set = set()
        self.n = 0

    # -- atoms ---------------------------------------------------------------
    def exp(self, arg: Rat) -> Rat:
        for name, a in self.exps.items():
            if a.equals(arg):
                return Rat.sym(name)
            if a.equals(-arg):
                return Rat.const(1) / Rat.sym(name)
        self.n += 1
        name = f"EXP#{self.n}"
        self.exps[name] = arg
        if arg.symbols() & self.seq:
            self.seq.add(name)
        return Rat.sym(name)

    def log(self, arg: Rat) -> Rat:
        for name, a in self.logs.items():
            if a.equals(arg):
                return Rat.sym(name)
        self.n += 1
        name = f"LOG#{self.n}"
        self.logs[name] = arg
        if arg.symbols() & self.seq:
            self.seq.add(name)
        return Rat.sym(name)

    def shift(self, r: Rat, k: int) -> Rat:
        """rename every per-event atom a -> a@k (function atoms get shifted arguments)"""
        out = r
        for s in sorted(r.symbols()):
            if s in self.seq and '@' not in s:
                out = out.subst(s, Rat.sym(self.shift_atom(s, k)))
        return out

    def shift_atom(self, s: str, k: int) -> str:
        name = f"{s}@{k}"
        if s in self.exps and name not in self.exps:
            self.exps[name] = self.shift(self.exps[s], k)
        if s in self.logs and name not in self.logs:
            self.logs[name] = self.shift(self.logs[s], k)
        return name

    # -- calculus --------------------------------------------------------------
    def total_diff(self, r: Rat, v: str, depth=0) -> Rat:
        out = r.diff(v)
        if depth > 4:
            return out
        for s in sorted(r.symbols()):
            if s in self.exps:
                inner = self.total_diff(self.exps[s], v, depth + 1)
                if not inner.is_zero():
                    out = out + r.diff(s) * Rat.sym(s) * inner
            elif s in self.logs:
                inner = self.total_diff(self.logs[s], v, depth + 1)
                if not inner.is_zero():
                    out = out + r.diff(s) * inner / self.logs[s]
        return out

    def subst_all(self, r: Rat, mapping: Dict[str, Rat]) -> Rat:
        """substitute ordinary atoms; function atoms whose argument changes are re-created (exp(0) = 1, log(1) = 0)"""
        out = r
        for s in sorted(r.symbols()):
            if s in self.exps:
                a = self.subst_all(self.exps[s], mapping)
                if not a.equals(self.exps[s]):
                    out = out.subst(s, Rat.const(1) if a.is_zero() else self.exp(a))
            elif s in self.logs:
                a = self.subst_all(self.logs[s], mapping)
                if not a.equals(self.logs[s]):
                    out = out.subst(s, Rat.const(0) if a.equals(Rat.const(1)) else self.log(a))
        for k, v in mapping.items():
            out = out.subst(k, v)
        return out

    def equal(self, a: Rat, b: Rat) -> bool:
        """identity of exp-polynomials: group the monomials of a.num*b.den − b.num*a.den by total exponent"""
        P = p_add(p_mul(a.num, b.den), {m: -c for m, c in p_mul(b.num, a.den).items()})
        groups: Dict[frozenset, Poly] = {}
        for mono, c in P.items():
            expo = Rat.const(0)
            rest = []
            for s, p in mono:
                if s in self.exps:
                    expo = expo + self.exps[s] * p
                else:
                    rest.append((s, p))
            # canonical key of the exponent (a polynomial up to a constant denominator)
            if len(expo.den) != 1 or () not in expo.den:
                raise Unsupported(None, 'exponent is not a polynomial')
            d = expo.den[()]
            key = frozenset((m, cc / d) for m, cc in expo.num.items())
            g = groups.setdefault(key, {})
            mm = tuple(rest)
            v = g.get(mm, 0) + c
            if v == 0:
                g.pop(mm, None)
            else:
                g[mm] = v
        return all(p_is_zero(g) for g in groups.values())


# ---------------------------------------------------------------------------
# evaluation of the statements of a log_prob
# ---------------------------------------------------------------------------
SLICES = {'1:': 1, ':-1': 0, '2:': 1, '1:-1': 0}
PASS_METHODS = ('expand', 'clone', 'squeeze', 'unsqueeze', 'contiguous', 'to', 'detach', 'reshape', 'view', 'expand_as', 'float', 'double')


def with_guard(g, item):
    """g + item, or None when g already holds the opposite polarity"""
    for t, p in g:
        if t == item[0]:
            return g if p == item[1] else None
    return g + (item,)


class Body:
    def __init__(self, fn: ast.FunctionDef, sym: Sym, preset: Dict[str, Rat], self_atoms: Dict[str, Rat]):
        self.fn, self.sym, self.preset, self.self_atoms = fn, sym, preset, self_atoms
        self.assigns: Dict[str, List[ast.stmt]] = {}
        for st in ast.walk(fn):
            if isinstance(st, ast.Assign) and len(st.targets) == 1:
                t = st.targets[0]
                if isinstance(t, ast.Name):
                    self.assigns.setdefault(t.id, []).append(st)
                elif isinstance(t, ast.Subscript) and isinstance(t.value, ast.Name):
                    self.assigns.setdefault(t.value.id, []).append(st)
        self.memo: Dict[str, List[Piece]] = {}
        self.guards: Dict[str, ast.AST] = {}

    # -- helpers -----------------------------------------------------------------
    def lift(self, a: List[Piece], b: List[Piece], op) -> List[Piece]:
        out = []
        for ga, va in a:
            for gb, vb in b:
                g = tuple(dict.fromkeys(ga + gb))
                pol = {}
                ok = True
                for t, p in g:
                    if pol.setdefault(t, p) != p:
                        ok = False
                if ok:
                    out.append((g, op(va, vb)))
        return out

    def opaque(self, e, seq=True) -> List[Piece]:
        name = 'OPQ:' + norm_text(e)[:60]
        if seq:
            self.sym.seq.add(name)
        return [((), Rat.sym(name))]

    def guard_of_index(self, idx_name: str, before: int) -> Optional[ast.AST]:
        """idx = (cond).nonzero(as_tuple=True)  →  cond   (the definition in force at line `before`)"""
        best = None
        for st in self.assigns.get(idx_name, []):
            v = st.value
            if st.lineno < before and isinstance(st.targets[0], ast.Name) and isinstance(v, ast.Call) and method_name(v) == 'nonzero' and isinstance(v.func, ast.Attribute):
                if best is None or st.lineno > best.lineno:
                    best = st
        return best.value.func.value if best is not None else None

    # -- expressions ---------------------------------------------------------------
    def name(self, n: str) -> List[Piece]:
        if n in self.preset:
            return [((), self.preset[n])]
        if n in self.memo:
            return self.memo[n]
        sts = self.assigns.get(n)
        if not sts:
            return [((), Rat.sym('VAR:' + n))]
        self.memo[n] = [((), Rat.sym('REC:' + n))]
        cur: Optional[List[Piece]] = None
        for st in sorted(sts, key=lambda s: s.lineno):
            t = st.targets[0]
            if isinstance(t, ast.Name):
                cur = self.value(st.value)
            elif cur is not None:
                # name[idx] = rhs   with idx = (cond).nonzero(…): piecewise on cond
                sl = t.slice
                cond = self.guard_of_index(sl.id, st.lineno) if isinstance(sl, ast.Name) else None
                if cond is None:
                    raise Unsupported(st, f"indexed store into {n} not understood")
                gt = norm_text(cond)
                self.guards[gt] = cond
                rhs = self.value(st.value)
                cur = [(with_guard(g, (gt, True)), v) for g, v in rhs if with_guard(g, (gt, True)) is not None] + \
                      [(with_guard(g, (gt, False)), v) for g, v in cur if with_guard(g, (gt, False)) is not None]
        if cur is None:
            raise Unsupported(sts[0], f"{n} is only ever stored into")
        self.memo[n] = cur
        return cur

    def value(self, e) -> List[Piece]:
        S = self.sym
        if isinstance(e, ast.Constant) and isinstance(e.value, (int, float)) and not isinstance(e.value, bool):
            return [((), Rat.const(Fraction(str(e.value))))]
        if isinstance(e, ast.Name):
            return self.name(e.id)
        if isinstance(e, ast.Attribute):
            if isinstance(e.value, ast.Name) and e.value.id == 'self' and e.attr in self.self_atoms:
                return [((), self.self_atoms[e.attr])]
            if e.attr == 'tensor':
                return self.value(e.value)
            return self.opaque(e, seq=False)
        if isinstance(e, ast.UnaryOp) and isinstance(e.op, ast.USub):
            return [(g, -v) for g, v in self.value(e.operand)]
        if isinstance(e, ast.BinOp):
            a, b = self.value(e.left), self.value(e.right)
            if isinstance(e.op, ast.Add):
                return self.lift(a, b, lambda x, y: x + y)
            if isinstance(e.op, ast.Sub):
                return self.lift(a, b, lambda x, y: x - y)
            if isinstance(e.op, ast.Mult):
                return self.lift(a, b, lambda x, y: x * y)
            if isinstance(e.op, ast.Div):
                return self.lift(a, b, lambda x, y: x / y)
            raise Unsupported(e, 'operator')
        if isinstance(e, ast.Compare):
            return self.opaque(e)
        if isinstance(e, ast.Call):
            n = method_name(e)
            recv = e.func.value if isinstance(e.func, ast.Attribute) and not (isinstance(e.func.value, ast.Name) and e.func.value.id == 'torch') else None
            arg0 = recv if recv is not None else (e.args[0] if e.args else None)
            if n == 'exp' and arg0 is not None:
                return [(g, S.exp(v)) for g, v in self.value(arg0)]
            if n == 'log' and arg0 is not None:
                return [(g, S.log(v)) for g, v in self.value(arg0)]
            if n == 'where' and len(e.args) == 3:
                cond = e.args[0]
                if isinstance(cond, ast.Name):
                    for st in self.assigns.get(cond.id, []):
                        if isinstance(st.targets[0], ast.Name):
                            cond = st.value
                gt = norm_text(cond)
                self.guards[gt] = cond
                return [(with_guard(g, (gt, True)), v) for g, v in self.value(e.args[1]) if with_guard(g, (gt, True)) is not None] + \
                       [(with_guard(g, (gt, False)), v) for g, v in self.value(e.args[2]) if with_guard(g, (gt, False)) is not None]
            if n in PASS_METHODS and recv is not None:
                return self.value(recv)
            if n in ('ones_like',):
                return [((), Rat.const(1))]
            if n in ('zeros_like',):
                return [((), Rat.const(0))]
            return self.opaque(e)
        if isinstance(e, ast.Subscript):
            sl = e.slice
            elts = sl.elts if isinstance(sl, ast.Tuple) else [sl]
            if isinstance(sl, ast.Name):
                return self.value(e.value)          # x[idx] under the guard that defines idx
            if len(elts) == 2 and isinstance(elts[0], ast.Constant) and elts[0].value is Ellipsis and isinstance(elts[1], ast.Slice):
                txt = ast.unparse(elts[1])
                if txt in SLICES:
                    return [(g, S.shift(v, SLICES[txt])) for g, v in self.value(e.value)]
            return self.opaque(e, seq=False)
        raise Unsupported(e, f"expression {norm_text(e)[:50]} not understood")


# ---------------------------------------------------------------------------
# guards
# ---------------------------------------------------------------------------
def classify_guard(cond: ast.AST) -> Tuple[str, Optional[ast.AST], bool]:
    """(kind, tested expression, absolute_tolerance): kind in zero / nonzero / one-sided / unknown"""
    if isinstance(cond, ast.Compare) and len(cond.ops) == 1:
        l, r, op = cond.left, cond.comparators[0], cond.ops[0]

        def is_abs(x):
            return isinstance(x, ast.Call) and method_name(x) == 'abs'

        def inner(x):
            return x.func.value if isinstance(x.func, ast.Attribute) and not (isinstance(x.func.value, ast.Name) and x.func.value.id == 'torch') else x.args[0]
        zero = isinstance(r, ast.Constant) and isinstance(r.value, (int, float)) and float(r.value) == 0.0
        const = isinstance(r, ast.Constant) and isinstance(r.value, (int, float))
        if zero and isinstance(op, ast.Eq):
            return 'zero', (inner(l) if is_abs(l) else l), False
        if zero and isinstance(op, ast.NotEq):
            return 'nonzero', (inner(l) if is_abs(l) else l), False
        if is_abs(l) and isinstance(op, (ast.Lt, ast.LtE)):
            return 'zero', inner(l), const
        if is_abs(l) and isinstance(op, (ast.Gt, ast.GtE)):
            return 'nonzero', inner(l), const
        if isinstance(op, (ast.Lt, ast.LtE, ast.Gt, ast.GtE)):
            return 'one-sided', l, const
    return 'unknown', None, False


# ---------------------------------------------------------------------------
# the obligations
# ---------------------------------------------------------------------------
def check_model(rep, cls, fn, sym: Sym, body: Body, integral_name: str, N1: Rat, label: str, rate_atoms: Dict[str, str], size_guard_exprs=(), post=None):
    W = where(cls.module, fn)
    pieces = body.name(integral_name)
    # the integral of an interval: per-interval value (already carries @0/@1 atoms)
    for guards, I in pieces:
        gtxt = ' & '.join(('' if pol else 'not ') + t for t, pol in guards) or 'always'
        key = f"{label}::{gtxt[:70]}"
        facts = {'integral': repr(I)[:300], 'N_at_end': repr(N1)[:200], 'guards': gtxt}
        try:
            dI = sym.total_diff(I, 'h@1')
            general = sym.equal(dI * N1, Rat.const(1))
            try:
                zero_len = sym.equal(sym.subst_all(I, {'h@1': Rat.sym('h@0')}), Rat.const(0))
            except ZeroDivisionError:
                zero_len = True      # 0/0 at the empty interval (removable): the derivative identity below is what decides
        except Unsupported as u:
            rep.undecided('C08.I', key, W, str(u), facts)
            continue
        if general and zero_len:
            rep.ok('C08.I', key + '::antiderivative-of-1/N', W, facts)
            continue
        # a piece used only where a quantity vanishes: check the identity in that limit
        decided = False
        for t, pol in guards:
            kind, expr, abs_tol = classify_guard(body.guards[t])
            if kind == 'unknown':
                continue
            eff = kind if pol else {'zero': 'nonzero', 'nonzero': 'zero', 'one-sided': 'one-sided'}[kind]
            if eff != 'zero':
                continue
            tested = body.value(expr)
            if len(tested) != 1:
                continue
            z = tested[0][1]
            if post is not None:
                z = post(z)
            zs = sorted(z.symbols())
            is_size = any(s in norm_text(expr) for s in size_guard_exprs)
            if abs_tol and is_size:
                rep.bad('C08.I', key + '::degenerate-case-switch-is-scale-free', W, {**facts, 'guard': t},
                        f"{label}: the constant-size fallback is selected by `{t}`, an absolute tolerance on a population-size difference: after scaling times "
                        f"and sizes by a small c every piece falls under the tolerance and the integral is computed with the wrong formula, so the density no "
                        f"longer shifts by −(n−1)·log c")
                decided = True
                break
            # the limit: set the tested quantity to zero by eliminating one of its atoms
            lim = None
            cands = []
            for s_ in zs:
                try:
                    if z.subst(s_, Rat.const(0)).is_zero():
                        cands.append(s_)
                except ZeroDivisionError:
                    pass
            cands.sort(key=lambda a: (a.startswith('h@'), a))
            if cands:
                lim = {cands[0]: Rat.const(0)}
            else:
                # tested difference a − b = 0: substitute a := b
                for s_ in zs:
                    if z.diff(s_).equals(Rat.const(1)):
                        lim = {s_: Rat.sym(s_) - z}
                        break
            if lim is None:
                continue
            try:
                ok = sym.equal(sym.subst_all(dI * N1, lim), Rat.const(1)) and zero_len
            except Unsupported:
                continue
            rep.check('C08.I', key + '::antiderivative-of-1/N-in-the-guarded-limit', ok, W, {**facts, 'limit': {k: repr(v) for k, v in lim.items()}},
                      f"{label}: under `{t}` the integral piece {repr(I)[:120]} has dI/dh₁·N(h₁) = {repr(sym.subst_all(dI * N1, lim))[:120]} ≠ 1: it is not the integral "
                      f"of 1/N over the interval for the N(t) whose logarithm is added at coalescent events")
            decided = True
            break
        if decided:
            continue
        one_sided = [t for t, pol in guards if classify_guard(body.guards[t])[0] == 'one-sided']
        why = (f"{label}: the integral piece {repr(I)[:140]} is not the antiderivative of 1/N(t): d/dh₁ gives {repr(dI)[:120]} but 1/N(h₁) = {repr(Rat.const(1) / N1)[:120]}"
               + (f"; the guard `{one_sided[0]}` is one-sided and does not confine the piece to the degenerate case" if one_sided else '')
               + ('' if zero_len else '; the integral of an empty interval is not zero'))
        rep.bad('C08.I', key + '::antiderivative-of-1/N', W, facts, why)


def check_exponential(ctx, rep):
    cls = ctx.classes.get(f"{MOD}.ExponentialCoalescent")
    fn = cls.resolve('log_prob')[1]
    sym = Sym()
    sym.seq |= {'h', 'm'}
    preset = {'heights_sorted': Rat.sym('h'), 'node_mask_sorted': Rat.sym('m'), 'lineage_count': Rat.sym('k'), 'lchoose2': Rat.sym('c')}
    for needed in ('heights_sorted', 'lchoose2'):
        if not any(isinstance(st, ast.Assign) and isinstance(st.targets[0], ast.Name) and st.targets[0].id == needed for st in ast.walk(fn)):
            raise Unsupported(fn, f"ExponentialCoalescent.log_prob: `{needed}` not found")
    body = Body(fn, sym, preset, {'theta': Rat.sym('theta'), 'growth': Rat.sym('g')})
    rets = [n for n in ast.walk(fn) if isinstance(n, ast.Return)]
    if len(rets) != 1 or not (isinstance(rets[0].value, ast.Call) and method_name(rets[0].value) == 'sum'):
        raise Unsupported(fn, 'return torch.sum(…) expected')
    summand = body.value(rets[0].value.args[0])
    # N(h1): the argument of the log atom at the interval end
    logs1 = sorted({s for _, v in summand for s in v.symbols() if s in sym.logs and s.endswith('@1')})
    if len(logs1) != 1:
        raise Unsupported(fn, f"expected one log N term at the interval end, found {logs1}")
    N1 = sym.logs[logs1[0]]
    # the integral is the coefficient of −C(k,2)
    integral_var = None
    for st in ast.walk(fn):
        if isinstance(st, ast.Assign) and isinstance(st.targets[0], ast.Name) and st.targets[0].id == 'integral':
            integral_var = 'integral'
    for g, v in summand:
        coeff = -v.diff('c')
        ok = any(sym.equal(coeff, iv) for gg, iv in body.name('integral') if set(gg) <= set(g) or not gg) if integral_var else False
        if not ok:
            raise Unsupported(fn, 'the factor of −C(k,2) in the summand is not `integral`')
    check_model(rep, cls, fn, sym, body, 'integral', N1, 'ExponentialCoalescent', {'g': 'rate'})


def check_linear(ctx, rep):
    cls = ctx.classes.get(f"{MOD}.PiecewiseLinearCoalescentGrid")
    fn = cls.resolve('log_prob')[1]
    sym = Sym()
    sym.seq |= {'h', 'P'}
    # N is linear inside a piece:  P@1 = P@0 + s·(h@1 − h@0); log_pop_sizes = pop_sizes.log()
    preset = {'grid_heights_sorted': Rat.sym('h'), 'pop_sizes': Rat.sym('P'), 'lchoose2': Rat.sym('c')}
    body = Body(fn, sym, preset, {})
    lp = [st for st in ast.walk(fn) if isinstance(st, ast.Assign) and isinstance(st.targets[0], ast.Name) and st.targets[0].id == 'log_pop_sizes']
    if len(lp) != 1 or norm_text(lp[0].value) not in ('pop_sizes.log()', 'torch.log(pop_sizes)'):
        raise Unsupported(fn, 'log_pop_sizes = pop_sizes.log() expected')
    pieces = body.name('integral')
    P1 = Rat.sym('P@0') + Rat.sym('s') * (Rat.sym('h@1') - Rat.sym('h@0'))
    # impose linearity: every occurrence of P@1 (also inside log atoms) becomes P@0 + s·Δh
    new = []
    for g, v in pieces:
        new.append((g, sym.subst_all(v, {'P@1': P1})))
    body.memo['integral'] = new
    # the log N term must be read from the same pop_sizes
    li = [st for st in ast.walk(fn) if isinstance(st, ast.Assign) and isinstance(st.targets[0], ast.Name) and st.targets[0].id == 'log_pop_sizes_internal']
    same = len(li) == 1 and norm_text(li[0].value).startswith('log_pop_sizes[')
    rep.check('C08.I', 'PiecewiseLinearCoalescentGrid::log-N-read-from-the-same-population-sizes', same, where(cls.module, fn), None,
              "the log N term at coalescent events must be read from the same pop_sizes vector the integral uses")
    check_model(rep, cls, fn, sym, body, 'integral', P1, 'PiecewiseLinearCoalescentGrid', {}, size_guard_exprs=('diff_thetas', 'pop_sizes', 'thetas'),
                post=lambda z: sym.subst_all(z, {'P@1': P1}))


def check_piecewise_exponential(ctx, rep):
    cls = ctx.classes.get(f"{MOD}.PiecewiseExponentialCoalescentGrid")
    fn = cls.resolve('log_prob')[1]
    sym = Sym()
    sym.seq |= {'h'}
    # inside one piece: growth rate g, piece start G0, log population size at the piece start Lp
    preset = {'grid_heights_sorted': Rat.sym('h'), 'growth_intervals': Rat.sym('g'), 'lchoose2': Rat.sym('c'), 'thetas': Rat.sym('theta'),
              'internal_heights': Rat.sym('h@1')}
    body = Body(fn, sym, preset, {'theta': Rat.sym('theta')})

    # log N at the end of the interval: log_pop_sizes, with gathers at the interval's piece made atoms
    class G(Body):
        def value(self, e):
            if isinstance(e, ast.Call) and method_name(e) == 'gather' and isinstance(e.func, ast.Attribute):
                base = norm_text(e.func.value)
                table = {'log_pop_size_grid': Rat.sym('Lp'), 'growth': Rat.sym('g'), 'grid0': Rat.sym('G0'), 'grid': Rat.sym('G0')}
                if base in table:
                    return [((), table[base])]
            return super().value(e)
    body.__class__ = G
    logN = body.name('log_pop_sizes')
    if len(logN) != 1:
        raise Unsupported(fn, 'log_pop_sizes is piecewise')
    N1 = sym.exp(logN[0][1])
    check_model(rep, cls, fn, sym, body, 'integral', N1, 'PiecewiseExponentialCoalescentGrid', {'g': 'rate'})


def check_integrals(ctx, rep):
    for f in (check_exponential, check_linear, check_piecewise_exponential):
        try:
            f(ctx, rep)
        except Unsupported as u:
            rep.undecided('C08.I', f.__name__, f"line {getattr(u.node, 'lineno', 0)}", str(u))


# ---------------------------------------------------------------------------
# C08.M — sampling multiplicities are counted per tree, not pooled over the batch
# ---------------------------------------------------------------------------
def check_multiplicities(ctx, rep):
    m = ctx.prog.module(MOD)
    n = 0
    for cname, cnode in sorted(m.classes.items()):
        for fn in [b for b in cnode.body if isinstance(b, ast.FunctionDef)]:
            for c in ast.walk(fn):
                if not (isinstance(c, ast.Call) and method_name(c) == 'unique'):
                    continue
                kw = {k.arg: k.value for k in c.keywords}
                if not (isinstance(kw.get('return_counts'), ast.Constant) and kw['return_counts'].value is True):
                    continue
                n += 1
                recv = c.func.value if isinstance(c.func, ast.Attribute) and not (isinstance(c.func.value, ast.Name) and c.func.value.id == 'torch') else (c.args[0] if c.args else None)
                dim = kw.get('dim')
                along_last = dim is not None and ast.unparse(dim) == '-1'
                # 1-D by construction: x.flatten()[:k], x.reshape(-1)[:k], x.view(-1)[:k], x[0, :k] …
                one_d = False
                e = recv
                if isinstance(e, ast.Subscript):
                    base = e.value
                    elts = e.slice.elts if isinstance(e.slice, ast.Tuple) else [e.slice]
                    if isinstance(base, ast.Call) and method_name(base) in ('flatten', 'ravel') and not base.args:
                        one_d = True
                    elif isinstance(base, ast.Call) and method_name(base) in ('reshape', 'view') and len(base.args) == 1 and ast.unparse(base.args[0]) == '-1':
                        one_d = True
                    elif not any(isinstance(x, ast.Constant) and x.value is Ellipsis for x in elts) and all(
                            isinstance(x, ast.Constant) and isinstance(x.value, int) for x in elts[:-1]) and len(elts) > 1:
                        one_d = True
                elif isinstance(e, ast.Call) and method_name(e) in ('flatten', 'ravel'):
                    one_d = False   # every batch row flattened together
                rep.check('C08.M', f"{cname}.{fn.name}::tip-multiplicities-counted-per-tree", along_last or one_d, where(m, c),
                          {'input': norm_text(recv)[:80] if recv is not None else None, 'dim': ast.unparse(dim) if dim is not None else None},
                          f"{cname}.{fn.name}: `{norm_text(c)[:80]}` counts equal sampling times over every batch row at once: with B batched height vectors each "
                          f"multiplicity is B times too large, so the lineage count and the density are wrong for batched input")
    if n < 2:
        raise AnalysisError(f"only {n} multiplicity counts found in coalescent.py")
