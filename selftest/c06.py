from sa.selftest import Mut

TM = 'torchtree/evolution/tree_model.py'
TH = 'torchtree/evolution/tree_height_transform.py'

def T(id, file, old, new, expect=None, benign=False):
    return Mut(id, file, '', old, new, expect=expect, benign=benign, mode='text')

CORPUS = [
    Mut('c06-cpu-original', TM, 'ReparameterizedTimeTreeModel.cpu', 'self.transform = type(self.transform)(self)', 'self.transform = GeneralNodeHeightTransform(self)',
        expect=[('C06.D', 'ReparameterizedTimeTreeModel.cpu::self.transform')]),
    Mut('c06-cuda-difference', TM, 'ReparameterizedTimeTreeModel.cuda', 'self.transform = type(self.transform)(self)', 'self.transform = DifferenceNodeHeightTransform(self)',
        expect=[('C06.D', 'ReparameterizedTimeTreeModel.cuda::self.transform')]),
    T('c06-preorder-swapped', TM, "                (node.parent_node.index, node.index)\n", "                (node.index, node.parent_node.index)\n", expect=[('C06.R', 'rows-are-(parent,child)')]),
    T('c06-sorted-by-parent', TM, "self.indices_sorted = self.preorder[torch.argsort(self.preorder[:, 1])].t()", "self.indices_sorted = self.preorder[torch.argsort(self.preorder[:, 0])].t()",
      expect=[('C06.R', 'sorted-by-child')]),
    T('c06-branch-length-sign', TM, "                heights[..., self.indices_sorted[0]]\n                - heights[..., self.indices_sorted[1]]", "                heights[..., self.indices_sorted[1]]\n                - heights[..., self.indices_sorted[0]]",
      expect=[('C06.R', 'TimeTreeModel.branch_lengths::parent-minus-child')]),
    Mut('c06-forward-roles', TH, 'GeneralNodeHeightTransform._call', 'for parent_id, id_ in self._forward_indices:…', None),
    T('c06-inverse-roles', TH, "                        indices[0, self.taxa_count :] - self.taxa_count,\n                    ]\n                    - bounds\n                ),\n                y[..., -1:],",
      "                        indices[1, self.taxa_count :] - self.taxa_count,\n                    ]\n                    - bounds\n                ),\n                y[..., -1:],", expect=[('C06.R', 'GeneralNodeHeightTransform._inverse::child-over-parent')]),
    T('c06-inverse-bound-of-parent', TH, "        bounds = self._bounds[indices[1, self.taxa_count :]]", "        bounds = self._bounds[indices[0, self.taxa_count :]]", expect=[('C06.R', 'GeneralNodeHeightTransform._inverse::child-over-parent')]),
    Mut('c06-forward-not-convex', TH, 'GeneralNodeHeightTransform._call', 'heights[..., id_] = bounds[id_] + x[..., id_] * (heights[..., parent_id] - bounds[id_])',
        'heights[..., id_] = bounds[id_] + x[..., id_] * heights[..., parent_id]', expect=[('C06.F', 'forward-is-convex-combination'), ('C06.F', 'inverse∘forward=identity')]),
    T('c06-bounds-min', TH, "                left_height if left_height > right_height else right_height", "                left_height if left_height < right_height else right_height", expect=[]),
    T('c06-node-heights-order', TM, "                (\n                    self.sampling_times.expand(\n                        self._internal_heights.tensor.shape[:-1] + (-1,)\n                    ),\n                    self._internal_heights.tensor,\n                ),\n                -1,\n            )\n            self.heights_need_update = False",
      "                (\n                    self._internal_heights.tensor,\n                    self.sampling_times.expand(\n                        self._internal_heights.tensor.shape[:-1] + (-1,)\n                    ),\n                ),\n                -1,\n            )\n            self.heights_need_update = False",
      expect=[('C06.F', 'TimeTreeModel.node_heights::tips-at-sampling-times')]),
    T('c06-shift-inverse-max-over-batch', TH, "                x[node - self.taxa_count] = heights[node] - torch.max(\n                    heights[left], heights[right]\n                )",
      "                x[node - self.taxa_count] = heights[node] - torch.max(\n                    torch.cat((heights[left], heights[right]), -1)\n                )", expect=[('C06.S', '_inverse::k≤0')]),
    T('c06-shift-inverse-one-child', TH, "                x[node - self.taxa_count] = heights[node] - torch.max(\n                    heights[left], heights[right]\n                )",
      "                x[node - self.taxa_count] = heights[node] - torch.max(\n                    heights[left], heights[left]\n                )", expect=[('C06.S', '_inverse::k≤0')]),
    T('c06-shift-inverse-smooth-unscaled', TH, "                    / self.k\n", "                    / 1.0\n", expect=[('C06.S', '_inverse::k>0')]),
    T('c06-shift-forward-keepdim', TH, "            self.max = lambda input: torch.max(input, dim=-1, keepdim=True)[0]", "            self.max = lambda input: torch.max(input)", expect=[('C06.S', '_call::k≤0')]),
    T('c06-shift-forward-wrong-increment', TH, "                + x[..., node - self.taxa_count : (node - self.taxa_count + 1)]", "                + x[..., node - self.taxa_count - 1 : (node - self.taxa_count)]", expect=[('C06.S', '_call::k')]),
    T('c06-shift-regimes-swapped', TH, "        if self.k > 0:\n            for node, left, right in self.tree.postorder:", "        if self.k <= 0:\n            for node, left, right in self.tree.postorder:", expect=[('C06.S', '_inverse::k')]),
    T('c06-benign-shift-inverse-cat-form', TH, "                x[node - self.taxa_count] = heights[node] - torch.max(\n                    heights[left], heights[right]\n                )",
      "                x[node - self.taxa_count] = heights[node] - torch.max(\n                    torch.cat((heights[left], heights[right]), -1), dim=-1, keepdim=True\n                )[0]", benign=True),
    T('c06-benign-shift-maximum', TH, "                x[node - self.taxa_count] = heights[node] - torch.max(\n                    heights[left], heights[right]\n                )",
      "                x[node - self.taxa_count] = heights[node] - torch.maximum(\n                    heights[right], heights[left]\n                )", benign=True),
    Mut('c06-benign-guarded-choice', TM, 'ReparameterizedTimeTreeModel.cpu', 'self.transform = type(self.transform)(self)',
        'if isinstance(self.transform, GeneralNodeHeightTransform):\n    self.transform = GeneralNodeHeightTransform(self)\nelse:\n    self.transform = DifferenceNodeHeightTransform(self)', benign=True),
    T('c06-branch-lengths-share-the-heights-flag', TM, "        if self.branch_lengths_need_update:\n            heights = self.node_heights\n", "        if self.heights_need_update or self._branch_lengths is None:\n            heights = self.node_heights\n",
      expect=[('C06.H', 'flags::')]),
    T('c06-benign-branch-flag-renamed-test', TM, "        if self.branch_lengths_need_update:\n            heights = self.node_heights\n", "        if self.branch_lengths_need_update is True:\n            heights = self.node_heights\n", benign=True),
    T('c06-transform-cache-on', TH, "    def __init__(self, tree: 'TimeTreeModel', cache_size=0) -> None:  # noqa: F821\n        super().__init__(cache_size=cache_size)\n        self.tree = tree\n        self.taxa_count",
      "    def __init__(self, tree: 'TimeTreeModel', cache_size=1) -> None:  # noqa: F821\n        super().__init__(cache_size=cache_size)\n        self.tree = tree\n        self.taxa_count", expect=[('C06.H', 'transform-cache::')]),
    T('c06-leaf-heights-in-default-precision', TM, "        self.sampling_times = torch.tensor(leaf_heights)", "        self.sampling_times = torch.tensor(leaf_heights) - 0.0", expect=[('C06.T', 'TimeTreeModel.update_leaf_heights')]),
    T('c06-benign-leaf-heights-explicit-dtype', TM, "        self.sampling_times = torch.tensor(leaf_heights)", "        self.sampling_times = torch.tensor(leaf_heights, dtype=torch.float64) - 0.0", benign=True),
]
for m in CORPUS:
    if m.id == 'c06-forward-roles':
        m.mode = 'text'
        m.old = "        for parent_id, id_ in self._forward_indices:"
        m.new = "        for id_, parent_id in self._forward_indices:"
        m.expect = [('C06.R', 'GeneralNodeHeightTransform._call::(parent,child)-loop')]
    if m.id == 'c06-bounds-min':
        m.expect = [('C06.F', 'update_bounds')]
CORPUS += [
    Mut('c06-nonpositive-dates-treated-as-isochronous', 'torchtree/evolution/tree_model.py', '', "    if max_date != 0.0 or min(dates) != 0.0:\n", "    if max_date != 0.0:\n", mode='text',
        expect=[('C06.C', 'initialize_dates_from_taxa::dates ≤ 0 with the most recent one exactly 0')], note='the state of the tree before 8fdde1f'),
    Mut('c06-sampling-times-always-flipped', 'torchtree/evolution/tree_model.py', 'TimeTreeModel.update_leaf_heights', 'if min(dates) == 0.0:…',
        "for idx, taxon in enumerate(self._taxa):\n    leaf_heights[idx] = max_date - taxon['date']", expect=[('C06.C', 'TimeTreeModel.update_leaf_heights::earliest date zero (ages)')]),
    Mut('c06-benign-date-test-written-the-other-way-round', 'torchtree/evolution/tree_model.py', 'TimeTreeModel.update_leaf_heights', 'if min(dates) == 0.0:…',
        "if min(dates) != 0.0:\n    for idx, taxon in enumerate(self._taxa):\n        leaf_heights[idx] = max_date - taxon['date']\nelse:\n    for idx, taxon in enumerate(self._taxa):\n        leaf_heights[idx] = taxon['date']", benign=True),
]
CORPUS += [
    Mut('c06-inverse-of-the-difference-transform-for-the-hard-maximum-only', 'torchtree/evolution/tree_height_transform.py', 'DifferenceNodeHeightTransform._inverse', 'if self.k > 0:…',
        "for node, left, right in self.tree.postorder:\n    x[node - self.taxa_count] = heights[node] - torch.max(heights[left], heights[right])",
        expect=[('C06.S', 'DifferenceNodeHeightTransform._inverse::distinguishes-the-regimes-of-the-forward-map')]),
    Mut('c06-internal-heights-refreshed-apart-from-the-node-heights', 'torchtree/evolution/tree_model.py', 'ReparameterizedTimeTreeModel._call', 'if self.heights_need_update:…',
        "if self.heights_need_update:\n    self._heights = self.transform(self._internal_heights.tensor)\n    self.heights_need_update = False",
        expect=[('C06.H', 'flags::')]),
]
_ULH_OLD = """        leaf_heights = [None] * len(self._taxa)

        dates = [taxon['date'] for taxon in self._taxa]
        max_date = max(dates)

        # time starts at 0
        if min(dates) == 0.0:
            for idx, taxon in enumerate(self._taxa):
                leaf_heights[idx] = taxon['date']
        # time is a year
        else:
            for idx, taxon in enumerate(self._taxa):
                leaf_heights[idx] = max_date - taxon['date']

        self.sampling_times = torch.tensor(leaf_heights)
"""
CORPUS += [
    Mut('c06-tensor-form-any-date-zero', 'torchtree/evolution/tree_model.py', '', _ULH_OLD,
        "        dates = torch.tensor([taxon['date'] for taxon in self._taxa], dtype=torch.float64)\n        if torch.any(dates == 0.0):\n            self.sampling_times = dates\n        else:\n            self.sampling_times = dates.max() - dates\n",
        mode='text', expect=[('C06.C', 'TimeTreeModel.update_leaf_heights::dates ≤ 0 with the most recent one exactly 0')]),
    Mut('c06-benign-tensor-form-earliest-date-zero', 'torchtree/evolution/tree_model.py', '', _ULH_OLD,
        "        dates = torch.tensor([taxon['date'] for taxon in self._taxa], dtype=torch.float64)\n        if dates.min() == 0.0:\n            self.sampling_times = dates\n        else:\n            self.sampling_times = dates.max() - dates\n",
        mode='text', benign=True),
]
CORPUS += [
    Mut('c06-benign-smooth-max-as-a-method-call', 'torchtree/ops/smooth.py', '', "    return torch.logsumexp(tensor * k, dim=dim, keepdim=keepdim) / k\n", "    return (k * tensor).logsumexp(dim, keepdim=keepdim) / k\n", mode='text', benign=True),
    Mut('c06-smooth-max-not-divided-back', 'torchtree/ops/smooth.py', '', "    return torch.logsumexp(tensor * k, dim=dim, keepdim=keepdim) / k\n", "    return torch.logsumexp(tensor * k, dim=dim, keepdim=keepdim)\n", mode='text',
        expect=[('C06.S', 'smooth_max::logsumexp(k·x)/k-along-dim')]),
    Mut('c06-benign-increment-picked-and-unsqueezed', TH, '', "                + x[..., node - self.taxa_count : (node - self.taxa_count + 1)]", "                + x[..., node - self.taxa_count].unsqueeze(-1)", mode='text', benign=True),
    Mut('c06-increment-of-the-next-node', TH, '', "                + x[..., node - self.taxa_count : (node - self.taxa_count + 1)]", "                + x[..., node - self.taxa_count + 1 : (node - self.taxa_count + 2)]", mode='text',
        expect=[('C06.S', 'DifferenceNodeHeightTransform._call::')]),
]
CORPUS += [
    Mut('c06-difference-transform-configured-in-the-constructor-only', TM, '', "            self.transform = DifferenceNodeHeightTransform(self)\n        self._heights = None\n",
        "            self.transform = DifferenceNodeHeightTransform(self, 0.5)\n        self._heights = None\n", mode='text', expect=[('C06.S', 'ReparameterizedTimeTreeModel.cuda::self.transform-rebuilt-as-configured')]),
    Mut('c06-concatenated-parameter-swallows-events-while-dirty', 'torchtree/core/parameter.py', '',
        "    def handle_parameter_changed(self, variable, index, event) -> None:\n        self._need_update = True\n        self.fire_parameter_changed()\n\n    @classmethod\n    def from_json(cls, data, dic):\n        parameters = process_objects(data['parameters'], dic)",
        "    def handle_parameter_changed(self, variable, index, event) -> None:\n        if not self._need_update:\n            self._need_update = True\n            self.fire_parameter_changed()\n\n    @classmethod\n    def from_json(cls, data, dic):\n        parameters = process_objects(data['parameters'], dic)",
        mode='text', expect=[('C06.H', 'handlers::torchtree.core.parameter.CatParameter::handle_parameter_changed')]),
]
CORPUS += [
    Mut('c06-shifts-handed-to-the-ratio-slot', TM, '', "            tree_model = cls(id_, tree, taxa, shifts=parameters)\n", "            tree_model = cls(id_, tree, taxa, parameters)\n", mode='text',
        expect=[('C06.Y', 'evolution.tree_model::ReparameterizedTimeTreeModel.from_json::json-keys-reach-the-parameters-they-name')]),
]
