"""C17.K: DualAveragingStepSize.load_state_dict read 'accepted' (never written) -> KeyError on restart, and dropped 'counter'
(the dual-averaging iteration count), so a resumed run would not continue the same adaptation."""
import json
from torchtree.inference.hmc.integrator import LeapfrogIntegrator
from torchtree.inference.hmc.adaptation import DualAveragingStepSize
def make():
    return DualAveragingStepSize('da', LeapfrogIntegrator('i', 5, 0.1))
a = make()
for acc in (0.9, 0.5, 0.7):
    a.learn(acc, 0, True)
state = json.loads(json.dumps(a.state_dict()))
b = make()
b.load_state_dict(state)          # KeyError: 'accepted' on the pinned tree
a.learn(0.6, 0, True); b.learn(0.6, 0, True)
ok = abs(a._dual_avg.x - b._dual_avg.x) < 1e-12 and a._dual_avg._counter == b._dual_avg._counter
print('OK' if ok else f'FAIL resumed adaptor diverges: x {a._dual_avg.x} vs {b._dual_avg.x}')
raise SystemExit(0 if ok else 1)
