from sa.selftest import Mut

TR = 'torchtree/distributions/transforms.py'
TH = 'torchtree/evolution/tree_height_transform.py'
RT = 'torchtree/evolution/rate_transform.py'
PAR = 'torchtree/core/parameter.py'
TM = 'torchtree/evolution/tree_model.py'

CORPUS = [
    Mut('c07-softplus-original', TR, 'CumSumSoftPlusTransform.log_abs_det_jacobian', 'return -softplus(-x.cumsum(-1)).sum(-1)', 'return torch.zeros(x.shape[:-1])',
        expect=[('C07.Z', 'CumSumSoftPlusTransform')]),
    Mut('c07-softplus-inverse-original', TR, 'CumSumSoftPlusTransform._inverse', 'y_inv = torch.expm1(y).log()', 'y_inv = y.log()', expect=[('C07.I', 'CumSumSoftPlusTransform')]),
    Mut('c07-softplus-sign', TR, 'SoftPlusTransform.log_abs_det_jacobian', 'return -softplus(-x)', 'return softplus(-x)', expect=[('C07.L', 'SoftPlusTransform')]),
    Mut('c07-softplus-arg', TR, 'SoftPlusTransform.log_abs_det_jacobian', 'return -softplus(-x)', 'return -softplus(-y)', expect=[('C07.L', 'SoftPlusTransform')]),
    Mut('c07-softplus-inv', TR, 'SoftPlusTransform._inverse', 'return torch.expm1(y).log()', 'return torch.exp(y).log()', expect=[('C07.I', 'SoftPlusTransform')]),
    Mut('c07-log-sign', TR, 'LogTransform.log_abs_det_jacobian', 'return -y', 'return y', expect=[('C07.L', 'LogTransform')]),
    Mut('c07-log-arg', TR, 'LogTransform.log_abs_det_jacobian', 'return -y', 'return -x', expect=[('C07.L', 'LogTransform')]),
    Mut('c07-log-inverse', TR, 'LogTransform._inverse', 'return y.exp()', 'return y.log()', expect=[('C07.I', 'LogTransform')]),
    Mut('c07-cumsum-nonzero', TR, 'CumSumTransform.log_abs_det_jacobian', 'return torch.zeros(x.shape[:-1], dtype=x.dtype, device=x.device)', 'return x.sum(-1)',
        expect=[('C07.Z', 'CumSumTransform')]),
    Mut('c07-cumsum-inverse', TR, 'CumSumTransform._inverse', 'return torch.cat((y[..., :1], y[..., 1:] - y[..., :-1]), -1)', 'return torch.cat((y[..., :1], y[..., :-1] - y[..., 1:]), -1)',
        expect=[]),
    Mut('c07-cumsumexp-no-cumsum', TR, 'CumSumExpTransform.log_abs_det_jacobian', 'return x.cumsum(-1).sum(-1)', 'return x.sum(-1)',
        expect=[('C07.L', 'CumSumExpTransform')]),
    Mut('c07-cumsumexp-autograd-other-chain', TR, 'CumSumExpTransform.log_abs_det_jacobian', 'return x.cumsum(-1).sum(-1)',
        'def f(xx):\n    return xx.exp()\nreturn torch.diagonal(torch.autograd.functional.jacobian(f, x, create_graph=True), 0).log().sum()', expect=[('C07.L', 'CumSumExpTransform')]),
    Mut('c07-cumsumexp-inverse', TR, 'CumSumExpTransform._inverse', 'y_log = y.log()', 'y_log = y', expect=[('C07.I', 'CumSumExpTransform')]),
    Mut('c07-ratio-update', TH, 'GeneralNodeHeightTransform._call', 'heights[..., id_] = bounds[id_] + x[..., id_] * (heights[..., parent_id] - bounds[id_])',
        'heights[..., id_] = bounds[id_] + x[..., id_] * heights[..., parent_id]', expect=[('C07.G', 'update-form')]),
    Mut('c07-ratio-logdet-bounds', TH, 'GeneralNodeHeightTransform.log_abs_det_jacobian', 'return torch.log(y[..., self._det_indices] - self._bounds[self.taxa_count:-1]).sum(-1)',
        'return torch.log(y[..., self._det_indices]).sum(-1)', expect=[('C07.G', 'sum-log(parent-height-minus-bound)')]),
    Mut('c07-ratio-logdet-root', TH, 'GeneralNodeHeightTransform.log_abs_det_jacobian', 'return torch.log(y[..., self._det_indices] - self._bounds[self.taxa_count:-1]).sum(-1)',
        'return torch.log(y[..., self._det_indices] - self._bounds[self.taxa_count + 1:]).sum(-1)', expect=[('C07.G', 'sum-log(parent-height-minus-bound)')]),
    Mut('c07-ratio-inverse-cat', TH, 'GeneralNodeHeightTransform._inverse', 'return torch.cat(…', None),
    Mut('c07-difference-logdet', TH, 'DifferenceNodeHeightTransform.log_abs_det_jacobian', 'return torch.zeros(x.shape[:-1], dtype=x.dtype, device=x.device)', 'return x.log().sum(-1)',
        expect=[('C07.Z', 'DifferenceNodeHeightTransform.log_abs_det_jacobian')]),
    Mut('c07-difference-inverse-hard', TH, 'DifferenceNodeHeightTransform._inverse', 'x[node - self.taxa_count] = heights[node] - torch.max(heights[left], heights[right])',
        'x[node - self.taxa_count] = heights[node] - torch.min(heights[left], heights[right])', expect=[('C07.I', 'DifferenceNodeHeightTransform._inverse')]),
    Mut('c07-difference-inverse-switch', TH, 'DifferenceNodeHeightTransform._inverse', 'if self.k > 0:…', None),
    Mut('c07-rate-logdet-original', RT, 'LogDifferenceRateTransform.log_abs_det_jacobian', 'return -x.log().sum(-1)', 'return -y.sum(-1)', expect=[('C07.L', 'LogDifferenceRateTransform.log_abs_det_jacobian')]),
    Mut('c07-rate-forward-swapped', RT, 'LogDifferenceRateTransform._call', 'return rates[..., indices[1]] - rates[..., indices[0]]', 'return rates[..., indices[0]] - rates[..., indices[0]]',
        expect=[('C07.L', 'LogDifferenceRateTransform._call')]),
    Mut('c07-caller-args-swapped', PAR, 'TransformedParameter.__call__', 'return self.transform.log_abs_det_jacobian(self.x.tensor, self._tensor)',
        'return self.transform.log_abs_det_jacobian(self._tensor, self.x.tensor)', expect=[('C07.C', 'TransformedParameter.__call__')]),
    Mut('c07-caller-no-refresh', PAR, 'TransformedParameter.__call__', 'if self.need_update:…', 'pass', expect=[('C07.C', 'TransformedParameter.__call__')]),
    Mut('c07-tree-caller-stale', TM, 'ReparameterizedTimeTreeModel._call', 'if self.heights_need_update:…', 'pass', expect=[('C07.C', 'ReparameterizedTimeTreeModel._call')]),
    Mut('c07-tree-caller-wrong-y', TM, 'ReparameterizedTimeTreeModel._call', 'return self.transform.log_abs_det_jacobian(self._internal_heights.tensor, self._heights)',
        'return self.transform.log_abs_det_jacobian(self._internal_heights.tensor, self._node_heights)', expect=[('C07.C', 'ReparameterizedTimeTreeModel._call')]),
    # benign
    Mut('c07-benign-logsigmoid', TR, 'SoftPlusTransform.log_abs_det_jacobian', 'return -softplus(-x)', 'return torch.nn.functional.logsigmoid(x)', benign=True),
    Mut('c07-benign-log-form', TR, 'LogTransform.log_abs_det_jacobian', 'return -y', 'return -x.log()', benign=True),
    Mut('c07-benign-cumsumexp-log-y', TR, 'CumSumExpTransform.log_abs_det_jacobian', 'return x.cumsum(-1).sum(-1)', 'return y.log().sum(-1)', benign=True),
    Mut('c07-forward-writes-into-its-argument', 'torchtree/evolution/tree_height_transform.py', '', "        heights = x.clone()\n        bounds = self._bounds[self.taxa_count :]\n", "        heights = x.clone() if torch.is_grad_enabled() else x\n        bounds = self._bounds[self.taxa_count :]\n",
        expect=[('C07.P', 'GeneralNodeHeightTransform._call::in-place-update-of-heights')], mode='text'),
    Mut('c07-benign-forward-clones-then-views', 'torchtree/evolution/tree_height_transform.py', '', "        heights = x.clone()\n        bounds = self._bounds[self.taxa_count :]\n", "        heights = x.clone().contiguous()\n        bounds = self._bounds[self.taxa_count :]\n",
        benign=True, mode='text'),
    Mut('c07-jacobian-of-the-wrapped-parameter-added', 'torchtree/core/parameter.py', '', "        return self.transform.log_abs_det_jacobian(self.x.tensor, self._tensor)\n",
        "        ldj = self.transform.log_abs_det_jacobian(self.x.tensor, self._tensor)\n        if isinstance(self.x, TransformedParameter):\n            ldj = ldj + self.x()\n        return ldj\n",
        expect=[('C07.C', 'TransformedParameter.__call__::returns-its-own-log-determinant-only')], mode='text'),
    Mut('c07-benign-jacobian-through-a-local', 'torchtree/core/parameter.py', '', "        return self.transform.log_abs_det_jacobian(self.x.tensor, self._tensor)\n",
        "        ldj = self.transform.log_abs_det_jacobian(self.x.tensor, self._tensor)\n        return ldj\n", benign=True, mode='text'),
    Mut('c07-tree-jacobian-cache-not-invalidated', 'torchtree/evolution/tree_model.py', 'ReparameterizedTimeTreeModel.handle_parameter_changed', 'self.lp_needs_update = True', 'pass',
        expect=[('C07.C', 'handlers::torchtree.evolution.tree_model.ReparameterizedTimeTreeModel::handle_parameter_changed')]),
]
for m in CORPUS:
    if m.id == 'c07-cumsum-inverse':
        m.expect = [('C07.I', 'CumSumTransform')]
    if m.id == 'c07-ratio-inverse-cat':
        m.mode = 'text'
        m.old = "                y[..., -1:],\n            ),\n            -1,\n        )\n"
        m.new = "                y[..., -1:],\n            )\n        )\n"
        m.expect = [('C07.I', 'GeneralNodeHeightTransform._inverse::cat-along-last-axis')]
    if m.id == 'c07-difference-inverse-switch':
        m.mode = 'text'
        m.old = "        if self.k > 0:\n            for node, left, right in self.tree.postorder:\n                x[node - self.taxa_count] = ("
        m.new = "        if self.k <= 0:\n            for node, left, right in self.tree.postorder:\n                x[node - self.taxa_count] = ("
        m.expect = [('C07.I', 'DifferenceNodeHeightTransform._inverse')]
CORPUS += [
    Mut('c07-ratio-transform-remembers-its-log-determinant', 'torchtree/evolution/tree_height_transform.py', 'GeneralNodeHeightTransform.log_abs_det_jacobian', 'return torch.log(…',
        'if getattr(self, "_last_log_det", None) is not None:\n    return self._last_log_det\nreturn torch.log(y[..., self._det_indices] - self._bounds[self.taxa_count:-1]).sum(-1)',
        expect=[('C07.S', 'GeneralNodeHeightTransform::log-determinant-is-a-function-of-its-arguments')],
        more=[dict(scope='GeneralNodeHeightTransform._call', old='return heights', new='self._last_log_det = torch.log(heights[..., self._det_indices] - self._bounds[self.taxa_count:-1]).sum(-1)\nreturn heights')]),
]
CORPUS += [
    Mut('c07-log-difference-inverse-reads-y-by-node-number', 'torchtree/evolution/rate_transform.py', '', "        return rates[..., indices[1]] - rates[..., indices[0]]\n\n    def _inverse(self, y) -> torch.Tensor:\n        raise NotImplementedError\n",
        "        return rates[..., indices[1]] - rates[..., indices[0]]\n\n    def _inverse(self, y) -> torch.Tensor:\n        out = [None] * (y.shape[-1] + 1)\n        out[-1] = torch.zeros(y.shape[:-1] + (1,), dtype=y.dtype)\n"
        "        for parent, node in self._tree_model.preorder.tolist():\n            out[node] = out[parent] + y[..., node : node + 1]\n        return torch.cat(out[:-1], -1).exp()\n",
        mode='text', expect=[('C07.I', 'LogDifferenceRateTransform._inverse::y-addressed-by-its-position-in-the-pre-order-table')]),
    Mut('c07-benign-log-difference-inverse-by-position', 'torchtree/evolution/rate_transform.py', '', "        return rates[..., indices[1]] - rates[..., indices[0]]\n\n    def _inverse(self, y) -> torch.Tensor:\n        raise NotImplementedError\n",
        "        return rates[..., indices[1]] - rates[..., indices[0]]\n\n    def _inverse(self, y) -> torch.Tensor:\n        out = [None] * (y.shape[-1] + 1)\n        out[-1] = torch.zeros(y.shape[:-1] + (1,), dtype=y.dtype)\n"
        "        for k, (parent, node) in enumerate(self._tree_model.preorder.tolist()):\n            out[node] = out[parent] + y[..., k : k + 1]\n        return torch.cat(out[:-1], -1).exp()\n",
        mode='text', benign=True),
]
CORPUS += [
    Mut('c07-view-setter-tells-its-own-listeners-only', 'torchtree/core/parameter.py', '', "            self.parameter.tensor[..., self.indices] = tensor\n        self.parameter.fire_parameter_changed()\n",
        "            self.parameter.tensor[..., self.indices] = tensor\n        self.fire_parameter_changed()\n", mode='text', expect=[('C07.C', 'in-place::torchtree.core.parameter::ViewParameter.tensor')]),
]
CORPUS += [
    Mut('c07-root-rate-padded-without-the-sample-shape', 'torchtree/evolution/rate_transform.py', '', "                torch.ones(x.shape[:-1] + (1,)),\n", "                x.new_ones(1),\n", mode='text',
        expect=[('C07.L', 'per-sample::evolution.rate_transform.LogDifferenceRateTransform._call::')]),
    Mut('c07-benign-root-rate-padded-with-new-ones-of-the-sample-shape', 'torchtree/evolution/rate_transform.py', '', "                torch.ones(x.shape[:-1] + (1,)),\n", "                x.new_ones(x.shape[:-1] + (1,)),\n", mode='text', benign=True),
]
