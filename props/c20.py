"""C20 — smoothing / integrated priors and sufficient statistics match their densities."""
from __future__ import annotations

import ast
import copy
import math
from fractions import Fraction
from typing import Dict, List, Optional

from sa.loader import AnalysisError, Unsupported, dotted_name, norm_text
from sa.members import self_attr
from sa.poly import Rat, ToRat
from sa.report import where
from sa.util import local_assignments

GM = 'torchtree.distributions.gmrf'
GI = 'torchtree.distributions.gmrf_integrated'
CO = 'torchtree.evolution.coalescent'
LOG2PI = math.log(2.0 * math.pi)


def method_name(call: ast.Call) -> str:
    return (dotted_name(call.func) or (call.func.attr if isinstance(call.func, ast.Attribute) else '')).split('.')[-1]


def eval_int(e, env) -> int:
    if isinstance(e, ast.Constant) and isinstance(e.value, int):
        return e.value
    if isinstance(e, ast.UnaryOp) and isinstance(e.op, ast.USub):
        return -eval_int(e.operand, env)
    if isinstance(e, ast.Name) and isinstance(env.get(e.id), int):
        return env[e.id]
    if isinstance(e, ast.BinOp) and isinstance(e.op, (ast.Add, ast.Sub)):
        a, b = eval_int(e.left, env), eval_int(e.right, env)
        return a + b if isinstance(e.op, ast.Add) else a - b
    raise Unsupported(e, 'index expression not an integer in dim')


def index_set(e, env, dim):
    """('fancy', [i…]) for index vectors / ints, ('slice', [i…]) for slices"""
    if isinstance(e, ast.Slice):
        lo = eval_int(e.lower, env) if e.lower is not None else None
        hi = eval_int(e.upper, env) if e.upper is not None else None
        st = eval_int(e.step, env) if e.step is not None else None
        return 'slice', list(range(dim))[slice(lo, hi, st)]
    if isinstance(e, ast.Call) and ((isinstance(e.func, ast.Name) and e.func.id == 'range') or method_name(e) == 'arange'):
        return 'fancy', list(range(*[eval_int(a, env) for a in e.args]))
    if isinstance(e, ast.Name) and isinstance(env.get(e.id), list):
        return 'fancy', list(env[e.id])
    if isinstance(e, ast.BinOp) and isinstance(e.op, (ast.Add, ast.Sub)):
        try:
            k, base = index_set(e.left, env, dim)
            off = eval_int(e.right, env)
            if k == 'fancy':
                return 'fancy', [i + off if isinstance(e.op, ast.Add) else i - off for i in base]
        except Unsupported:
            pass
    i = eval_int(e, env)
    return 'int', [i % dim if i < 0 else i]


def fold_precision_matrix(fn: ast.FunctionDef, dim: int):
    """execute precision_matrix() for a concrete field length with a symbolic precision: zeros(), indexed / sliced / fancy stores, scaling by the precision"""
    env: Dict[str, object] = {}
    tau = Rat.sym('tau')
    mats: Dict[str, list] = {}

    def atom(x):
        if isinstance(x, ast.Name) and env.get(x.id) == 'tau':
            return tau
        if isinstance(x, ast.Attribute) and x.attr == 'tensor' and 'precision' in ast.unparse(x):
            return tau
        if isinstance(x, ast.Call) and isinstance(x.func, ast.Attribute) and x.func.attr in ('expand', 'squeeze', 'unsqueeze', 'view', 'reshape'):
            return ToRat(atom)(x.func.value)
        if isinstance(x, ast.Subscript) and not isinstance(x.value, ast.Name):
            return None
        if isinstance(x, ast.Subscript) and isinstance(x.value, ast.Name) and env.get(x.value.id) == 'tau':
            return tau   # precision[..., None, None]
        return None

    def scalar(e):
        return ToRat(atom)(e)

    def matrix_value(e):
        """a matrix-valued expression: name, scalar * matrix, .expand()/.clone() of a matrix"""
        if isinstance(e, ast.Name) and e.id in mats:
            return [row[:] for row in mats[e.id]]
        if isinstance(e, ast.Call) and isinstance(e.func, ast.Attribute) and e.func.attr in ('expand', 'clone', 'contiguous', 'to', 'repeat'):
            return matrix_value(e.func.value)
        if isinstance(e, ast.BinOp) and isinstance(e.op, ast.Mult):
            for a, b in ((e.left, e.right), (e.right, e.left)):
                try:
                    M = matrix_value(b)
                except Unsupported:
                    continue
                k = scalar(a)
                return [[k * v for v in row] for row in M]
        if isinstance(e, ast.UnaryOp) and isinstance(e.op, ast.USub):
            return [[Rat.const(0) - v for v in row] for row in matrix_value(e.operand)]
        raise Unsupported(e, 'not a matrix expression')

    for st in fn.body:
        if isinstance(st, ast.Expr) and isinstance(st.value, ast.Constant):
            continue
        if isinstance(st, ast.Assign) and len(st.targets) == 1 and isinstance(st.targets[0], ast.Name):
            name, v = st.targets[0].id, st.value
            if isinstance(v, ast.Subscript) and isinstance(v.value, ast.Attribute) and v.value.attr == 'shape':
                env[name] = dim
            elif isinstance(v, ast.Call) and method_name(v) == 'zeros':
                mats[name] = [[Rat.const(0) for _ in range(dim)] for _ in range(dim)]
            elif isinstance(v, ast.Call) and method_name(v) == 'arange':
                env[name] = list(range(*[eval_int(a, env) for a in v.args]))
            elif 'precision' in ast.unparse(v) and not any(isinstance(x, ast.Name) and x.id in mats for x in ast.walk(v)):
                env[name] = 'tau'
            else:
                try:
                    mats[name] = matrix_value(v)
                except Unsupported:
                    try:
                        env[name] = eval_int(v, env)
                    except Unsupported:
                        raise Unsupported(st, f"assignment `{ast.unparse(st)[:60]}` not understood")
            continue
        if isinstance(st, ast.Assign) and all(isinstance(t, ast.Subscript) for t in st.targets):
            value = scalar(st.value)
            for t in st.targets:
                if not (isinstance(t.value, ast.Name) and t.value.id in mats):
                    raise Unsupported(t, 'store into something other than a matrix')
                M = mats[t.value.id]
                elts = t.slice.elts if isinstance(t.slice, ast.Tuple) else [t.slice]
                elts = [x for x in elts if not (isinstance(x, ast.Constant) and x.value is Ellipsis)]
                if len(elts) != 2:
                    raise Unsupported(t, 'store must address [..., rows, cols]')
                (kr, rows), (kc, cols) = index_set(elts[0], env, dim), index_set(elts[1], env, dim)
                if kr in ('fancy', 'int') and kc in ('fancy', 'int'):
                    if len(rows) != len(cols):
                        if len(rows) == 1:
                            rows = rows * len(cols)
                        elif len(cols) == 1:
                            cols = cols * len(rows)
                        else:
                            raise Unsupported(t, 'row and column index lists differ in length')
                    pairs = list(zip(rows, cols))
                else:
                    pairs = [(i, j) for i in rows for j in cols]   # a slice combines with anything as an outer product
                for i, j in pairs:
                    if not (-dim <= i < dim and -dim <= j < dim):
                        raise Unsupported(t, 'index out of range')
                    M[i][j] = value
            continue
        if isinstance(st, ast.Return):
            return matrix_value(st.value)
        raise Unsupported(st, f"statement `{ast.unparse(st)[:60]}` not understood")
    raise Unsupported(fn, 'no return')


def check_precision_matrix(ctx, rep):
    cls = ctx.classes.get(f"{GM}.GMRF")
    fn = cls.resolve('precision_matrix')[1]
    W = where(cls.module, fn)
    for dim in (3, 4, 5, 6):
        try:
            M = fold_precision_matrix(fn, dim)
        except Unsupported as u:
            rep.undecided('C20.Q', f"GMRF.precision_matrix::dim={dim}", W, str(u))
            continue
        x = [Rat.sym(f"x{i}") for i in range(dim)]
        quad = Rat.const(0)
        for i in range(dim):
            for j in range(dim):
                quad = quad + M[i][j] * x[i] * x[j]
        want = Rat.const(0)
        for i in range(dim - 1):
            want = want + Rat.sym('tau') * (x[i] - x[i + 1]) ** 2
        rows_zero = all(sum(M[i], Rat.const(0)).is_zero() for i in range(dim))
        sym = all(M[i][j].equals(M[j][i]) for i in range(dim) for j in range(dim))
        rep.check('C20.Q', f"GMRF.precision_matrix::dim={dim}::quadratic-form", quad.equals(want), W, {'matrix': [[repr(v) for v in r] for r in M]},
                  f"xᵀQx ≠ τ·Σ(x_i − x_{'{i+1}'})² for a field of length {dim}: the published precision matrix is not the one of the first-order random walk "
                  f"the density uses")
        rep.check('C20.Q', f"GMRF.precision_matrix::dim={dim}::rows-sum-to-zero-and-symmetric", rows_zero and sym, W, None,
                  "a first-order intrinsic GMRF precision matrix is symmetric with rows summing to zero")
    # density terms:  (dim/2) log tau − tau/2 Σ − dim/2 log 2π  with dim = N − 1
    call = cls.resolve('_call')[1]
    rets = [n for n in ast.walk(call) if isinstance(n, ast.Return)]
    env: Dict[str, Rat] = {}
    ok = False
    facts = {}
    if len(rets) == 1:
        const_seen = []

        def atom(e):
            if isinstance(e, ast.Name) and e.id == 'dim':
                return Rat.sym('d')
            if isinstance(e, ast.Name) and e.id == 'precision':
                return Rat.sym('tau')
            if isinstance(e, ast.Call) and method_name(e) == 'log':
                return Rat.sym('logtau')
            if isinstance(e, ast.Call) and method_name(e) == 'sum':
                return Rat.sym('S')
            return None

        def pre(e):
            if isinstance(e, ast.Constant) and isinstance(e.value, float) and abs(e.value - LOG2PI) < 1e-9:
                const_seen.append(e.value)
                return Rat.sym('log2pi')
            return None
        try:
            R = ToRat(atom, pre=pre)(rets[0].value)
            d, tau, lt, S, c = (Rat.sym(s_) for s_ in ('d', 'tau', 'logtau', 'S', 'log2pi'))
            want = lt * d / 2 - S * tau / 2 - d / 2 * c
            ok = R.equals(want)
            facts = {'returned': repr(R)}
        except Unsupported as u:
            facts = {'why': str(u)}
    dim_def = [st for st in call.body if isinstance(st, ast.Assign) and isinstance(st.targets[0], ast.Name) and st.targets[0].id == 'dim']
    from fractions import Fraction
    from sa.util import linear_in, local_assignments
    dim_ok = bool(dim_def) and linear_in(dim_def[0].value, {'self.field.shape[-1]': 'N', 'self.field.tensor.shape[-1]': 'N'}, local_assignments(call)) == {'N': Fraction(1), 1: Fraction(-1)}
    rep.check('C20.Q', 'GMRF._call::gaussian-log-density-terms', ok and dim_ok, where(cls.module, call), facts,
              "log density must be (N−1)/2·log τ − τ/2·Σ(Δx)² − (N−1)/2·log 2π")


def check_config_agreement(ctx, rep):
    """C20.V: configuration that weights the squared differences in the density must also enter the published precision matrix."""
    cls = ctx.classes.get(f"{GM}.GMRF")
    call = cls.resolve('_call')[1]
    pm = cls.resolve('precision_matrix')[1]
    # attributes that modify diff_square in _call
    weighting = set()
    for n in ast.walk(call):
        if isinstance(n, ast.If):
            attrs = {self_attr(x) for x in ast.walk(n.test) if self_attr(x)}
            touches = any(isinstance(st, ast.AugAssign) and isinstance(st.target, ast.Name) and st.target.id == 'diff_square' for b in n.body for st in ast.walk(b))
            if touches:
                weighting |= attrs
    pm_reads = {self_attr(x) for x in ast.walk(pm) if self_attr(x)}
    for a in sorted(weighting):
        rep.check('C20.V', f"GMRF.precision_matrix::reads-{a}", a in pm_reads, where(cls.module, pm), {'density_weighting_configuration': sorted(weighting), 'precision_matrix_reads': sorted(pm_reads)},
                  f"GMRF._call weights the squared differences according to self.{a}, but precision_matrix() never reads it: for a weighted / time-aware field the "
                  f"published matrix is not the precision of the density (the block-update operator proposes from it)")
    if len(weighting) < 2:
        raise AnalysisError('GMRF._call weighting configuration not recognised')


class _Norm(ast.NodeTransformer):
    def visit_Attribute(self, node):
        self.generic_visit(node)
        if isinstance(node.value, ast.Name) and node.value.id == 'self':
            node.attr = node.attr.lstrip('_')
        return node


def check_clones(ctx, rep):
    g = ctx.classes.get(f"{GM}.GMRF").resolve('_call')[1]
    gi_cls = ctx.classes.get(f"{GI}.GMRFGammaIntegrated")
    gi = gi_cls.resolve('_call')[1]

    def stores(st):
        return {t.id for x in ast.walk(st) if isinstance(x, (ast.Assign, ast.AugAssign)) for t in (x.targets if isinstance(x, ast.Assign) else [x.target]) if isinstance(t, ast.Name)}

    def prologue(fn):
        # only what the weighted squared differences are computed from: the backward closure of `diff_square` over the local names (a local introduced for the
        # normalising constant, a comment, a print do not take part in the comparison)
        body = []
        for st in fn.body:
            if isinstance(st, ast.Return):
                break
            body.append(st)
        rel = {'diff_square'}
        changed = True
        while changed:
            changed = False
            for st in body:
                if stores(st) & rel:
                    used = {n.id for n in ast.walk(st) if isinstance(n, ast.Name) and isinstance(n.ctx, ast.Load)}
                    if not used <= rel:
                        rel |= used
                        changed = True
        return [ast.dump(_Norm().visit(copy.deepcopy(st))) for st in body if stores(st) & rel]
    a, b = prologue(g), prologue(gi)
    rep.check('C20.S', 'GMRF._call≡GMRFGammaIntegrated._call::difference-weighting', a == b and len(a) >= 2, where(gi_cls.module, gi), {'statements': len(a)},
              "the squared-difference / weighting prologue of the precision-integrated prior differs from the GMRF it integrates: the two no longer describe the same field")
    # closed-form constants of the integrated prior
    init = gi_cls.resolve('__init__')[1]
    ct = [st for st in ast.walk(init) if isinstance(st, ast.Assign) and any(self_attr(t) == 'constant_term' for t in st.targets)]
    ok = False
    facts = {}
    if len(ct) == 1:
        def atom(e):
            a_ = self_attr(e)
            if a_ == '_dim':
                return Rat.sym('d')
            if a_ == '_shape':
                return Rat.sym('a')
            if isinstance(e, ast.Call) and method_name(e) == 'log':
                inner = ast.unparse(e.args[0]).replace(' ', '')
                return Rat.sym({'2.0*math.pi': 'log2pi', 'self._rate': 'logb'}.get(inner, 'log?' + inner))
            if isinstance(e, ast.Call) and method_name(e) == 'lgamma':
                inner = ToRat(atom)(e.args[0])
                return Rat.sym('lgamma(' + repr(inner) + ')')
            return None
        try:
            R = ToRat(atom)(ct[0].value)
            d, a_, l2, lb = (Rat.sym(s_) for s_ in ('d', 'a', 'log2pi', 'logb'))
            half = Rat.const(1) / 2
            lg_a = Rat.sym('lgamma(' + repr(a_) + ')')
            lg_ad = Rat.sym('lgamma(' + repr(a_ + d / 2) + ')')
            want = -d / 2 * l2 + a_ * lb - lg_a + lg_ad
            ok = R.equals(want)
            facts = {'constant_term': repr(R)}
        except Unsupported as u:
            facts = {'why': str(u)}
    rep.check('C20.S', 'GMRFGammaIntegrated::constant-term', ok, where(gi_cls.module, init), facts,
              "constant must be −(N−1)/2·log 2π + α·log β − lgamma(α) + lgamma(α + (N−1)/2)")
    rets = [n for n in ast.walk(gi) if isinstance(n, ast.Return)]
    ok = False
    if len(rets) == 1:
        def atom2(e):
            a_ = self_attr(e)
            if a_ == 'constant_term':
                return Rat.sym('C')
            if a_ == '_dim':
                return Rat.sym('d')
            if a_ == '_shape':
                return Rat.sym('a')
            if isinstance(e, ast.Call) and method_name(e) == 'log':
                inner = e.func.value if isinstance(e.func, ast.Attribute) and not e.args else e.args[0]

                def a3(x):
                    if self_attr(x) == '_rate':
                        return Rat.sym('b')
                    if isinstance(x, ast.Call) and method_name(x) == 'sum':
                        return Rat.sym('S')
                    return None
                r_in = ToRat(a3)(inner)
                return Rat.sym('LOG') if r_in.equals(Rat.sym('S') / 2 + Rat.sym('b')) else Rat.sym('LOG?')
            return None
        try:
            R = ToRat(atom2)(rets[0].value)
            ok = R.equals(Rat.sym('C') - (Rat.sym('a') + Rat.sym('d') / 2) * Rat.sym('LOG'))
        except Unsupported:
            ok = False
    rep.check('C20.S', 'GMRFGammaIntegrated._call::closed-form', ok, where(gi_cls.module, gi), None,
              "integrated density must be C − (α + (N−1)/2)·log(β + ½ΣΔx²)")
    # size-integrated constant coalescent
    m = ctx.prog.module(CO)
    cci = m.classes.get('ConstantCoalescentIntegrated')
    fn = next((st for st in cci.body if isinstance(st, ast.FunctionDef) and st.name == 'log_prob'), None)
    rets = [n for n in ast.walk(fn) if isinstance(n, ast.Return)]
    ok = False
    facts = {}
    if len(rets) == 1:
        def atom4(e):
            a_ = self_attr(e)
            if a_ == 'alpha':
                return Rat.sym('a')
            if isinstance(e, ast.Name) and e.id == 'internal_count':
                return Rat.sym('n')
            if isinstance(e, ast.Call) and method_name(e) == 'log':
                inner = e.args[0]
                if self_attr(inner) == 'beta':
                    return Rat.sym('logb')

                def a5(x):
                    if self_attr(x) == 'beta':
                        return Rat.sym('b')
                    if isinstance(x, ast.Call) and method_name(x) == 'sum':
                        return Rat.sym('S')
                    return None
                try:
                    r_in = ToRat(a5)(inner)
                    return Rat.sym('LOG') if r_in.equals(Rat.sym('b') + Rat.sym('S')) else Rat.sym('LOG?')
                except Unsupported:
                    return Rat.sym('LOG?')
            if isinstance(e, ast.Call) and method_name(e) == 'lgamma':
                return Rat.sym('lgamma(' + repr(ToRat(atom4)(e.args[0])) + ')')
            return None
        try:
            R = ToRat(atom4)(rets[0].value)
            a_, n_ = Rat.sym('a'), Rat.sym('n')
            want = a_ * Rat.sym('logb') - Rat.sym('lgamma(' + repr(a_) + ')') + Rat.sym('lgamma(' + repr(a_ + n_) + ')') - (a_ + n_) * Rat.sym('LOG')
            ok = R.equals(want)
            facts = {'returned': repr(R)}
        except Unsupported as u:
            facts = {'why': str(u)}
    cnt = [st for st in fn.body if isinstance(st, ast.Assign) and isinstance(st.targets[0], ast.Name) and st.targets[0].id == 'internal_count']
    # N = number of coalescent events = (n − 1) / 2 for the n = 2T − 1 node heights (n is odd, so floors are exact): any spelling that evaluates to it
    from fractions import Fraction
    from sa.util import linear_in, local_assignments
    nh = fn.args.args[1].arg if len(fn.args.args) > 1 else 'node_heights'
    cnt_ok = bool(cnt) and linear_in(cnt[0].value, {f'{nh}.shape[-1]': 'n'}, {k: v for k, v in local_assignments(fn).items() if k != 'internal_count'}, odd={'n'}) == {'n': Fraction(1, 2), 1: Fraction(-1, 2)}
    rep.check('C20.S', 'ConstantCoalescentIntegrated.log_prob::closed-form', ok and cnt_ok, where(m, fn), facts,
              "size-integrated constant coalescent must be α·log β − lgamma(α) + lgamma(α+N) − (α+N)·log(β + ΣC·t) with N = number of coalescent events")


def check_grouping(ctx, rep):
    m = ctx.prog.module(CO)
    for cname, mark, keep_all in (('PiecewiseConstantCoalescent', -1, False), ('PiecewiseConstantCoalescentGrid', 0, True)):
        cnode = m.classes.get(cname)
        ss = next((st for st in cnode.body if isinstance(st, ast.FunctionDef) and st.name == 'sufficient_statistics'), None)
        lp = next((st for st in cnode.body if isinstance(st, ast.FunctionDef) and st.name == 'log_prob'), None)
        if ss is None or lp is None:
            raise AnalysisError(f"{cname}.sufficient_statistics/log_prob not found")
        W = where(m, ss)
        splits = [c for c in ast.walk(ss) if isinstance(c, ast.Call) and method_name(c) == 'tensor_split']
        split_marks = []
        split_terms = []
        for c in splits:
            for cmp_ in ast.walk(c.args[1]):
                if isinstance(cmp_, ast.Compare) and isinstance(cmp_.ops[0], ast.Eq):
                    v = cmp_.comparators[0]
                    split_marks.append(-v.operand.value if isinstance(v, ast.UnaryOp) else v.value)
            split_terms.append(ast.unparse(c.args[0]).replace(' ', ''))
        # lookup mark used by log_prob
        lookup = []
        for st in ast.walk(lp):
            if isinstance(st, ast.Assign) and isinstance(st.targets[0], ast.Name) and 'indices' in st.targets[0].id:
                for cmp_ in ast.walk(st.value):
                    if isinstance(cmp_, ast.Compare) and isinstance(cmp_.ops[0], ast.Eq):
                        v = cmp_.comparators[0]
                        lookup.append(-v.operand.value if isinstance(v, ast.UnaryOp) else v.value)
        facts = {'split_marks': split_marks, 'lookup_marks': lookup, 'split_terms': split_terms}
        rep.check('C20.G', f"{cname}.sufficient_statistics::split-at-the-lookup-mark", bool(split_marks) and set(split_marks) == {mark} and lookup == [mark], W, facts,
                  f"{cname}: the per-piece sufficient statistics must be split at the same event mark ({mark}) that log_prob counts to look θ up; "
                  f"found splits at {split_marks}, lookup on {lookup}")
        # the split terms are C(k,2)·interval of _sorted_terms
        names = None
        for st in ast.walk(ss):
            if isinstance(st, ast.Assign) and isinstance(st.targets[0], ast.Tuple) and isinstance(st.value, ast.Call) and self_attr(st.value.func) == '_sorted_terms':
                names = [e.id for e in st.targets[0].elts]
        ok_terms = names is not None and any(t in (f"{names[1]}*{names[2]}", f"{names[1]}[i]*{names[2]}[i]") for t in split_terms)
        rep.check('C20.G', f"{cname}.sufficient_statistics::terms-are-C(k,2)·interval", ok_terms, W, facts,
                  f"{cname}: the statistics must sum lchoose2·interval of _sorted_terms within each piece")
        # the split points are computed from the rows they split: the mask compared with the mark is the one _sorted_terms returned, indexed like the split terms
        defs = local_assignments(ss)
        for k, c in enumerate(splits):
            data_idx = sorted({ast.unparse(x.slice) for x in ast.walk(c.args[0]) if isinstance(x, ast.Subscript) and isinstance(x.value, ast.Name) and names and x.value.id in names})
            masks = []
            for cmp_ in ast.walk(c.args[1]):
                if isinstance(cmp_, ast.Compare) and isinstance(cmp_.ops[0], ast.Eq):
                    left = cmp_.left
                    hops = 0
                    while isinstance(left, ast.Name) and names and left.id != names[0] and len(defs.get(left.id, [])) == 1 and hops < 5:
                        left = defs[left.id][0]
                        hops += 1
                    masks.append(left)
            want = (f"{names[0]}[{data_idx[0]}]" if len(data_idx) == 1 else names[0]) if names else None
            same_rows = bool(masks) and len(data_idx) <= 1 and all(ast.unparse(x) == want for x in masks)
            rep.check('C20.G', f"{cname}.sufficient_statistics::split-points-from-the-rows-they-split#{k}", same_rows, where(m, c),
                      {'terms': split_terms[k], 'mask': [ast.unparse(x)[:80] for x in masks], 'expected_mask': want},
                      f"{cname}: the terms `{split_terms[k][:60]}` are split at positions computed from `{[ast.unparse(x)[:60] for x in masks]}`; the positions must come from "
                      f"the event marks of the very rows being split (`{want}`): event order differs between sampled trees, so positions taken from another row or a "
                      f"reshaped / selected copy put sample s's intervals into the wrong piece")
        if keep_all:
            cc = [t for t in split_terms if '==-1' in t]
            rep.check('C20.G', f"{cname}.sufficient_statistics::coalescent-counts-mark", bool(cc), W, facts,
                      f"{cname}: coalescent counts per piece must count marks == −1")
        else:
            # one group per coalescent interval: the trailing group after the last coalescent event is dropped
            gnames = {st.targets[0].id for st in ast.walk(ss) if isinstance(st, ast.Assign) and isinstance(st.targets[0], ast.Name) and isinstance(st.value, ast.Call)
                      and method_name(st.value) == 'tensor_split'}
            uses = [n for n in ast.walk(ss) if isinstance(n, ast.Name) and n.id in gnames and isinstance(n.ctx, ast.Load)]
            drops = bool(uses) and all(isinstance(getattr(u, '_parent', None), ast.Subscript) and ast.unparse(u._parent.slice).replace(' ', '') == ':-1' for u in uses)
            rep.check('C20.G', f"{cname}.sufficient_statistics::as-many-groups-as-thetas", drops, W, None,
                      f"{cname}: splitting at the n−1 coalescent events yields n groups; the (empty) last one must be dropped so that there is one statistic per θ")


def run(ctx, rep):
    from sa import callbind
    callbind.run_for(ctx, rep, 'C20', 5)
    rep.explanation = (
        "C20.Q: GMRF.precision_matrix is folded for field lengths 3..6 with a symbolic precision by executing its indexed stores; the resulting matrix must "
        "satisfy xᵀQx = τ·Σ(x_i − x_{i+1})² as a polynomial identity, be symmetric with zero row sums; the density's three terms are checked as a "
        "polynomial.  C20.V: configuration that weights the squared differences in the density must be read by precision_matrix().  C20.S: the "
        "difference/weighting prologue of GMRFGammaIntegrated is the same normalised AST as GMRF's; closed-form constants of both integrated priors are "
        "checked as polynomials over opaque log/lgamma atoms.  C20.G: the sufficient statistics split the C(k,2)·interval terms at the mark that "
        "log_prob counts for the θ lookup."
    )
    rep.rule('C20.Q', "published precision matrix: xᵀQx = τΣ(Δx)², symmetric, zero row sums (dims 3..6); density terms (N−1)/2 log τ − τ/2 ΣΔx² − (N−1)/2 log 2π")
    rep.rule('C20.V', "weights / time-aware scaling used by the density are also used by the published precision matrix")
    rep.rule('C20.S', "integrated priors: same difference weighting as the GMRF; closed-form constants as documented")
    rep.rule('C20.G', "sufficient statistics are split at the mark log_prob counts; C(k,2)·interval terms; one group per θ")
    rep.not_decided += ["numerical integration identities", "batched variants"]
    for f, rule in ((check_precision_matrix, 'C20.Q'), (check_config_agreement, 'C20.V'), (check_clones, 'C20.S'), (check_grouping, 'C20.G')):
        try:
            f(ctx, rep)
        except Unsupported as u:
            rep.undecided(rule, f.__name__, f"line {getattr(u.node, 'lineno', 0)}", str(u))
    # the precision matrix that was published for a state stays the matrix of that state (the block update holds the one of the current state while it asks for the one of the
    # proposed state): C11.M rule on the GMRF modules
    from props import c11
    from sa.report import RuleProxy as _RPb
    c11.check_handed_out_buffers(ctx, _RPb(rep, 'C20.Q', 'published::'), only=lambda m: m.name in (GM, GI))
    # the closed-form constants are computed at the precision of the heights: hyper-parameters given as Python numbers stay Python numbers (math.log / math.lgamma) or become
    # tensors with an explicit dtype, never default-precision tensors that other methods compute with
    from sa import dtypes
    dtypes.check_default_precision_attributes(ctx, rep, 'C20.S', [CO, GM, GI])
    rep.rule('C20.H', "the block-update operator reads the published precision matrix of the current state before it stores the proposed precision (and of the proposed state after)")
    check_block_update_reads_before_it_writes(ctx, rep)
    # what the operator restores or proposes reaches the GMRF and the coalescent that listen to the field and the precision: through the notifying setter (C11.W)
    from props import c11 as _c11h
    from sa.report import RuleProxy as _RPh
    _c11h.check_inplace(ctx, _RPh(rep, 'C20.H', 'operators::'), rule='C11.W', only=lambda m, fn: m.name.startswith('torchtree.inference.mcmc'))
    # C20.O — the integrated coalescent and the sufficient statistics sort the events of every sample themselves (order-kind analysis of sa/orders.py)
    from sa import orders
    from sa.report import RuleProxy
    rep.rule('C20.O', "integrated coalescent / sufficient statistics: vectors in input order and in sorted order are kept apart, and every sample of a batch is sorted with its own permutation")
    orders.check_orders(ctx, RuleProxy(rep, 'C20.O', ''), 'C20.O', 'torchtree.evolution.coalescent', floor=3,
                        only=lambda cname, fn: 'Integrated' in cname or fn.name in ('sufficient_statistics', '_sorted_terms', 'maximum_likelihood'))


def check_block_update_reads_before_it_writes(ctx, rep):
    """C20.H — the block-update proposal needs the published precision matrix of BOTH states: the current one (backward move) and the proposed one (forward move).  The matrix of
    the current state can only be read before `self.gmrf.precision.tensor = <proposal>`; a read after that store returns the proposed matrix again, and the backward proposal —
    hence the Hastings ratio — is computed with the wrong Gaussian."""
    from sa.cfg import CFG
    cls = ctx.classes.find('torchtree.inference.mcmc.gmrf_block_updating.GMRFPiecewiseCoalescentBlockUpdatingOperator')
    if cls is None:
        rep.undecided('C20.H', 'block-update', '', 'operator class not found')
        return
    r = cls.resolve('_step')
    fn = r[1]
    cfg = CFG(fn)
    stores = [n for n in cfg.stmt_nodes() if isinstance(n.stmt, ast.Assign) and any(ast.unparse(t).replace(' ', '') == 'self.gmrf.precision.tensor' for t in n.stmt.targets)]
    reads = [n for n in cfg.stmt_nodes() if isinstance(n.stmt, ast.Assign) and isinstance(n.stmt.value, ast.Call) and ast.unparse(n.stmt.value.func).replace(' ', '') == 'self.gmrf.precision_matrix'
             and len(n.stmt.targets) == 1 and isinstance(n.stmt.targets[0], ast.Name)]
    key = 'GMRFPiecewiseCoalescentBlockUpdatingOperator._step::matrix-of-the-current-state-is-read-before-the-precision-is-replaced'
    if len(stores) != 1 or not reads:
        rep.undecided('C20.H', key, where(cls.module, fn), f"{len(stores)} stores of the precision and {len(reads)} reads of precision_matrix() found")
        return
    S = stores[0]
    pre = [n.stmt.targets[0].id for n in reads if cfg.dominates(n, S)]
    post = [n.stmt.targets[0].id for n in reads if cfg.dominates(S, n)]
    used = {x.id for x in ast.walk(fn) if isinstance(x, ast.Name) and isinstance(x.ctx, ast.Load)}
    ok = bool(pre) and bool(post) and all(v in used for v in pre + post) and not (set(pre) & set(post))
    rep.check('C20.H', key, ok, where(cls.module, S.stmt), {'read_before_the_store': pre, 'read_after_the_store': post},
              f"_step reads precision_matrix() into {pre or 'nothing'} before `self.gmrf.precision.tensor = …` and into {post or 'nothing'} after it: the backward proposal needs the matrix "
              f"of the current precision, which no longer exists once the proposed precision has been stored — both matrices are then the proposed one and the Hastings ratio is wrong")
