"""C16 — the leapfrog integrator is reversible and volume preserving; Hastings = ΔK.

LeapfrogIntegrator.__call__ is abstractly executed (loop unrolled for N = 1, 2, 3) in the
domain of linear forms over the atoms  q0, p0, g_k = ∇log π(q at the k-th evaluation)  with
coefficients that are polynomials in ε and M⁻¹, and compared with the Störmer–Verlet
reference written in the checker (a composition of shears with palindromic coefficients).
"""
from __future__ import annotations

import ast
from typing import Dict, List, Optional, Tuple

from sa.cfg import CFG
from sa.loader import AnalysisError, Unsupported, dotted_name, norm_text
from sa.members import self_attr
from sa.poly import Rat, ToRat
from sa.report import where
from sa.util import local_assignments, method_calls

INTEGRATOR = 'torchtree.inference.hmc.integrator.LeapfrogIntegrator'
HMCOP = 'torchtree.inference.hmc.operator.HMCOperator'
HAM = 'torchtree.inference.hmc.hamiltonian.Hamiltonian'


class Lin:
    """linear form: atom -> Rat coefficient"""

    def __init__(self, d=None):
        self.d: Dict[str, Rat] = {k: v for k, v in (d or {}).items() if not v.is_zero()}

    @staticmethod
    def atom(a):
        return Lin({a: Rat.const(1)})

    def __add__(self, o):
        d = dict(self.d)
        for k, v in o.d.items():
            d[k] = d[k] + v if k in d else v
        return Lin(d)

    def __neg__(self):
        return Lin({k: -v for k, v in self.d.items()})

    def __sub__(self, o):
        return self + (-o)

    def scale(self, r: Rat):
        return Lin({k: v * r for k, v in self.d.items()})

    def equals(self, o) -> bool:
        keys = set(self.d) | set(o.d)
        for k in keys:
            a = self.d.get(k, Rat.const(0))
            b = o.d.get(k, Rat.const(0))
            if not a.equals(b):
                return False
        return True

    def __repr__(self):
        return ' + '.join(f"({v})*{k}" for k, v in sorted(self.d.items())) or '0'


EPS = Rat.sym('eps')
MINV = Rat.sym('Minv')


class Exec:
    """abstract execution of the integrator body"""

    def __init__(self, fn: ast.FunctionDef, module, n_steps: int):
        self.fn = fn
        self.module = module
        self.n = n_steps
        params = [a.arg for a in fn.args.args]
        # (self, model, parameters, momentum, inverse_mass_matrix)
        if len(params) < 5:
            raise Unsupported(fn, 'integrator signature not understood')
        self.model, self.parameters, self.momentum, self.minv = params[1], params[2], params[3], params[4]
        self.env: Dict[str, object] = {self.momentum: Lin.atom('p0')}
        self.leaf: Optional[Lin] = None  # value the model's leaves hold
        self.leaf_fresh = False
        self.evals: List[Lin] = []  # q at each gradient evaluation
        self.grad_of: Optional[int] = None  # evaluation index whose gradient sits in .grad
        self.pending: Optional[int] = None  # evaluation index of the last model() call
        self.problems: List[str] = []
        self.raises: List[str] = []
        self.ret: Optional[Lin] = None
        self.trace: List[str] = []

    # -- scalars -----------------------------------------------------------
    def scalar(self, e) -> Optional[Rat]:
        try:
            return ToRat(self._scalar_atom)(e)
        except Unsupported:
            return None

    def _scalar_atom(self, e):
        if self_attr(e) == 'step_size':
            return EPS
        return None

    # -- values ------------------------------------------------------------
    def value(self, e) -> Lin:
        if isinstance(e, ast.Name):
            v = self.env.get(e.id)
            if isinstance(v, Lin):
                return v
            raise Unsupported(e, f"{e.id} has no tracked value")
        if isinstance(e, ast.UnaryOp) and isinstance(e.op, ast.USub):
            return -self.value(e.operand)
        if isinstance(e, ast.Call):
            f = e.func
            if isinstance(f, ast.Attribute) and f.attr in ('clone', 'detach', 'requires_grad_', 'contiguous') and not e.args:
                return self.value(f.value)
            dn = (dotted_name(f) or '').split('.')[-1]
            if dn == 'cat' and e.args and isinstance(e.args[0], (ast.ListComp, ast.GeneratorExp)):
                comp = e.args[0]
                it = comp.generators[0].iter
                if isinstance(it, ast.Name) and it.id == self.parameters:
                    # chain of attributes on the loop variable
                    chain = []
                    x = comp.elt
                    while isinstance(x, (ast.Call, ast.Attribute)):
                        if isinstance(x, ast.Call):
                            x = x.func
                        else:
                            chain.append(x.attr)
                            x = x.value
                    chain = list(reversed(chain))
                    if chain[:1] == ['tensor']:
                        if self.leaf is None:
                            return Lin.atom('q0')
                        return self.leaf
                    if chain[:1] == ['grad']:
                        if self.grad_of is None:
                            raise Unsupported(e, 'gradient read before any backward()')
                        return Lin.atom(f"g{self.grad_of}")
            raise Unsupported(e, f"call {ast.unparse(e)[:50]} not understood")
        if isinstance(e, ast.BinOp):
            if isinstance(e.op, (ast.Add, ast.Sub)):
                a, b = self.value(e.left), self.value(e.right)
                return a + b if isinstance(e.op, ast.Add) else a - b
            if isinstance(e.op, (ast.Mult, ast.MatMult, ast.Div)):
                # scalar * value, value * scalar, Minv * value, Minv @ value, value / scalar
                sl, sr = self.scalar_or_minv(e.left), self.scalar_or_minv(e.right)
                if isinstance(e.op, ast.Div):
                    if sr is None:
                        raise Unsupported(e, 'division by a non-scalar')
                    return self.value(e.left).scale(Rat.const(1) / sr)
                if sl is not None and sr is None:
                    return self.value(e.right).scale(sl)
                if sr is not None and sl is None:
                    return self.value(e.left).scale(sr)
                if sl is not None and sr is not None:
                    raise Unsupported(e, 'product of two scalars where a vector is expected')
                raise Unsupported(e, f"product {ast.unparse(e)[:50]} of two vectors")
        raise Unsupported(e, f"expression {ast.unparse(e)[:50]} not understood")

    def scalar_or_minv(self, e) -> Optional[Rat]:
        if isinstance(e, ast.Name) and e.id == self.minv:
            return MINV
        if isinstance(e, ast.BinOp) and isinstance(e.op, (ast.Mult, ast.Div, ast.MatMult)):
            a, b = self.scalar_or_minv(e.left), self.scalar_or_minv(e.right)
            if a is not None and b is not None:
                return a * b if not isinstance(e.op, ast.Div) else a / b
            return None
        return self.scalar(e)

    # -- statements -----------------------------------------------------------
    def run(self):
        self.block(self.fn.body)
        return self

    def block(self, stmts):
        for st in stmts:
            if self.ret is not None:
                return
            self.stmt(st)

    def stmt(self, st):
        if isinstance(st, (ast.Assert, ast.Pass)) or (isinstance(st, ast.Expr) and isinstance(st.value, ast.Constant)):
            return
        if isinstance(st, ast.Return):
            self.ret = self.value(st.value)
            return
        if isinstance(st, ast.Assign) and len(st.targets) == 1 and isinstance(st.targets[0], ast.Name):
            name = st.targets[0].id
            v = st.value
            if isinstance(v, ast.Call) and isinstance(v.func, ast.Name) and v.func.id == self.model:
                if not self.leaf_fresh:
                    self.problems.append(f"line {st.lineno}: the model is evaluated without fresh leaf tensors (no set_tensor since the last backward): "
                                         f"gradients accumulate in .grad")
                self.evals.append(self.leaf if self.leaf is not None else Lin.atom('q0'))
                self.pending = len(self.evals) - 1
                self.env[name] = ('U', self.pending)
                return
            self.env[name] = self.value(v)
            return
        if isinstance(st, ast.AugAssign) and isinstance(st.target, ast.Name):
            cur = self.env.get(st.target.id)
            if not isinstance(cur, Lin):
                raise Unsupported(st, 'augmented assignment to an untracked name')
            rhs = self.value(st.value)
            if isinstance(st.op, ast.Add):
                self.env[st.target.id] = cur + rhs
            elif isinstance(st.op, ast.Sub):
                self.env[st.target.id] = cur - rhs
            else:
                raise Unsupported(st, 'augmented operator not understood')
            return
        if isinstance(st, ast.Expr) and isinstance(st.value, ast.Call):
            c = st.value
            dn = dotted_name(c.func) or ''
            if dn.split('.')[-1] == 'set_tensor' and len(c.args) == 2:
                self.leaf = self.value(c.args[1])
                self.leaf_fresh = True
                return
            if isinstance(c.func, ast.Attribute) and c.func.attr == 'backward' and isinstance(c.func.value, ast.Name):
                u = self.env.get(c.func.value.id)
                if not (isinstance(u, tuple) and u[0] == 'U'):
                    raise Unsupported(st, 'backward() on something that is not the model value')
                self.grad_of = u[1]
                self.leaf_fresh = False
                return
            raise Unsupported(st, f"call {ast.unparse(c)[:50]} not understood")
        if isinstance(st, ast.If):
            # NaN guards
            calls = [(dotted_name(c.func) or '').split('.')[-1] for c in ast.walk(st.test) if isinstance(c, ast.Call)]
            if 'isnan' in calls or 'isinf' in calls or 'isfinite' in calls:
                for b in st.body:
                    for n in ast.walk(b):
                        if isinstance(n, ast.Raise) and n.exc is not None:
                            f = n.exc.func if isinstance(n.exc, ast.Call) else n.exc
                            self.raises.append((dotted_name(f) or '').split('.')[-1])
                if not all(isinstance(b, ast.Raise) for b in st.body) or st.orelse:
                    raise Unsupported(st, 'NaN guard that does more than raise')
                return
            # dim()==1 / else: both branches must agree
            if any(isinstance(n, ast.Name) and n.id == self.minv for n in ast.walk(st.test)):
                saved = dict(self.env)
                self.block(st.body)
                a = dict(self.env)
                self.env = dict(saved)
                self.block(st.orelse)
                b = self.env
                for k in set(a) | set(b):
                    va, vb = a.get(k), b.get(k)
                    if isinstance(va, Lin) and isinstance(vb, Lin):
                        if not va.equals(vb):
                            self.problems.append(f"line {st.lineno}: diagonal and dense mass-matrix branches update `{k}` differently")
                    elif va != vb:
                        self.problems.append(f"line {st.lineno}: branches disagree on `{k}`")
                self.env = a
                return
            raise Unsupported(st, 'conditional not understood')
        if isinstance(st, ast.For):
            it = st.iter
            if isinstance(it, ast.Call) and isinstance(it.func, ast.Name) and it.func.id == 'range' and len(it.args) == 1 \
                    and self_attr(it.args[0]) == 'steps':
                for _ in range(self.n):
                    self.block(st.body)
                return
            if isinstance(it, ast.Name) and it.id == self.parameters:
                # housekeeping loop (requires_grad = False)
                for b in st.body:
                    ok = isinstance(b, ast.Assign) and isinstance(b.targets[0], ast.Attribute) and b.targets[0].attr == 'requires_grad'
                    if not ok:
                        raise Unsupported(b, 'loop over parameters does more than reset requires_grad')
                return
            raise Unsupported(st, 'loop not understood')
        raise Unsupported(st, f"statement {norm_text(st)[:50]} not understood")


def reference(n: int) -> Tuple[Lin, Lin, List[Lin]]:
    """Störmer–Verlet with g = ∇log π:  p += ε/2 g(q); [q += ε M⁻¹ p; p += ε g(q)]×n with the last ε/2."""
    q, p = Lin.atom('q0'), Lin.atom('p0')
    evals = [q]
    half = Rat.const(1) / Rat.const(2)
    p = p + Lin.atom('g0').scale(EPS * half)
    for k in range(1, n + 1):
        q = q + p.scale(EPS * MINV)
        evals.append(q)
        p = p + Lin.atom(f"g{k}").scale(EPS * (half if k == n else Rat.const(1)))
    return q, p, evals


def check_integrator(ctx, rep):
    cls = ctx.classes.get(INTEGRATOR)
    r = cls.resolve('__call__')
    if r is None:
        raise AnalysisError('LeapfrogIntegrator.__call__ not found')
    fn = r[1]
    m = r[0].module
    W = where(m, fn)
    caught = set()
    for n in (1, 2, 3):
        try:
            ex = Exec(fn, m, n).run()
        except Unsupported as u:
            rep.undecided('C16.P', f"LeapfrogIntegrator.__call__::steps={n}", where(m, u.node), str(u))
            continue
        qr, pr, er = reference(n)
        facts = {'steps': n, 'momentum_returned': repr(ex.ret), 'position_left_in_model': repr(ex.leaf), 'reference_momentum': repr(pr),
                 'gradient_evaluations': len(ex.evals)}
        ok_p = ex.ret is not None and ex.ret.equals(pr)
        rep.check('C16.P', f"LeapfrogIntegrator.__call__::momentum::steps={n}", ok_p, W, facts,
                  f"with {n} step(s) the returned momentum is {ex.ret!r}; the leapfrog (half step, {n} full position steps, interior full momentum "
                  f"steps, half step, g=∇log π) gives {pr!r}: the map is not the palindromic composition of shears, so it is not reversible / second order")
        ok_q = ex.leaf is not None and ex.leaf.equals(qr)
        rep.check('C16.P', f"LeapfrogIntegrator.__call__::position::steps={n}", ok_q, W, facts,
                  f"with {n} step(s) the position left in the parameters is {ex.leaf!r}, the leapfrog gives {qr!r}")
        ok_e = len(ex.evals) == len(er) and all(a.equals(b) for a, b in zip(ex.evals, er))
        rep.check('C16.H', f"LeapfrogIntegrator.__call__::gradient-at-current-position::steps={n}", ok_e, W,
                  {'evaluated_at': [repr(e) for e in ex.evals], 'reference': [repr(e) for e in er]},
                  "a gradient used in a momentum update is not the gradient at the position reached by the preceding position update "
                  "(momentum updates must depend on q only and position updates on p only: shears)")
        rep.check('C16.G', f"LeapfrogIntegrator.__call__::fresh-gradients::steps={n}", not ex.problems, W, {'problems': ex.problems},
                  '; '.join(ex.problems) or '')
        caught |= set(ex.raises)
    # NaN checks raise the exception the operator catches
    op = ctx.classes.get(HMCOP)
    sfn = op.resolve('_step')[1]
    handled = set()
    for t in [n for n in ast.walk(sfn) if isinstance(n, ast.Try)]:
        for h in t.handlers:
            for x in ((h.type.elts if isinstance(h.type, ast.Tuple) else [h.type]) if h.type is not None else []):
                handled.add((dotted_name(x) or '').split('.')[-1])
    rep.check('C16.G', 'LeapfrogIntegrator.__call__::failures-raise-what-the-operator-catches', bool(caught) and caught <= handled, W,
              {'raised': sorted(caught), 'caught_by_HMCOperator._step': sorted(handled)},
              f"the integrator's NaN guards raise {sorted(caught)} but HMCOperator._step catches {sorted(handled)}: a numerical failure aborts the run "
              f"instead of being retried/rejected")
    # set_tensor: slices are consecutive and assigned through the setter with fresh leaves
    mod = ctx.prog.module('torchtree.inference.hmc.integrator')
    st_fn = mod.functions.get('set_tensor')
    if st_fn is None:
        raise AnalysisError('integrator.set_tensor not found')
    ok = False
    for loop in [n for n in ast.walk(st_fn) if isinstance(n, ast.For)]:
        assigns = [b for b in loop.body if isinstance(b, ast.Assign) and isinstance(b.targets[0], ast.Attribute) and b.targets[0].attr == 'tensor']
        advances = [b for b in loop.body if isinstance(b, ast.AugAssign) and isinstance(b.op, ast.Add)]
        if assigns and advances:
            a = assigns[0]
            fresh = any(isinstance(c, ast.Call) and isinstance(c.func, ast.Attribute) and c.func.attr == 'requires_grad_' for c in ast.walk(a.value))
            sl = [s for s in ast.walk(a.value) if isinstance(s, ast.Slice)]
            adv = advances[0]
            width_same = bool(sl) and sl[0].upper is not None and isinstance(sl[0].upper, ast.BinOp) \
                and ast.unparse(sl[0].upper.right) == ast.unparse(adv.value) and ast.unparse(sl[0].lower) == ast.unparse(adv.target)
            after = loop.body.index(adv) > loop.body.index(a)
            ok = fresh and width_same and after
    rep.check('C16.G', 'set_tensor::consecutive-fresh-leaves', ok, where(mod, st_fn), None,
              "set_tensor must give every parameter its own consecutive slice as a fresh leaf (requires_grad_) through the tensor setter")


def check_operator(ctx, rep):
    op = ctx.classes.get(HMCOP)
    fn = op.resolve('_step')[1]
    m = op.module
    W = where(m, fn)
    cfg = CFG(fn)

    def stmt_of(n):
        while not isinstance(n, ast.stmt):
            n = n._parent
        return n
    ke_calls = method_calls(fn, 'kinetic_energy')
    int_calls = [c for c in ast.walk(fn) if isinstance(c, ast.Call) and self_attr(c.func) == '_integrator']
    samp = method_calls(fn, 'sample_momentum')
    if len(ke_calls) != 2 or len(int_calls) != 1 or len(samp) != 1:
        raise Unsupported(fn, f"HMCOperator._step: {len(ke_calls)} kinetic_energy, {len(int_calls)} integrator, {len(samp)} sample_momentum calls")
    ke_calls.sort(key=lambda c: c.lineno)
    k0s, k1s, ints, samps = stmt_of(ke_calls[0]), stmt_of(ke_calls[1]), stmt_of(int_calls[0]), stmt_of(samp[0])
    K0, K1 = k0s.targets[0].id, k1s.targets[0].id
    pvar = samps.targets[0].id
    n0, n1, ni, ns = cfg.node_of(k0s), cfg.node_of(k1s), cfg.node_of(ints), cfg.node_of(samps)
    order_ok = cfg.dominates(ns, n0) and cfg.dominates(n0, ni) and cfg.dominates(ni, n1) \
        and ni.id not in cfg.reachable_after(n1, avoid={ns.id})
    args0 = [ast.unparse(a) for a in ke_calls[0].args]
    args1 = [ast.unparse(a) for a in ke_calls[1].args]
    int_target = ints.targets[0].id if isinstance(ints, ast.Assign) and isinstance(ints.targets[0], ast.Name) else None
    same_m = len(args0) == 2 and len(args1) == 2 and args0[1] == args1[1]
    mom_ok = args0[:1] == [pvar] and args1[:1] == [int_target]
    # integrator receives the sampled momentum and the same inverse mass matrix
    iargs = [ast.unparse(a) for a in int_calls[0].args]
    int_ok = pvar in iargs and (len(args0) > 1 and args0[1] in iargs)
    facts = {'K0': norm_text(k0s), 'K1': norm_text(k1s), 'integrator_call': norm_text(ints)[:120], 'sampled_momentum': pvar}
    rep.check('C16.K', 'HMCOperator._step::kinetic-energies-bracket-the-integrator', order_ok and same_m and mom_ok and int_ok, W, facts,
              "K0 must be the kinetic energy of the sampled momentum before the integrator runs and K1 that of the momentum it returns, "
              "both with the same inverse mass matrix that the integrator uses")
    rets = [n for n in ast.walk(fn) if isinstance(n, ast.Return) and isinstance(n.value, ast.BinOp)]
    ok = len(rets) == 1 and isinstance(rets[0].value.op, ast.Sub) and isinstance(rets[0].value.left, ast.Name) and rets[0].value.left.id == K0 \
        and isinstance(rets[0].value.right, ast.Name) and rets[0].value.right.id == K1
    rep.check('C16.K', 'HMCOperator._step::returns-K0-minus-K1', ok, W, {'return': norm_text(rets[0]) if rets else None},
              f"the Hastings term must be `{K0} - {K1}` (initial minus final kinetic energy) so that log-density change + Hastings = −ΔH")
    # failure: after max_trials returns +inf
    inf_ret = any(isinstance(n, ast.Return) and any(isinstance(c, ast.Constant) and c.value in ('inf',) for c in ast.walk(n.value))
                  or isinstance(n, ast.Return) and 'inf' in ast.unparse(n.value) for n in ast.walk(fn) if isinstance(n, ast.Return))
    rep.check('C16.K', 'HMCOperator._step::gives-up-with-infinite-hastings', inf_ret, W, None,
              "after repeated numerical failures the operator must return an infinite Hastings term (the MCMC loop then rejects)")
    # Hamiltonian pair: sample N(0, M)  <->  K = 1/2 p^T M^-1 p
    ham = ctx.classes.get(HAM)
    kfn = ham.resolve('kinetic_energy')[1]
    kp = [a.arg for a in kfn.args.args]
    pm, im = kp[1], kp[2]

    def katom(e):
        if isinstance(e, ast.Name) and e.id == pm:
            return Rat.sym('p')
        if isinstance(e, ast.Name) and e.id == im:
            return Rat.sym('Minv')
        return None

    def dot(tr, e):
        if len(e.args) == 2:
            return tr(e.args[0]) * tr(e.args[1])
        return None
    vals = []
    for st in ast.walk(kfn):
        if isinstance(st, ast.Assign):
            try:
                v = st.value
                # a @ b inside: treat as product
                class MM(ast.NodeTransformer):
                    def visit_BinOp(self, node):
                        self.generic_visit(node)
                        if isinstance(node.op, ast.MatMult):
                            return ast.BinOp(left=node.left, op=ast.Mult(), right=node.right)
                        return node
                import copy
                v2 = MM().visit(copy.deepcopy(v))
                vals.append(ToRat(katom, funcs={'dot': dot})(v2))
            except Unsupported:
                vals.append(None)
    want = Rat.sym('p') * Rat.sym('p') * Rat.sym('Minv') * Rat.const(1) / Rat.const(2)
    ok = len(vals) >= 1 and all(v is not None and v.equals(want) for v in vals)
    rep.check('C16.K', 'Hamiltonian.kinetic_energy::half-p-Minv-p', ok, where(ham.module, kfn), {'branches': [repr(v) for v in vals]},
              "kinetic energy must be ½·pᵀM⁻¹p in both the diagonal and the dense branch")
    sfn = ham.resolve('sample_momentum')[1]
    mm = [a.arg for a in sfn.args.args][1]
    good = 0
    bad = []
    for c in ast.walk(sfn):
        if isinstance(c, ast.Call):
            nm = (dotted_name(c.func) or '').split('.')[-1]
            if nm == 'Normal' and len(c.args) >= 2:
                s = c.args[1]
                if isinstance(s, ast.Call) and isinstance(s.func, ast.Attribute) and s.func.attr == 'sqrt' and isinstance(s.func.value, ast.Name) and s.func.value.id == mm:
                    good += 1
                else:
                    bad.append(f"Normal scale {ast.unparse(s)}")
            if nm == 'MultivariateNormal':
                kws = {kw.arg: kw.value for kw in c.keywords}
                if 'covariance_matrix' in kws and isinstance(kws['covariance_matrix'], ast.Name) and kws['covariance_matrix'].id == mm:
                    good += 1
                else:
                    bad.append(f"MultivariateNormal({', '.join(k or '' for k in kws)})")
    rep.check('C16.K', 'Hamiltonian.sample_momentum::N(0,M)', good == 2 and not bad, where(ham.module, sfn), {'problems': bad},
              f"momentum must be drawn from N(0, M) (std √M diagonal / covariance M dense) to match K = ½pᵀM⁻¹p; found {bad}")
    # potential energy is minus the joint
    pfn = ham.resolve('potential_energy')[1]
    ok = any(isinstance(st, ast.Assign) and isinstance(st.value, ast.UnaryOp) and isinstance(st.value.op, ast.USub)
             and isinstance(st.value.operand, ast.Call) and self_attr(st.value.operand.func) == 'joint' for st in ast.walk(pfn))
    rep.check('C16.K', 'Hamiltonian.potential_energy::minus-log-joint', ok, where(ham.module, pfn), None, "potential energy must be −joint()")


def run(ctx, rep):
    rep.explanation = (
        "Abstract execution of LeapfrogIntegrator.__call__ (loop unrolled for 1, 2 and 3 steps) in the domain of linear forms over "
        "q0, p0 and the gradients g_k at the successive evaluation points, with coefficients polynomial in the step size and M⁻¹; "
        "the result (returned momentum, position left in the parameters, the point of every gradient evaluation) must equal the "
        "Störmer–Verlet reference, which is a palindromic composition of shears — hence volume preserving, time reversible and "
        "second order.  Leaf freshness between backward() calls is tracked as a typestate.  HMCOperator._step is checked by "
        "dominance and def-use: K0 before / K1 after the integrator with the same M⁻¹, Hastings = K0 − K1; the momentum draw and "
        "the kinetic energy are a consistent pair."
    )
    rep.rule('C16.P', "returned momentum and final position equal the Störmer–Verlet leapfrog for 1, 2, 3 steps (palindromic ½,1,…,1,½ coefficients)")
    rep.rule('C16.H', "every gradient used in a momentum update is evaluated at the position produced by the preceding position update (shear structure)")
    rep.rule('C16.G', "leaves are re-created between backward() calls (no gradient accumulation); NaN guards raise the exception HMCOperator catches")
    rep.rule('C16.K', "HMCOperator returns K(p0) − K(p1) with both kinetic energies from the same M⁻¹ bracketing the integrator call; sample_momentum ↔ kinetic_energy consistent")
    rep.assumptions += ["Normal(0, s) has variance s²; MultivariateNormal(covariance_matrix=M) has covariance M", "U.backward() adds ∇U into .grad of the current leaves"]
    rep.not_decided += ["the O(ε²) energy error numerically", "round-off"]
    for f, rule in ((check_integrator, 'C16.P'), (check_operator, 'C16.K')):
        try:
            f(ctx, rep)
        except Unsupported as u:
            rep.undecided(rule, f.__name__, f"line {getattr(u.node, 'lineno', 0)}", str(u))
