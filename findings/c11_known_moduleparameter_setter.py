"""KNOWN (C11.R): ModuleParameter.tensor setter reads self.x and self.transform, which the class never defines
(copied from TransformedParameter): assigning to a ModuleParameter raises AttributeError. Exit 1 while present."""
import torch
from torchtree.core.parameter import ModuleParameter
class M:
    def __call__(self): return torch.ones(2)
    def parameters(self): return []
p = ModuleParameter('m', M())
try:
    p.tensor = torch.zeros(2)
    print('OK')
except AttributeError as e:
    print('FAIL', e); raise SystemExit(1)
