"""Mutation corpus driver (thorough tier).

Each corpus entry is an AST-located edit: (module path, qualified scope, normalised text of
the statement to replace, replacement source).  The statement is found by comparing
`ast.unparse` texts, so re-formatting the repository does not break the corpus.  Breaking
variants must make the rule fire on the named instance; benign twins must stay silent.
The verdict on /repo never depends on the corpus; a corpus failure means the *checker* is
broken (exit 2).
"""
from __future__ import annotations

import ast
import contextlib
import importlib
import io
import json
import os
import shutil
import sys
import tempfile
import textwrap
from concurrent.futures import ProcessPoolExecutor
from typing import List, Optional

HERE = os.path.dirname(os.path.dirname(os.path.abspath(__file__)))


class Mut:
    def __init__(self, id, file, scope, old, new, expect=None, benign=False, note='', nth=0, mode='stmt', more=None):
        """file: path relative to repo; scope: 'Class.method' / 'function' / '' (module);
        old: statement text (normalised by ast) or a substring of one (prefix match with '…');
        new: replacement source (statement(s)); '' deletes (replaced by `pass`).
        expect: list of (rule, substring of instance key) that must be reported VIOLATED;
        benign=True: no new violation may appear."""
        self.id = id
        self.file = file
        self.scope = scope
        self.old = old
        self.new = new
        self.expect = expect or []
        self.benign = benign
        self.note = note
        self.nth = nth
        self.mode = mode
        self.more = more or []  # further edits applied to the same file: dicts(scope, old, new, nth, mode)


def _find_scope(tree, scope):
    node = tree
    if not scope:
        return node
    for part in scope.split('.'):
        found = None
        for st in ast.walk(node):
            if st is node:
                continue
            if isinstance(st, (ast.FunctionDef, ast.AsyncFunctionDef, ast.ClassDef)) and st.name == part:
                found = st
                break
        if found is None:
            return None
        node = found
    return node


def _norm(s: str) -> str:
    try:
        return ast.unparse(ast.parse(textwrap.dedent(s)))
    except SyntaxError:
        return s.strip()


def apply_mut(src: str, mut: Mut) -> Optional[str]:
    if mut.mode == 'text':
        if src.count(mut.old) < 1:
            return None
        return src.replace(mut.old, mut.new, 1)
    tree = ast.parse(src)
    scope = _find_scope(tree, mut.scope)
    if scope is None:
        return None
    want = _norm(mut.old) if not mut.old.endswith('…') else None
    prefix = _norm(mut.old[:-1]) if mut.old.endswith('…') else None
    hits = []
    for st in ast.walk(scope):
        if not isinstance(st, ast.stmt) or st is scope:
            continue
        text = ast.unparse(st)
        if (want is not None and text == want) or (prefix is not None and text.startswith(prefix)):
            hits.append(st)
    hits.sort(key=lambda s: (s.lineno, s.col_offset))
    if len(hits) <= mut.nth:
        return None
    st = hits[mut.nth]
    lines = src.splitlines(keepends=True)
    indent = ' ' * st.col_offset
    new = textwrap.dedent(mut.new).strip('\n') if mut.new.strip() else 'pass'
    new_lines = [indent + ln if ln.strip() else ln for ln in new.splitlines()]
    start = st.lineno - 1
    if getattr(st, 'decorator_list', None):
        start = min(d.lineno for d in st.decorator_list) - 1
    head = lines[start][: st.col_offset] if start == st.lineno - 1 else ''
    if head.strip():
        return None  # statement does not start its line (a; b)
    out = lines[:start] + [ln + '\n' for ln in new_lines] + lines[st.end_lineno:]
    res = ''.join(out)
    try:
        ast.parse(res)
    except SyntaxError:
        return None
    return res


def _run_one(args):
    prop, repo, mut_d, base_viol = args
    sys.path.insert(0, HERE)
    import check  # noqa

    mut = Mut(**mut_d)
    tmp_root = '/dev/shm' if os.path.isdir('/dev/shm') else tempfile.gettempdir()
    d = tempfile.mkdtemp(prefix='verif-st-', dir=tmp_root)
    try:
        shutil.copytree(os.path.join(repo, 'torchtree'), os.path.join(d, 'torchtree'),
                        ignore=shutil.ignore_patterns('__pycache__'))
        path = os.path.join(d, mut.file)
        with open(path) as fh:
            src = fh.read()
        new = apply_mut(src, mut)
        for extra in mut.more:
            if new is None:
                break
            new = apply_mut(new, Mut(mut.id, mut.file, extra.get('scope', mut.scope), extra['old'], extra['new'],
                                     nth=extra.get('nth', 0), mode=extra.get('mode', 'stmt')))
        if new is None or new == src:
            return {'id': mut.id, 'status': 'skip', 'why': 'edit site not found in current tree'}
        with open(path, 'w') as fh:
            fh.write(new)
        buf = io.StringIO()
        with contextlib.redirect_stdout(buf), contextlib.redirect_stderr(buf):
            from sa.report import Report
            rep = Report(prop, 'quick', d, out_dir=d)
            try:
                ctx = check.Context(d)
                mod = importlib.import_module(f"props.{prop.lower()}")
                mod.run(ctx, rep)
                crashed = None
            except Exception as e:  # AnalysisError or internal
                crashed = f"{type(e).__name__}: {e}"
        viol = {(o.rule, o.key) for o in rep.obs if o.status == 'violated'}
        und = {(o.rule, o.key) for o in rep.obs if o.status == 'undecided'}
        new_viol = sorted(v for v in viol if list(v) not in base_viol and tuple(v) not in base_viol)
        if mut.benign:
            ok = not new_viol and crashed is None
            return {'id': mut.id, 'status': 'ok' if ok else 'fail', 'benign': True,
                    'new_violations': new_viol, 'crashed': crashed}
        missing = []
        for rule, sub in mut.expect:
            if not any(r == rule and sub in k for r, k in new_viol):
                missing.append((rule, sub))
        ok = not missing and crashed is None and (mut.expect or new_viol)
        return {'id': mut.id, 'status': 'ok' if ok else 'fail', 'benign': False,
                'new_violations': new_viol[:6], 'missing': missing, 'crashed': crashed,
                'undecided': sorted(und)[:4]}
    finally:
        shutil.rmtree(d, ignore_errors=True)


def _run_seed(args):
    """seeded change from an independent sub-agent (patch.diff applied with patch -p1 on the scratch copy)."""
    prop, repo, sid, patch_path, base_viol = args
    sys.path.insert(0, HERE)
    import check  # noqa
    import subprocess
    tmp_root = '/dev/shm' if os.path.isdir('/dev/shm') else tempfile.gettempdir()
    d = tempfile.mkdtemp(prefix='verif-seed-', dir=tmp_root)
    try:
        shutil.copytree(os.path.join(repo, 'torchtree'), os.path.join(d, 'torchtree'), ignore=shutil.ignore_patterns('__pycache__'))
        r = subprocess.run(['patch', '-p1', '-s', '-f', '-d', d, '-i', patch_path], capture_output=True, text=True)
        if r.returncode != 0:
            return {'id': sid, 'status': 'skip', 'why': 'seeded patch does not apply to the current tree'}
        buf = io.StringIO()
        with contextlib.redirect_stdout(buf), contextlib.redirect_stderr(buf):
            from sa.report import Report
            rep = Report(prop, 'quick', d, out_dir=d)
            crashed = None
            try:
                ctx = check.Context(d)
                importlib.import_module(f"props.{prop.lower()}").run(ctx, rep)
            except Exception as e:
                crashed = f"{type(e).__name__}: {e}"
        viol = sorted({(o.rule, o.key) for o in rep.obs if o.status == 'violated'} - {tuple(v) for v in base_viol})
        ok = bool(viol) and crashed is None
        return {'id': sid, 'status': 'ok' if ok else 'fail', 'benign': False, 'new_violations': viol[:4], 'crashed': crashed, 'seeded': True}
    finally:
        shutil.rmtree(d, ignore_errors=True)


def run(prop: str, repo: str, jobs: int = 16, verbose=True) -> int:
    try:
        corpus_mod = importlib.import_module(f"selftest.{prop.lower()}")
    except ModuleNotFoundError:
        print(f"[{prop}] self-test: no corpus")
        return 0
    corpus: List[Mut] = corpus_mod.CORPUS
    # violations present on the unmutated tree (known findings) are not credited to a mutant
    sys.path.insert(0, HERE)
    import check  # noqa
    from sa.report import Report

    buf = io.StringIO()
    with contextlib.redirect_stdout(buf):
        rep = Report(prop, 'quick', repo)
        ctx = check.Context(repo)
        importlib.import_module(f"props.{prop.lower()}").run(ctx, rep)
    base = [[o.rule, o.key] for o in rep.obs if o.status == 'violated']
    tasks = [(prop, repo, m.__dict__, base) for m in corpus]
    seeds = []
    sdir = os.path.join(HERE, 'seeded')
    if os.path.isdir(sdir):
        for sid in sorted(os.listdir(sdir)):
            mp = os.path.join(sdir, sid, 'meta.json')
            pp = os.path.join(sdir, sid, 'patch.diff')
            if os.path.exists(mp) and os.path.exists(pp):
                meta = json.load(open(mp))
                if meta.get('property') == prop and meta.get('detected'):
                    seeds.append((prop, repo, sid, pp, base))
    with ProcessPoolExecutor(max_workers=min(jobs, max(1, len(tasks) + len(seeds)))) as ex:
        results = list(ex.map(_run_one, tasks)) + list(ex.map(_run_seed, seeds))
    fails = [r for r in results if r['status'] == 'fail']
    skips = [r for r in results if r['status'] == 'skip']
    oks = [r for r in results if r['status'] == 'ok']
    if verbose:
        print(f"[{prop}] self-test: {len(oks)} ok ({sum(1 for r in oks if r.get('benign'))} benign twins silent, "
              f"{sum(1 for r in oks if not r.get('benign'))} breaking variants caught), {len(skips)} skipped, {len(fails)} failed")
        for r in fails:
            print(f"  SELFTEST-FAIL {r}")
        for r in skips:
            print(f"  SELFTEST-SKIP {r['id']}: {r['why']}")
    # append to the evidence file
    ev_path = os.path.join(HERE, 'evidence', f"{prop}.json")
    if os.path.exists(ev_path):
        with open(ev_path) as fh:
            ev = json.load(fh)
        ev['tier'] = 'thorough'
        ev['coverage']['selftest'] = {
            'variants': len(results), 'caught': sum(1 for r in oks if not r.get('benign')),
            'benign_silent': sum(1 for r in oks if r.get('benign')), 'skipped': [r['id'] for r in skips],
            'failed': [r['id'] for r in fails],
            'results': [{'id': r['id'], 'status': r['status'], 'reported': r.get('new_violations', [])[:3]} for r in results],
        }
        with open(ev_path, 'w') as fh:
            json.dump(ev, fh, indent=1, default=str)
    return 1 if fails else 0
