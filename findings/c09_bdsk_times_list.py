"""C09.O: BDSKModel.from_json wrapped a `times` list given in the specification in a Parameter without converting it
to a tensor: the documented list form of the option was accepted and then failed at evaluation (TypeError in cat)."""
import torch
from torchtree.core.utils import process_object
import torchtree.evolution.tree_model, torchtree.evolution.taxa, torchtree.evolution.bdsk
d = {'id': 'bdsk', 'type': 'BDSKModel',
     'tree_model': {'id': 'tt', 'type': 'TimeTreeModel', 'newick': '((A:1,B:1.5):1,C:2);',
                    'taxa': {'id': 'taxa', 'type': 'Taxa', 'taxa': [{'id': t, 'type': 'Taxon', 'attributes': {'date': v}} for t, v in (('A', 0.5), ('B', 0.0), ('C', 0.0))]},
                    'internal_heights': {'id': 'h', 'type': 'Parameter', 'tensor': [1.5, 2.5]}},
     'R': {'id': 'R', 'type': 'Parameter', 'tensor': [1.5, 1.2]}, 'delta': {'id': 'delta', 'type': 'Parameter', 'tensor': [1.0, 1.1]},
     's': {'id': 's', 'type': 'Parameter', 'tensor': [0.3, 0.4]}, 'origin': {'id': 'o', 'type': 'Parameter', 'tensor': [3.0]},
     'times': [0.0, 0.5]}
try:
    v = process_object(d, {})()
    ref = dict(d); ref['id'] = 'b2'; ref['times'] = {'id': 'times', 'type': 'Parameter', 'tensor': [0.0, 0.5]}
    for k in ('tree_model', 'R', 'delta', 's', 'origin'):
        ref[k] = dict(ref[k], id=ref[k]['id'] + '2')
    ref['tree_model']['taxa'] = dict(ref['tree_model']['taxa'], id='taxa2'); ref['tree_model']['internal_heights'] = dict(ref['tree_model']['internal_heights'], id='h2')
    w = process_object(ref, {})()
    ok = torch.allclose(v, w)
    print('OK' if ok else f'FAIL {v} vs {w}')
    raise SystemExit(0 if ok else 1)
except (TypeError, AttributeError) as e:
    print('FAIL times given as a list:', type(e).__name__, e); raise SystemExit(1)
