from sa.selftest import Mut

CO = 'torchtree/evolution/coalescent.py'
TH = 'torchtree/evolution/tree_height_transform.py'
SM = 'torchtree/evolution/site_model.py'
GM = 'torchtree/distributions/gmrf.py'
TL = 'torchtree/evolution/tree_likelihood.py'
JD = 'torchtree/distributions/joint_distribution.py'
BD = 'torchtree/evolution/bdsk.py'
TP = 'torchtree/distributions/tree_prior.py'
CT = 'torchtree/distributions/ctmc_scale.py'
DD = 'torchtree/distributions/distributions.py'


def T(id, file, old, new, expect=None, benign=False):
    return Mut(id, file, '', old, new, expect=expect, benign=benign, mode='text')


CORPUS = [
    T('c10-max-over-every-axis', TH, "                x[node - self.taxa_count] = heights[node] - torch.max(\n                    heights[left], heights[right]\n                )",
      "                x[node - self.taxa_count] = heights[node] - torch.max(\n                    torch.cat((heights[left], heights[right]), -1)\n                )",
      expect=[('C10.D', 'DifferenceNodeHeightTransform._inverse')]),
    T('c10-sum-without-axis-in-density', CO, "        return torch.sum(-lchoose2 * integral - log_thetas[..., 1:], -1, keepdim=True)", "        return torch.sum(-lchoose2 * integral - log_thetas[..., 1:])",
      expect=[('C10.D', 'ExponentialCoalescent.log_prob')]),
    T('c10-mean-rate-over-batch', SM, "        self._rates = rates / (rates * self._probabilities).sum(-1, keepdim=True)", "        self._rates = rates / (rates * self._probabilities).sum()",
      expect=[('C10.D', 'UnivariateDiscretizedSiteModel.update_rates')]),
    T('c10-unique-over-batch', CO, "node_heights.flatten()[:taxa_count].unique(", "node_heights[..., :taxa_count].unique(", expect=[('C10.D', 'SoftPiecewiseConstantCoalescentGrid.log_prob')]),
    T('c10-gmrf-sum-over-batch', GM, "            - diff_square.sum(-1, keepdim=True) * precision / 2.0", "            - diff_square.sum() * precision / 2.0", expect=[('C10.D', 'GMRF._call')]),
    T('c10-benign-reduction-of-index-range', CO, "        lchoose2 = lineage_count * (lineage_count - 1) / 2.0\n        log_thetas = torch.log(", "        lchoose2 = lineage_count * (lineage_count - 1) / 2.0\n        n_events = torch.ones(node_heights.shape[-1]).sum()\n        log_thetas = torch.log(", benign=True),
    T('c10-benign-named-axis-keyword', SM, "        self._rates = rates / (rates * self._probabilities).sum(-1, keepdim=True)", "        self._rates = rates / (rates * self._probabilities).sum(dim=-1, keepdim=True)", benign=True),
    T('c10-benign-branch-condition', TL, "            if torch.any(torch.isinf(log_p)):\n                self.rescale = True\n                log_p = calculate_treelikelihood_discrete_safe(", "            if torch.isinf(log_p).any():\n                self.rescale = True\n                log_p = calculate_treelikelihood_discrete_safe(", benign=True),
    T('c10-joint-classifies-by-its-own-sample-shape', JD, "            sample_shape = distr.sample_shape\n", "            sample_shape = self.sample_shape\n", expect=[('C10.J', 'component-classified-by-its-own-sample-shape')]),
    T('c10-joint-sums-every-axis', JD, "        return torch.cat(log_p, -1).sum(-1)", "        return torch.cat(log_p, -1).sum()", expect=[('C10.J', 'components-added-along-the-last-axis-only')]),
    T('c10-benign-joint-shape-name', JD, "            sample_shape = distr.sample_shape\n            if lp.shape == sample_shape:", "            sample_shape = distr.sample_shape\n            if lp.shape == distr.sample_shape:", benign=True),
    T('c10-rates-branch-axis-from-the-front', TL, "            rates = rates.reshape(sample_shape + (1, -1))", "            rates = rates.unsqueeze(1)", expect=[('C10.P', 'TreeLikelihoodModel._call::rates.unsqueeze(1)')]),
    T('c10-benign-rates-branch-axis-from-the-end', TL, "            rates = rates.reshape(sample_shape + (1, -1))", "            rates = rates.unsqueeze(-2)", benign=True),
    T('c10-clock-branch-lengths-one-rank-too-far', TL, "                bls = self.clock_model.rates * branch_lengths.expand(\n                    sample_shape + (-1,)\n                )", "                bls = self.clock_model.rates * branch_lengths.expand(\n                    sample_shape + (1, -1)\n                )",
      expect=[('C10.R', 'TreeLikelihoodModel._call')]),
    T('c10-bdsk-root-height-drops-the-axis', BD, "                origin = origin + node_heights[..., -1:]", "                origin = origin + node_heights[..., -1]", expect=[('C10.A', 'PiecewiseConstantBirthDeath.log_prob')]),
    T('c10-dirichlet-prior-sum-drops-the-axis', TP, "        sum_x = x.sum(-1, keepdim=True)", "        sum_x = x.sum(-1)", expect=[('C10.A', 'CompoundGammaDirichletPrior._call')]),
    T('c10-ctmc-scale-ignores-the-tree', CT, "        return max(self.x.tensor.shape[:-1], self.tree_model.sample_shape, key=len)", "        return self.x.tensor.shape[:-1]", expect=[('C10.C', 'CTMCScale::sample-shape-counts')]),
    T('c10-dirichlet-prior-ignores-hyperparameters', TP, "        return max(\n            [self.tree_model.sample_shape]\n            + [parameter.shape[:-1] for parameter in self._parameters.values()],\n            key=len,\n        )", "        return self.tree_model.sample_shape",
      expect=[('C10.C', 'CompoundGammaDirichletPrior::sample-shape-counts')]),
    T('c10-distribution-sample-shape-equal-rank', DD, "        elif len(x_shape) == len(self.batch_shape):\n", "        elif len(x_shape) == len(self.batch_shape) + 7:\n", expect=[('C10.S', "Distribution._sample_shape::x['S', 'N']::parameters['S', '1']")]),
    T('c10-benign-distribution-sample-shape-reordered', DD, "        if len(x_shape) > len(self.batch_shape):\n            offset = 1 if len(self.batch_shape) == 0 else len(self.batch_shape)\n            return x_shape[:-offset]\n        elif len(x_shape) == len(self.batch_shape):",
      "        if len(x_shape) > len(self.batch_shape):\n            offset = max(1, len(self.batch_shape))\n            return x_shape[:-offset]\n        elif len(self.batch_shape) == len(x_shape):", benign=True),
    T('c10-batch-wide-switch-on-a-parameter', CO, "        height_growth_exp = torch.exp(heights_sorted * self.growth)\n        integral = (height_growth_exp[..., 1:] - height_growth_exp[..., :-1]) / (\n            self.theta * self.growth\n        )\n",
      "        if torch.any(self.growth.abs() < 1.0e-7):\n            integral = (heights_sorted[..., 1:] - heights_sorted[..., :-1]) / self.theta\n        else:\n            height_growth_exp = torch.exp(heights_sorted * self.growth)\n            integral = (height_growth_exp[..., 1:] - height_growth_exp[..., :-1]) / (\n                self.theta * self.growth\n            )\n",
      expect=[('C10.D', 'ExponentialCoalescent.log_prob::torch.any')]),
    T('c10-birth-death-terms-added-out-of-place', 'torchtree/evolution/birth_death.py', "            log_p -= torch.log(1.0 - p[..., 0])\n", "            log_p = log_p - torch.log(1.0 - p[..., 0])\n", expect=[('C10.A', 'BirthDeath.log_prob')]),
    T('c10-list-valued-x-joined-along-the-first-axis', DD, "            self.x = CatParameter('x', x, dim=-1)\n", "            self.x = CatParameter('x', x)\n", expect=[('C10.K', 'Distribution.__init__')]),
    T('c10-benign-list-valued-x-positional-axis', DD, "            self.x = CatParameter('x', x, dim=-1)\n", "            self.x = CatParameter('x', x, -1)\n", benign=True),
]
CORPUS += [
    Mut('c10-rate-matrix-scaled-by-frequencies-without-a-row-axis', 'torchtree/evolution/substitution_model/general.py', 'GeneralSymmetricSubstitutionModel.q', 'Q = R @ pi', 'Q = R * self.frequencies',
        expect=[('C10.R', 'GeneralSymmetricSubstitutionModel.q::R * self.frequencies')]),
    Mut('c10-benign-rate-matrix-scaled-by-frequencies-with-a-row-axis', 'torchtree/evolution/substitution_model/general.py', 'GeneralSymmetricSubstitutionModel.q', 'Q = R @ pi',
        'Q = R * self.frequencies.unsqueeze(-2)', benign=True),
    Mut('c10-ctmc-scale-through-torch-gamma-with-a-dropped-axis', 'torchtree/distributions/ctmc_scale.py', 'CTMCScale._call', 'return log_like',
        'return torch.distributions.Gamma(self.shape, self.tree_model.branch_lengths().sum(-1)).log_prob(self.x.tensor)', expect=[('C10.A', 'CTMCScale._call::torch.distributions.Gamma')]),
    Mut('c10-benign-ctmc-scale-through-torch-gamma', 'torchtree/distributions/ctmc_scale.py', 'CTMCScale._call', 'return log_like',
        'return torch.distributions.Gamma(self.shape, self.tree_model.branch_lengths().sum(-1, keepdim=True)).log_prob(self.x.tensor)', benign=True),
    Mut('c10-heights-stacked-in-front-then-transposed', 'torchtree/evolution/tree_height_transform.py', 'DifferenceNodeHeightTransform._call', 'return torch.cat(heights[self.taxa_count:], -1)',
        'return torch.stack([h.squeeze(-1) for h in heights[self.taxa_count:]]).transpose(0, -1)', expect=[('C10.P', 'DifferenceNodeHeightTransform._call::torch.stack')]),
    Mut('c10-benign-heights-stacked-along-the-last-axis', 'torchtree/evolution/tree_height_transform.py', 'DifferenceNodeHeightTransform._call', 'return torch.cat(heights[self.taxa_count:], -1)',
        'return torch.stack([h.squeeze(-1) for h in heights[self.taxa_count:]], -1)', benign=True),
    Mut('c10-mvn-residual-times-a-batch-of-precisions', 'torchtree/distributions/multivariate_normal.py', 'MultivariateNormal.log_prob', 'kwargs = {self.parameterization: self.parameter.tensor}',
        "kwargs = {self.parameterization: self.parameter.tensor}\nif self.parameterization == 'precision_matrix':\n    precision = self.parameter.tensor\n    diff = x.tensor - self.loc.tensor\n    half_log_det = torch.linalg.cholesky(precision).diagonal(dim1=-2, dim2=-1).log().sum(-1)\n    return half_log_det - 0.5 * ((diff @ precision) * diff).sum(-1) - 0.5 * diff.shape[-1] * 1.8378770664093453",
        expect=[('C10.R', 'MultivariateNormal.log_prob::diff @ precision')]),
    Mut('c10-benign-mvn-residual-as-a-row-vector', 'torchtree/distributions/multivariate_normal.py', 'MultivariateNormal.log_prob', 'kwargs = {self.parameterization: self.parameter.tensor}',
        "kwargs = {self.parameterization: self.parameter.tensor}\nif self.parameterization == 'precision_matrix':\n    precision = self.parameter.tensor\n    diff = (x.tensor - self.loc.tensor).unsqueeze(-2)\n    half_log_det = torch.linalg.cholesky(precision).diagonal(dim1=-2, dim2=-1).log().sum(-1)\n    return half_log_det - 0.5 * ((diff @ precision) * diff).sum(-1).squeeze(-1) - 0.5 * diff.shape[-1] * 1.8378770664093453",
        benign=True),
    Mut('c10-scale-mixture-counts-x-only', 'torchtree/distributions/scale_mixture.py', 'ScaleMixtureNormal._sample_shape', 'return max(…', 'return self.x.tensor.shape[:-1]',
        expect=[('C10.C', 'ScaleMixtureNormal::sample-shape-counts-every-operand')], note='the state of the tree before 8d6ebda'),
]
NUC = 'torchtree/evolution/substitution_model/nucleotide.py'
CORPUS += [
    Mut('c10-gmrf-root-height-loses-its-axis', GM, '', "                diff_square *= heights_sorted[..., -1:]\n", "                diff_square *= heights_sorted[..., -1]\n", mode='text',
        expect=[('C10.R', 'distributions.gmrf::GMRF._call::')]),
    Mut('c10-benign-gmrf-root-height-axis-put-back', GM, '', "                diff_square *= heights_sorted[..., -1:]\n",
        "                diff_square = diff_square * heights_sorted[..., -1].unsqueeze(-1)\n", mode='text', benign=True),
    Mut('c10-gmrf-midpoint-distance-by-one-duration', GM, '', "            diff_square /= (durations[..., :-1] + durations[..., 1:]) / 2.0\n",
        "            diff_square /= (durations[..., :-1] + durations[..., -1]) / 2.0\n", mode='text', expect=[('C10.R', 'distributions.gmrf::GMRF._call::')]),
    Mut('c10-joint-terms-broadcast-against-each-other', JD, '', "        return torch.cat(log_p, -1).sum(-1)\n",
        "        log_p = torch.broadcast_tensors(*log_p)\n        return torch.cat(log_p, -1).sum(-1)\n", mode='text',
        expect=[('C10.J', 'JointDistributionModel.log_prob::component-terms-are-not-broadcast-against-each-other')]),
    Mut('c10-benign-joint-sum-written-with-keywords', JD, '', "        return torch.cat(log_p, -1).sum(-1)\n", "        return torch.cat(log_p, dim=-1).sum(dim=-1)\n", mode='text', benign=True),
    Mut('c10-hky-closed-form-revived', NUC, '', "        # FIXME: does not work with K>1 rate categories\n        raise NotImplementedError\n", "", mode='text',
        expect=[('C10.P', 'evolution.substitution_model.nucleotide.HKY.p_t_analytical::self.kappa.unsqueeze(0)')]),
    Mut('c10-benign-hky-kappa-axis-under-its-own-rank-test', NUC, '', "        kappa = self.kappa\n        return torch.cat(",
        "        kappa = self.kappa.unsqueeze(0).squeeze(0) if self.kappa.dim() == 1 else self.kappa\n        return torch.cat(", mode='text', benign=True),
]
CORPUS += [
    Mut('c10-skyline-epochs-from-the-first-sample', BD, '', "        indices_x = torch.searchsorted(times, x, right=True) - 1\n",
        "        indices_x = torch.bucketize(x, times.flatten(0, -2)[0], right=True) - 1\n", mode='text', expect=[('C10.P', 'evolution.bdsk.PiecewiseConstantBirthDeath.log_prob::')]),
    Mut('c10-benign-skyline-epochs-searched-in-a-contiguous-copy', BD, '', "        indices_x = torch.searchsorted(times, x, right=True) - 1\n",
        "        indices_x = torch.searchsorted(times.contiguous(), x, right=True) - 1\n", mode='text', benign=True),
]
CORPUS += [
    Mut('c10-kernel-handed-the-raw-frequencies', TL, '', "                self.tree_model.postorder,\n                mats,\n                frequencies,\n                probs,\n            )\n\n            if torch.any(torch.isinf(log_p)):",
        "                self.tree_model.postorder,\n                mats,\n                self.subst_model.frequencies,\n                probs,\n            )\n\n            if torch.any(torch.isinf(log_p)):", mode='text',
        expect=[('C10.R', 'evolution.tree_likelihood::TreeLikelihoodModel::kernels-receive-the-same-freqs')]),
]
CORPUS += [
    Mut('c10-slab-squeezed-under-an-isinstance-guard', 'torchtree/distributions/scale_mixture.py', '', "        if self.slab is not None:\n            local_scale = (\n                self.slab.tensor**2\n                * self.local_scale.tensor**2\n",
        "        if self.slab is not None:\n            if isinstance(self.slab, AbstractParameter):\n                slab2 = self.slab.tensor.squeeze(-1) ** 2\n            else:\n                slab2 = self.slab**2\n            local_scale = (\n                slab2\n                * self.local_scale.tensor**2\n",
        mode='text', expect=[('C10.A', 'distributions.scale_mixture::ScaleMixtureNormal._call::')]),
    Mut('c10-benign-slab-number-or-parameter', 'torchtree/distributions/scale_mixture.py', '', "        if self.slab is not None:\n            local_scale = (\n                self.slab.tensor**2\n                * self.local_scale.tensor**2\n",
        "        if self.slab is not None:\n            if isinstance(self.slab, AbstractParameter):\n                slab2 = self.slab.tensor**2\n            else:\n                slab2 = self.slab**2\n            local_scale = (\n                slab2\n                * self.local_scale.tensor**2\n",
        mode='text', benign=True),
]
