"""C10 (fixed): PiecewiseConstantBirthDeath.log_prob adds the N·log(rho) term with `if torch.any(mask): p = masked_select(N, mask) * masked_select(rho, mask).log(); log_p += p`:
the selection flattens the batch.  With a batch in which rho is zero for some samples and positive for others, the term of one sample is added to every sample.
Run: PYTHONPATH=<tree> /venv/bin/python findings/c10_bdsk_rho_term_mixed_samples.py   (exit 1 = defect present)"""
import sys, torch
from torchtree.evolution.bdsk import PiecewiseConstantBirthDeath


def T64(v):
    return torch.tensor(v, dtype=torch.float64)


heights = T64([0.0, 0.0, 0.0, 1.0, 2.5])      # three contemporaneous tips, two internal nodes
rhos = [[0.0], [0.3]]


def density(rho, batch):
    lam, mu, psi = ([[1.5], [1.5]], [[0.4], [0.4]], [[0.3], [0.3]]) if batch else ([1.5], [0.4], [0.3])
    d = PiecewiseConstantBirthDeath(T64(lam), T64(mu), T64(psi), rho=T64(rho), origin=T64([[4.0], [4.0]] if batch else [4.0]), survival=False)
    return d.log_prob(heights.expand(2, -1) if batch else heights)


bad = 0
single = [float(density(r, False)) for r in rhos]
try:
    both = density(rhos, True).flatten().tolist()
    print('one at a time:', [round(x, 4) for x in single])
    print('as a batch   :', [round(x, 4) for x in both])
    bad = int(any(abs(a - b) > 1e-8 for a, b in zip(single, both)))
except Exception as e:
    print('batched evaluation raises', type(e).__name__, '(allowed)')
print('DEFECT present' if bad else 'OK')
sys.exit(bad)
