"""C19 — every configuration the CLI emits is runnable and targets the right density."""
from __future__ import annotations

import ast
import copy
import itertools
import re
from typing import Dict, List, Optional, Set, Tuple

from sa.jsonkeys import ReaderInfo, reader_info
from sa.loader import AnalysisError, Unsupported, dotted_name, norm_text
from sa.report import where
from sa.members import self_attr
from sa.util import backward_slice, local_assignments

CLI = 'torchtree.cli'


def cli_modules(ctx):
    return [m for name, m in sorted(ctx.prog.modules.items()) if name.startswith(CLI + '.') or name == CLI]


def functions_of(m):
    out = []
    for n in ast.walk(m.tree):
        if isinstance(n, (ast.FunctionDef, ast.AsyncFunctionDef)):
            out.append(n)
    return out


def enclosing_function(n):
    p = getattr(n, '_parent', None)
    while p is not None and not isinstance(p, (ast.FunctionDef, ast.AsyncFunctionDef)):
        p = getattr(p, '_parent', None)
    return p


# ---------------------------------------------------------------------------
# reader table
# ---------------------------------------------------------------------------
class Readers:
    def __init__(self, ctx):
        self.ctx = ctx
        self.registered = ctx.classes.registered()
        self.cache: Dict[str, Optional[ReaderInfo]] = {}

    def resolve_type(self, t: str):
        """class for a 'type' string: registered short name or dotted path inside the package"""
        if t in self.registered:
            return self.registered[t]
        if t.startswith(self.ctx.prog.package + '.'):
            r = self.ctx.prog.resolve(t)
            if r and r[0] == 'class':
                return self.ctx.classes.classes.get(f"{r[1].name}.{r[2].name}")
            # torchtree.Parameter style re-exports
            short = t.split('.')[-1]
            if short in self.registered:
                r2 = self.ctx.prog.resolve(t)
                return self.registered[short] if r2 is not None or t.count('.') == 1 else None
        return None

    def info(self, t: str) -> Optional[ReaderInfo]:
        if t in self.cache:
            return self.cache[t]
        ci = self.resolve_type(t)
        res = None
        if ci is not None:
            r = ci.resolve('from_json')
            if r is not None:
                try:
                    res = reader_info(self.ctx, ci, r[1], r[0].module)
                except Unsupported:
                    res = None
        self.cache[t] = res
        return res


# ---------------------------------------------------------------------------
# liveness: is a typed literal ever handed to its reader?
# ---------------------------------------------------------------------------
class Liveness:
    def __init__(self, ctx, readers):
        self.ctx, self.readers = ctx, readers
        self.calls = {}   # function name -> call nodes in the CLI
        for m in cli_modules(ctx):
            for c in ast.walk(m.tree):
                if isinstance(c, ast.Call):
                    n = c.func.id if isinstance(c.func, ast.Name) else (c.func.attr if isinstance(c.func, ast.Attribute) else None)
                    if n:
                        self.calls.setdefault(n, []).append(c)
        self.memo = {}

    def _reads(self, t: str, key: str) -> Optional[bool]:
        info = self.readers.info(t)
        if info is None or info.open:
            return None
        return key in info.mandatory or key in info.may or key in info.ref_keys

    def slot_dead(self, node, depth=0) -> Optional[str]:
        """reason if the value at `node` sits in a slot no reader looks at"""
        if depth > 6:
            return None
        p = getattr(node, '_parent', None)
        child = node
        while p is not None and isinstance(p, (ast.List, ast.Tuple, ast.BinOp, ast.IfExp, ast.Starred)):
            child, p = p, getattr(p, '_parent', None)
        if isinstance(p, ast.Dict):
            key = None
            for k, v in zip(p.keys, p.values):
                if v is child:
                    key = k.value if isinstance(k, ast.Constant) else None
            t = literal_type(p)
            if t is not None and key is not None and self._reads(t, key) is False:
                return f"key '{key}' of the enclosing {t} object is never read by {t}.from_json"
            return self.slot_dead(p, depth + 1)
        fn = enclosing_function(node)
        if isinstance(p, ast.Assign) and len(p.targets) == 1:
            tg = p.targets[0]
            if isinstance(tg, ast.Subscript) and isinstance(tg.value, ast.Name) and isinstance(tg.slice, ast.Constant) and fn is not None:
                # X['k'] = <node>: type of X from its literal in the same function
                for d in ast.walk(fn):
                    if isinstance(d, ast.Assign) and isinstance(d.value, ast.Dict) and any(isinstance(x, ast.Name) and x.id == tg.value.id for x in d.targets):
                        t = literal_type(d.value)
                        if t is not None and self._reads(t, tg.slice.value) is False:
                            return f"key '{tg.slice.value}' of the {t} object `{tg.value.id}` is never read by {t}.from_json"
                return None
            if isinstance(tg, ast.Name) and fn is not None:
                # variable: dead only if every use is a return and every call site of the function is dead
                uses = [n for n in ast.walk(fn) if isinstance(n, ast.Name) and n.id == tg.id and isinstance(n.ctx, ast.Load)]
                if uses and all(isinstance(getattr(u, '_parent', None), ast.Return) for u in uses):
                    return self.calls_dead(fn, depth)
                return None
        if isinstance(p, ast.Return) and fn is not None:
            return self.calls_dead(fn, depth)
        return None

    def calls_dead(self, fn, depth) -> Optional[str]:
        sites = self.calls.get(fn.name, [])
        if not sites:
            return None
        reasons = [self.slot_dead(c, depth + 1) for c in sites]
        if all(reasons):
            return f"returned by {fn.name}(), whose only use: {reasons[0]}"
        return None


def literal_type(d: ast.Dict) -> Optional[str]:
    for k, v in zip(d.keys, d.values):
        if isinstance(k, ast.Constant) and k.value == 'type' and isinstance(v, ast.Constant) and isinstance(v.value, str):
            return v.value
    return None


def literal_keys(d: ast.Dict) -> Tuple[Set[str], bool]:
    keys = set()
    open_ = False
    for k in d.keys:
        if k is None:
            open_ = True
        elif isinstance(k, ast.Constant) and isinstance(k.value, str):
            keys.add(k.value)
        elif isinstance(k, ast.Attribute) and k.attr == 'tag':
            keys.add('<tag:' + ast.unparse(k) + '>')
        elif isinstance(k, ast.Attribute) and k.attr == 'value':
            keys.add('<constraint>')
        else:
            open_ = True
    return keys, open_


def later_stores(fn, var: str, ctx, module) -> Tuple[Set[str], bool]:
    """constant keys stored into `var[...] = …` anywhere in fn; open if a computed key / update() is used"""
    keys = set()
    open_ = False
    for st in ast.walk(fn):
        if isinstance(st, ast.Assign):
            for t in st.targets:
                if isinstance(t, ast.Subscript) and isinstance(t.value, ast.Name) and t.value.id == var:
                    if isinstance(t.slice, ast.Constant) and isinstance(t.slice.value, str):
                        keys.add(t.slice.value)
                    elif isinstance(t.slice, ast.Attribute) and t.slice.attr == 'tag':
                        keys.add('<tag:' + ast.unparse(t.slice) + '>')
                    elif isinstance(t.slice, ast.Attribute) and t.slice.attr == 'value':
                        pass
                    else:
                        open_ = True
        if isinstance(st, ast.Call) and isinstance(st.func, ast.Attribute) and st.func.attr == 'update' and isinstance(st.func.value, ast.Name) and st.func.value.id == var:
            open_ = True
    return keys, open_


def typed_literals(ctx):
    """(module, function, dict node, type string, variable name or None)"""
    out = []
    for m in cli_modules(ctx):
        for d in ast.walk(m.tree):
            if isinstance(d, ast.Dict):
                t = literal_type(d)
                if t is None:
                    continue
                fn = enclosing_function(d)
                var = None
                p = getattr(d, '_parent', None)
                if isinstance(p, ast.Assign) and len(p.targets) == 1 and isinstance(p.targets[0], ast.Name):
                    var = p.targets[0].id
                out.append((m, fn, d, t, var))
    return out


def check_types_and_keys(ctx, rep):
    readers = Readers(ctx)
    lits = typed_literals(ctx)
    if len(lits) < 60:
        raise AnalysisError(f"only {len(lits)} typed dict literals found in the CLI")
    rep.analysed['typed_literals'] = len(lits)
    # class-name strings stored later: X['type' | 'transform' | 'distribution'] = '<const>'
    for m in cli_modules(ctx):
        for st in ast.walk(m.tree):
            if isinstance(st, ast.Assign) and len(st.targets) == 1 and isinstance(st.targets[0], ast.Subscript) and isinstance(st.targets[0].slice, ast.Constant) \
                    and st.targets[0].slice.value in ('type', 'transform', 'distribution') and isinstance(st.value, ast.Constant) and isinstance(st.value.value, str):
                sv = st.value.value
                fn = enclosing_function(st)
                okv = sv in readers.registered or readers.resolve_type(sv) is not None or (not sv.startswith(ctx.prog.package) and '.' in sv) \
                    or (sv.startswith(ctx.prog.package) and ctx.prog.resolve(sv) is not None)
                rep.check('C19.T', f"{m.name.split('.')[-1]}.{fn.name if fn else '<module>'}::store::{st.targets[0].slice.value}={sv}", okv, where(m, st), None,
                          f"'{sv}' is stored as the {st.targets[0].slice.value} of an emitted object but is neither a registered class nor a resolvable path in the package")
    live = Liveness(ctx, readers)
    from sa.jsonkeys import const_key
    for m, fn, d, t, var in lits:
        fname = fn.name if fn is not None else '<module>'
        idv = next((v for k, v in zip(d.keys, d.values) if isinstance(k, ast.Constant) and k.value == 'id'), None)
        idt = ast.unparse(idv)[:40] if idv is not None else '?'
        key = f"{m.name.split('.')[-1]}.{fname}::{t}::{idt}"
        W = where(m, d)
        dead = live.slot_dead(d)
        if dead:
            rep.excluded('C19.T', key, W, f"dead configuration, never handed to a reader: {dead}")
            continue
        ci = readers.resolve_type(t)
        external = not t.startswith(ctx.prog.package) and '.' in t
        rep.check('C19.T', key, ci is not None or external, W, {'type': t},
                  f"the CLI emits an object of type '{t}', which is neither a registered class nor a resolvable dotted path in the package: torchtree rejects the file")
        if ci is None:
            continue
        info = readers.info(t)
        if info is None:
            rep.undecided('C19.K', key, W, 'reader of this type could not be analysed')
            continue
        keys, open_ = literal_keys(d)
        if var is not None and fn is not None:
            k2, o2 = later_stores(fn, var, ctx, m)
            keys |= k2
            open_ = open_ or o2
        # resolve tag keys
        resolved = set()
        for k in keys:
            if k.startswith('<tag:'):
                e = ast.parse(k[5:-1], mode='eval').body
                v = const_key(ctx, m, e)
                resolved.add(v if v else k)
            else:
                resolved.add(k)
        missing = sorted(info.mandatory - resolved)
        facts = {'type': t, 'written': sorted(resolved), 'reader_mandatory': sorted(info.mandatory)}
        if missing and open_:
            rep.undecided('C19.K', key, W, f"literal is extended dynamically; cannot confirm {missing}", facts)
        else:
            rep.check('C19.K', key, not missing, W, facts,
                      f"{ci.name}.from_json dereferences {missing} on every path but the object the CLI emits in {fname}() never gets "
                      f"{'them' if len(missing) > 1 else 'it'}: torchtree stops with a parse error")
        # nested 'transform' / 'distribution' strings
        for k, v in zip(d.keys, d.values):
            if isinstance(k, ast.Constant) and k.value in ('transform', 'distribution') and isinstance(v, ast.Constant) and isinstance(v.value, str):
                s = v.value
                ok = s in readers.registered or (not s.startswith(ctx.prog.package) and '.' in s) or readers.resolve_type(s) is not None \
                    or (s.startswith(ctx.prog.package) and ctx.prog.resolve(s) is not None)
                rep.check('C19.T', f"{key}::{k.value}={s}", ok, W, None, f"'{s}' (a {k.value}) is not a registered class nor a resolvable path")


# ---------------------------------------------------------------------------
# Jacobians
# ---------------------------------------------------------------------------
def normalized_block(stmts) -> List[str]:
    out = []
    for st in stmts:
        txt = ast.unparse(st)
        out.append(re.sub(r'''["']''', "'", txt))
    return out


def jacobian_block(fn: ast.FunctionDef):
    """statements from `jacobians_list = create_jacobians(...)` to `json_list.append(joint_jacobian)` inclusive"""
    start = end = None
    for i, st in enumerate(fn.body):
        if isinstance(st, ast.Assign) and isinstance(st.value, ast.Call) and (dotted_name(st.value.func) or '').endswith('create_jacobians'):
            start = i
        if start is not None and isinstance(st, ast.Assign) and isinstance(st.value, ast.Dict) and any(
                isinstance(v, ast.Constant) and v.value == 'joint.jacobian' for v in st.value.values):
            end = i
    if start is None or end is None:
        return None
    return fn.body[start:end + 1]


def jacobian_edit_table(ctx, m, fn):
    """(clock, heights, coalescent) -> set of edits ('append'|'remove'|…, constant) of the list returned by create_jacobians that are executed"""
    from sa.cfg import CFG
    from props.c19_flow import Flow, specialised_reach, reach_from
    flow = _flow(ctx)
    cfg = CFG(fn)
    var = None
    for st in fn.body:
        if isinstance(st, ast.Assign) and isinstance(st.value, ast.Call) and (dotted_name(st.value.func) or '').endswith('create_jacobians') and isinstance(st.targets[0], ast.Name):
            var = st.targets[0].id
    edits = []
    for st in ast.walk(fn):
        if isinstance(st, ast.Expr) and isinstance(st.value, ast.Call) and isinstance(st.value.func, ast.Attribute) and isinstance(st.value.func.value, ast.Name) \
                and st.value.func.value.id == var:
            a = st.value.args[-1] if st.value.args else None
            edits.append((st, (st.value.func.attr, a.value if isinstance(a, ast.Constant) else ast.unparse(a) if a is not None else None)))
        elif isinstance(st, (ast.Assign, ast.AugAssign)) and any(isinstance(t, ast.Name) and t.id == var for t in (st.targets if isinstance(st, ast.Assign) else [st.target])) \
                and not (isinstance(st, ast.Assign) and isinstance(st.value, ast.Call) and (dotted_name(st.value.func) or '').endswith('create_jacobians')):
            edits.append((st, ('assign', ast.unparse(st.value)[:60])))
        elif isinstance(st, ast.Delete) and any(isinstance(t, ast.Subscript) and isinstance(t.value, ast.Name) and t.value.id == var for t in st.targets):
            edits.append((st, ('del', ast.unparse(st)[:60])))
    rows = {}
    skippable = {}
    doms = [sorted(flow.fin[o].values, key=repr) for o in ('clock', 'heights', 'coalescent')]
    by_id = {n.id: n for n in cfg.nodes}
    for combo in itertools.product(*doms):
        env = flow.env(m, dict(zip(('clock', 'heights', 'coalescent'), combo)), {}, {})
        succ = specialised_reach(cfg, env)
        live = reach_from(succ, [cfg.entry.id], by_id) | {cfg.entry.id}
        rows[combo] = {ed for st, ed in edits if cfg.node_of(st).id in live}
        # … and which of them are executed on EVERY path (a test of some other option in front of the edit leaves a way round it)
        for st, ed in edits:
            nid = cfg.node_of(st).id
            if nid in live:
                pruned = {k: [x for x in v if x.id != nid] for k, v in succ.items()}
                if cfg.exit.id in reach_from(pruned, [cfg.entry.id], by_id):
                    skippable.setdefault(combo, set()).add(ed)
    from props.c19_flow import const_expr
    pw = const_expr(ctx.prog.module(f"{CLI}.evolution"), ast.Name(id='COALESCENT_PIECEWISE', ctx=ast.Load()))
    return {'rows': rows, 'skippable': skippable, 'n_edits': len(edits), 'piecewise': list(pw) if isinstance(pw, (list, tuple)) else []}


_FLOW = {}


def _flow(ctx):
    from props.c19_flow import Flow
    if id(ctx) not in _FLOW:
        _FLOW[id(ctx)] = Flow(ctx)
    return _FLOW[id(ctx)]


def _flatten_concat(e):
    """constants and variable names of a list built by literals, `+` and unpacking; (None, None) if anything else takes part"""
    consts, names = [], []

    def go(x):
        if isinstance(x, ast.BinOp) and isinstance(x.op, ast.Add):
            return go(x.left) and go(x.right)
        if isinstance(x, (ast.List, ast.Tuple)):
            for el in x.elts:
                if isinstance(el, ast.Constant):
                    consts.append(el.value)
                elif isinstance(el, ast.Starred) and isinstance(el.value, ast.Name):
                    names.append(el.value.id)
                else:
                    return False
            return True
        if isinstance(x, ast.Name):
            names.append(x.id)
            return True
        if isinstance(x, ast.Call) and isinstance(x.func, ast.Name) and x.func.id == 'list' and len(x.args) == 1:
            return go(x.args[0])
        return False
    if e is None or not go(e):
        return None, None
    return consts, names


def check_jacobians(ctx, rep):
    builders = {}
    for modname, fname in ((f"{CLI}.advi", 'build_advi'), (f"{CLI}.hmc", 'build_hmc'), (f"{CLI}.mcmc", 'build_mcmc')):
        m = ctx.prog.module(modname)
        fn = m.functions.get(fname)
        if fn is None:
            raise AnalysisError(f"{modname}.{fname} not found")
        builders[fname] = (m, fn, jacobian_block(fn))
    blocks = {}
    tables = {}
    for fname, (m, fn, blk) in builders.items():
        W = where(m, fn)
        if blk is None:
            rep.bad('C19.J', f"{fname}::jacobian-block", W, None, f"{fname} does not build joint.jacobian from create_jacobians(json_list)")
            continue
        norm = normalized_block(blk)
        blocks[fname] = norm
        src = '\n'.join(norm)
        facts = {'block': norm}
        # create_jacobians is applied to the whole specification list, after the constraints were turned into transforms
        first = blk[0]
        arg0 = first.value.args[0] if first.value.args else None
        made = [i for i, st in enumerate(fn.body) if any(isinstance(c, ast.Call) and (dotted_name(c.func) or '').split('.')[-1] in ('make_unconstrained', 'create_variational_model')
                                                             for c in ast.walk(st))]
        after_unconstrain = bool(made) and min(made) < fn.body.index(first)
        rep.check('C19.J', f"{fname}::collected-after-constraints-became-transforms", isinstance(arg0, ast.Name) and after_unconstrain, W, facts,
                  f"{fname}: create_jacobians must scan the whole specification after make_unconstrained / the variational model turned constrained parameters into "
                  f"TransformedParameters; otherwise their log-Jacobians are missing from the target")
        # which edits of the Jacobian list are executed under which option values (specialised CFG, every value of clock × heights × coalescent)
        tables[fname] = jacobian_edit_table(ctx, m, fn)
        tb = tables[fname]
        piecewise = set(tb['piecewise'])
        bad_tree = [e for e, row in tb['rows'].items() if (('append', 'tree') in row) != (e[0] is not None and e[1] == 'ratio')]
        rep.check('C19.J', f"{fname}::ratio-height-jacobian", not bad_tree and tb['n_edits'] >= 2, W, {'wrong_under': [str(e) for e in bad_tree[:6]]},
                  f"{fname}: the node-height log-Jacobian ('tree') must be added exactly when a clock is used with ratio heights; wrong under (clock, heights, coalescent) = "
                  f"{bad_tree[:3]}")
        bad_rem = [e for e, row in tb['rows'].items() if (('remove', 'coalescent.theta') in row) != (e[2] in piecewise)]
        rep.check('C19.J', f"{fname}::no-jacobian-for-gmrf-on-log-scale", not bad_rem and tb['n_edits'] >= 2, W, {'wrong_under': [str(e) for e in bad_rem[:6]]},
                  f"{fname}: for piecewise coalescents the smoothing prior is placed on log θ, so coalescent.theta's Jacobian must be removed, and only then; wrong under "
                  f"{bad_rem[:3]}")
        gated = sorted((str(e), str(ed)) for e, eds in tb['skippable'].items() for ed in eds
                       if (ed == ('append', 'tree') and e[0] is not None and e[1] == 'ratio') or (ed == ('remove', 'coalescent.theta') and e[2] in piecewise))
        rep.check('C19.J', f"{fname}::jacobian-terms-depend-on-the-model-options-only", not gated, W, {'skippable_under': gated[:6]},
                  f"{fname}: under (clock, heights, coalescent) = {gated[0][0] if gated else ''} the edit {gated[0][1] if gated else ''} of the Jacobian list can be skipped — it is "
                  f"gated by something else than the options that decide whether the transform exists: the sampled parameters are still the transformed ones, so the target lacks "
                  f"(or double counts) that log-Jacobian")
        other = sorted({ed for row in tb['rows'].values() for ed in row} - {('append', 'tree'), ('remove', 'coalescent.theta')})
        rep.check('C19.J', f"{fname}::no-other-edit-of-the-jacobian-list", not other, W, {'edits': [str(x) for x in other]},
                  f"{fname}: the Jacobian list is edited in a way the other builders do not know: {other}")
        jj = blk[-1].value if isinstance(blk[-1], ast.Assign) else None
        ok = False
        if isinstance(jj, ast.Dict):
            dd = {k.value: v for k, v in zip(jj.keys, jj.values) if isinstance(k, ast.Constant)}
            consts, names = _flatten_concat(dd.get('distributions'))
            jvar = blk[0].targets[0].id if isinstance(blk[0].targets[0], ast.Name) else None
            ok = isinstance(dd.get('type'), ast.Constant) and dd['type'].value == 'JointDistributionModel' and consts == ['joint'] and names == [jvar]
        rep.check('C19.J', f"{fname}::joint-plus-each-jacobian-once", ok, W, facts,
                  f"{fname}: joint.jacobian must be the JointDistributionModel of ['joint'] + jacobians_list (constrained joint density plus each log-Jacobian once)")
        # the sampler / optimiser over unconstrained parameters is handed joint.jacobian
        hands = [c for c in ast.walk(fn) if isinstance(c, ast.Call) and isinstance(c.func, ast.Name) and c.func.id in ('create_advi', 'create_hmc', 'create_mcmc')]
        ok = bool(hands) and all(c.args and isinstance(c.args[0], ast.Constant) and c.args[0].value == 'joint.jacobian' for c in hands)
        rep.check('C19.J', f"{fname}::target-is-joint.jacobian", ok, W, {'calls': [norm_text(c)[:80] for c in hands]},
                  f"{fname}: the algorithm working on unconstrained parameters must target 'joint.jacobian', not the constrained joint")
    any_builder = list(builders.values())[0]
    same = len(tables) == 3 and len({repr(sorted((str(k), sorted(map(str, v))) for k, v in t['rows'].items())) for t in tables.values()}) == 1
    rep.check('C19.J', 'builders::jacobian-edits-agree', same, where(any_builder[0], any_builder[1]), None,
              "build_advi, build_hmc and build_mcmc edit the Jacobian list under different option values: one sub-command targets a different density than the others")
    # create_jacobians itself: decided on its CFG with the three atomic facts about a node as booleans
    check_create_jacobians(ctx, rep)


def _inline_helpers(module, fn):
    """copy of fn in which calls to single-return helper functions of the same module (same argument names) are replaced by the returned expression"""
    fn2 = copy.deepcopy(fn)

    class T(ast.NodeTransformer):
        def visit_Call(self, c):
            self.generic_visit(c)
            if isinstance(c.func, ast.Name) and c.func.id in module.functions and c.func.id != fn.name:
                h = module.functions[c.func.id]
                rets = [n for n in ast.walk(h) if isinstance(n, ast.Return)]
                params = [a.arg for a in h.args.args]
                if len(rets) == 1 and len(h.body) <= 2 and len(c.args) == len(params) and all(isinstance(a, ast.Name) and a.id == p for a, p in zip(c.args, params)):
                    return copy.deepcopy(rets[0].value)
            return c
    fn2 = T().visit(fn2)
    ast.fix_missing_locations(fn2)
    for n in ast.walk(fn2):
        for ch in ast.iter_child_nodes(n):
            ch._parent = n
    return fn2


def check_create_jacobians(ctx, rep):
    from sa.cfg import CFG
    from props.c19_flow import Env, specialised_reach, reach_from
    jm = ctx.prog.module(f"{CLI}.jacobians")
    cj0 = jm.functions.get('create_jacobians')
    if cj0 is None:
        raise AnalysisError('create_jacobians not found')
    W = where(jm, cj0)
    cj = _inline_helpers(jm, cj0)
    data = cj.args.args[0].arg
    cfg = CFG(cj)
    q = lambda e: ast.unparse(e).replace('"', "'")
    # atoms
    A_list, A_dict = f"isinstance({data}, list)", f"isinstance({data}, dict)"
    atoms = {
        'T': (f"{data}['type'] == 'TransformedParameter'", f"{data}.get('type') == 'TransformedParameter'", f"'type' in {data}"),
        'F': (f"{data}['transform'] == 'torch.distributions.AffineTransform'",),
        'S': (f"{data}['parameters']['scale'] == 1.0", f"{data}['parameters']['scale'] == 1"),
    }
    appends = [c for c in ast.walk(cj) if isinstance(c, ast.Call) and isinstance(c.func, ast.Attribute) and c.func.attr == 'append']
    rec_calls = [c for c in ast.walk(cj) if isinstance(c, ast.Call) and isinstance(c.func, ast.Name) and c.func.id == 'create_jacobians']
    loops_values = [n for n in ast.walk(cj) if isinstance(n, ast.For) and q(n.iter) == f"{data}.values()" and any(c in ast.walk(n) for c in rec_calls)]
    loops_list = [n for n in ast.walk(cj) if isinstance(n, ast.For) and q(n.iter) == data and any(c in ast.walk(n) for c in rec_calls)]
    if len(appends) != 1 or len(loops_values) != 1 or len(loops_list) != 1:
        rep.bad('C19.J', 'create_jacobians::visits-every-nested-object-once', W, {'appends': len(appends), 'value_loops': len(loops_values), 'list_loops': len(loops_list)},
                "create_jacobians must have one recursive loop over list elements, one over dict values, and append the id of a TransformedParameter once")
        return
    app_stmt = appends[0]
    while not isinstance(app_stmt, ast.stmt):
        app_stmt = app_stmt._parent
    n_app, n_vals, n_list = cfg.node_of(app_stmt), cfg.node_of(loops_values[0]), cfg.node_of(loops_list[0])
    appended_id = q(appends[0].args[0]) == f"{data}['id']"
    # results of the recursive calls are kept
    kept = all(isinstance(getattr(c, '_parent', None), ast.Call) and isinstance(c._parent.func, ast.Attribute) and c._parent.func.attr in ('extend',) for c in rec_calls)
    table = {}
    ok_visit = ok_select = ok_skip = True
    for is_list, is_dict, T, F, S in itertools.product([True, False], repeat=5):
        if is_list and is_dict:
            continue
        texts = {A_list: is_list, A_dict: is_dict}
        for name, val in (('T', T), ('F', F), ('S', S)):
            for t in atoms[name]:
                texts[t] = val
        env = Env(jm, set(), {}, {}, {})
        env.texts = texts
        # Env.test normalises with norm_text; make the lookup quote-insensitive
        env.texts = {k: v for k, v in texts.items()}
        succ = {}
        for n in cfg.nodes:
            outs = list(n.succ)
            if n.kind == 'test' and isinstance(n.stmt, ast.If):
                v = _eval_test(n.stmt.test, texts)
                if v is not None:
                    keep = 'true' if v else 'false'
                    outs = [m for m in n.succ if cfg.edge_label.get((n.id, m.id)) in (keep, 'both', None, 'exc')]
            succ[n.id] = outs
        live = reach_from(succ, [cfg.entry.id], {n.id: n for n in cfg.nodes}) | {cfg.entry.id}
        # every path to the exit under this assignment
        if is_dict:
            # must pass the value loop: exit not reachable when the loop node is removed
            succ2 = {k: [m for m in v if m.id != n_vals.id] for k, v in succ.items()}
            live2 = reach_from(succ2, [cfg.entry.id], {n.id: n for n in cfg.nodes})
            if cfg.exit.id in live2:
                ok_visit = False
                table[f"dict,T={T},F={F},S={S}"] = 'a path returns without visiting the values'
            want_app = T and not (F and S)
            got_app = n_app.id in live
            if T and got_app != want_app:
                ok_skip = False
                table[f"dict,T={T},F={F},S={S}"] = f"appended={got_app}, expected {want_app}"
            if not T and got_app:
                ok_select = False
        elif is_list:
            succ2 = {k: [m for m in v if m.id != n_list.id] for k, v in succ.items()}
            if cfg.exit.id in reach_from(succ2, [cfg.entry.id], {n.id: n for n in cfg.nodes}):
                ok_visit = False
                table['list'] = 'a path returns without visiting the elements'
            if n_app.id in live:
                ok_select = False
    rep.check('C19.J', 'create_jacobians::visits-every-nested-object-once', ok_visit and kept and appended_id, W, {'cases': table, 'results_kept': kept},
              "create_jacobians must descend into every list element and every value of every dict on every path (also below a transformed parameter that is "
              "itself skipped) and keep what the recursive calls return: otherwise the log-Jacobian of a nested transform is missing from joint.jacobian")
    rep.check('C19.J', 'create_jacobians::skips-only-unit-scale-affine', ok_skip, W, {'cases': table},
              "the id of a TransformedParameter must be appended unless its transform is AffineTransform with scale 1.0 (the only one with zero log-Jacobian)")
    rep.check('C19.J', 'create_jacobians::matches-TransformedParameter', ok_select, W, {'cases': table},
              "only objects whose type is 'TransformedParameter' contribute a Jacobian term")


def _eval_test(t, texts):
    if isinstance(t, ast.BoolOp):
        vals = [_eval_test(v, texts) for v in t.values]
        if isinstance(t.op, ast.And):
            if any(v is False for v in vals):
                return False
            return True if all(v is True for v in vals) else None
        if any(v is True for v in vals):
            return True
        return False if all(v is False for v in vals) else None
    if isinstance(t, ast.UnaryOp) and isinstance(t.op, ast.Not):
        v = _eval_test(t.operand, texts)
        return None if v is None else (not v)
    return texts.get(ast.unparse(t).replace('"', "'"))


# ---------------------------------------------------------------------------
# make_unconstrained
# ---------------------------------------------------------------------------
TRANSFORM_FOR = {'unit-interval': 'SigmoidTransform', 'lower>0': 'AffineTransform', 'lower<=0': 'ExpTransform', 'simplex': 'StickBreakingTransform'}


def x_tensor_values(body) -> list:
    """expressions that end up as json_object['x']['tensor'] in this branch"""
    out = []
    local = {}
    for b in body:
        for st in ast.walk(b):
            if isinstance(st, ast.Assign) and len(st.targets) == 1 and isinstance(st.targets[0], ast.Name):
                local.setdefault(st.targets[0].id, []).append(st.value)
    for b in body:
        for st in ast.walk(b):
            if not (isinstance(st, ast.Assign) and len(st.targets) == 1 and isinstance(st.targets[0], ast.Subscript)):
                continue
            t = st.targets[0]
            txt = ast.unparse(t).replace('"', "'")
            vals = []
            if txt.endswith("['x']['tensor']"):
                vals = [st.value]
            elif txt.endswith("['x']") and isinstance(st.value, ast.Dict):
                vals = [v for k, v in zip(st.value.keys, st.value.values) if isinstance(k, ast.Constant) and k.value == 'tensor']
            for v in vals:
                if isinstance(v, ast.Name) and v.id in local:
                    out += local[v.id]
                else:
                    out.append(v)
    return out


def inverse_verdict(module, v, kind, tname, consts=None):
    """(ok, why): is `v` the inverse of the branch's transform applied to the requested value json_object['tensor']?"""
    from props.c08_integrals import Sym
    from sa.poly import Rat, ToRat
    e = v
    while True:
        if isinstance(e, ast.Call) and isinstance(e.func, ast.Attribute) and e.func.attr in ('tolist', 'item', 'clone', 'detach') and not e.args:
            e = e.func.value
        else:
            break
    mentions_requested = any(isinstance(x, ast.Subscript) and isinstance(x.slice, ast.Constant) and x.slice.value == 'tensor' for x in ast.walk(e))
    if isinstance(e, ast.Call) and isinstance(e.func, ast.Attribute) and e.func.attr == 'inv':
        recv = e.func.value
        same = (isinstance(recv, ast.Name) and recv.id == 'transform') or (isinstance(recv, ast.Call) and (dotted_name(recv.func) or '').split('.')[-1] == tname)
        if same:
            return (mentions_requested, '' if mentions_requested else f"`{ast.unparse(v)[:60]}` does not start from the requested value")
        return (False, f"`{ast.unparse(v)[:60]}` applies the inverse of another transform than {tname}")
    # a hand-written inverse: verify forward(v) == p algebraically
    sym = Sym()

    def ev(x, env):
        if isinstance(x, ast.Constant) and isinstance(x.value, (int, float)):
            from fractions import Fraction
            return Rat.const(Fraction(str(x.value)))
        if isinstance(x, ast.Name) and x.id in env:
            return env[x.id]
        if isinstance(x, ast.Name) and consts and x.id in consts:
            from fractions import Fraction
            return Rat.const(Fraction(str(consts[x.id])))
        if isinstance(x, ast.Name) and x.id in ('loc', 'scale'):
            return Rat.sym(x.id)
        if isinstance(x, ast.Subscript) and isinstance(x.slice, ast.Constant) and x.slice.value == 'tensor':
            return Rat.sym('p')
        if isinstance(x, ast.Subscript) and 'LOWER' in ast.unparse(x.slice):
            return Rat.sym('L')
        if isinstance(x, ast.UnaryOp) and isinstance(x.op, ast.USub):
            return -ev(x.operand, env)
        if isinstance(x, ast.BinOp):
            a, b = ev(x.left, env), ev(x.right, env)
            if isinstance(x.op, ast.Add):
                return a + b
            if isinstance(x.op, ast.Sub):
                return a - b
            if isinstance(x.op, ast.Mult):
                return a * b
            if isinstance(x.op, ast.Div):
                return a / b
        if isinstance(x, ast.Call):
            name = (dotted_name(x.func) or (x.func.attr if isinstance(x.func, ast.Attribute) else '')).split('.')[-1]
            recv = x.func.value if isinstance(x.func, ast.Attribute) and not (isinstance(x.func.value, ast.Name) and x.func.value.id in ('torch', 'math', 'np', 'numpy')) else None
            arg0 = recv if recv is not None else (x.args[0] if x.args else None)
            if name in ('tensor', 'as_tensor', 'float', 'tolist', 'item') and arg0 is not None:
                return ev(arg0, env)
            if name == 'log' and arg0 is not None:
                return sym.log(ev(arg0, env))
            if name == 'log1p' and arg0 is not None:
                return sym.log(Rat.const(1) + ev(arg0, env))
            if name == 'exp' and arg0 is not None:
                return exp_of(ev(arg0, env))
            if name == 'expm1' and arg0 is not None:
                return exp_of(ev(arg0, env)) - Rat.const(1)
            if name == 'logit' and arg0 is not None:
                a = ev(arg0, env)
                return sym.log(a) - sym.log(Rat.const(1) - a)
            if isinstance(x.func, ast.Name) and x.func.id in module.functions:
                h = module.functions[x.func.id]
                rets = [n for n in ast.walk(h) if isinstance(n, ast.Return)]
                params = [a.arg for a in h.args.args]
                if len(rets) == 1 and len(params) == len(x.args):
                    return ev(rets[0].value, {p_: ev(a, env) for p_, a in zip(params, x.args)})
        raise Unsupported(x, f"`{ast.unparse(x)[:50]}` outside the inverse vocabulary")

    def exp_of(arg):
        """exp with exp(c·log q) = q^c for integer c"""
        if len(arg.den) != 1 or () not in arg.den:
            return sym.exp(arg)
        d = arg.den[()]
        factor = Rat.const(1)
        rest = Rat.const(0)
        for mono, c in arg.num.items():
            c = c / d
            if len(mono) == 1 and mono[0][0] in sym.logs and mono[0][1] == 1 and c.denominator == 1:
                q_ = sym.logs[mono[0][0]]
                n_ = int(c)
                factor = factor * (q_ ** n_ if n_ >= 0 else (Rat.const(1) / q_) ** (-n_))
            else:
                rest = rest + Rat({mono: c})
        return factor if rest.is_zero() else factor * sym.exp(rest)
    try:
        g = ev(e, {})
        p_ = Rat.sym('p')
        if kind == 'unit-interval':
            fwd = Rat.const(1) / (Rat.const(1) + exp_of(-g))
        elif kind == 'lower<=0':
            fwd = exp_of(g)
        elif kind == 'lower>0':
            fwd = g + Rat.sym('L')
        elif kind == 'affine(loc,scale)':
            from fractions import Fraction
            sc = Rat.const(Fraction(str(consts['scale']))) if consts and 'scale' in consts else Rat.sym('scale')
            fwd = g * sc + Rat.sym('loc')
        else:
            return (False, f"`{ast.unparse(v)[:60]}` is not {tname}().inv(…) and no closed form is known for this transform")
        ok = sym.equal(fwd, p_)
        return (ok, '' if ok else f"`{ast.unparse(v)[:60]}` maps the requested value p to x with {tname}(x) = {repr(fwd)[:80]} ≠ p")
    except Unsupported as u:
        return (False, f"`{ast.unparse(v)[:60]}`: {u}")


HELPER_KIND = {'SigmoidTransform': 'unit-interval', 'ExpTransform': 'lower<=0', 'AffineTransform': 'affine(loc,scale)', 'StickBreakingTransform': 'simplex'}


def check_advi_transforms(ctx, rep):
    """the variational builders turn constraints into transforms through their own helpers: same obligations as make_unconstrained"""
    am = ctx.prog.module(f"{CLI}.advi")
    helpers = {}
    for name, fn in am.functions.items():
        if not name.startswith('apply_') or name == 'apply_transforms_for_fullrank':
            continue
        tset = [st.value.value for st in ast.walk(fn) if isinstance(st, ast.Assign) and len(st.targets) == 1 and isinstance(st.targets[0], ast.Subscript)
                and isinstance(st.targets[0].slice, ast.Constant) and st.targets[0].slice.value == 'transform' and isinstance(st.value, ast.Constant)]
        if len(set(tset)) != 1:
            continue
        helpers[name] = (fn, tset[0].split('.')[-1])
    if len(helpers) < 4:
        raise AnalysisError(f"only {len(helpers)} apply_* transform helpers found in cli/advi.py")
    flow = _flow(ctx)
    for name, (fn, tname) in sorted(helpers.items()):
        W = where(am, fn)
        kind = HELPER_KIND.get(tname)
        # parameters that every call site leaves at their default are constants inside the helper
        sites = [c for m in cli_modules(ctx) for c in ast.walk(m.tree) if isinstance(c, ast.Call) and isinstance(c.func, ast.Name) and c.func.id == name]
        params = [a.arg for a in fn.args.args]
        defaults = dict(zip(params[len(params) - len(fn.args.defaults):], fn.args.defaults))
        const_params = {}
        for p_, d in defaults.items():
            i = params.index(p_)
            if all(len(c.args) <= i and not any(k.arg == p_ for k in c.keywords) for c in sites) and isinstance(d, ast.Constant):
                const_params[p_] = d.value
        body = _prune_constant_tests(fn, const_params)
        stores = x_tensor_values(body)
        sets_type = any(isinstance(st, ast.Assign) and isinstance(st.targets[0], ast.Subscript) and isinstance(st.targets[0].slice, ast.Constant)
                        and st.targets[0].slice.value == 'type' and isinstance(st.value, ast.Constant) and st.value.value == 'TransformedParameter' for st in fn.body)
        dels = any(isinstance(st, ast.Delete) and any(isinstance(t, ast.Subscript) and isinstance(t.slice, ast.Constant) and t.slice.value == 'tensor' for t in st.targets)
                   for st in ast.walk(fn))
        verdicts = []
        for v in stores:
            if kind == 'simplex' and isinstance(v, ast.Constant) and v.value == 0.0:
                verdicts.append((True, ''))      # a simplex given by `full` + one fill value is uniform, whose stick-breaking pre-image is 0
                continue
            site_consts = dict(const_params)
            for p_ in params:
                i = params.index(p_)
                vals = {c.args[i].value for c in sites if len(c.args) > i and isinstance(c.args[i], ast.Constant)}
                if sites and all(len(c.args) > i and isinstance(c.args[i], ast.Constant) for c in sites) and len(vals) == 1 and isinstance(next(iter(vals)), (int, float)):
                    site_consts[p_] = next(iter(vals))
            verdicts.append(inverse_verdict(am, v, kind, tname, site_consts))
        why_not = [w for ok_, w in verdicts if not ok_]
        rep.check('C19.U', f"{name}::initial-value-through-the-same-inverse", bool(stores) and not why_not and sets_type and dels and kind is not None, W,
                  {'transform': tname, 'stores_checked': len(stores), 'not_the_inverse': why_not, 'constant_parameters': const_params},
                  f"{name}: installs {tname} but a value stored as the unconstrained tensor is not its inverse of the requested value" + (f": {why_not[0]}" if why_not else ''))
        if kind == 'affine(loc,scale)':
            # (p − loc) is the inverse only for scale 1: every call site must pass it
            i = params.index('scale') if 'scale' in params else None
            bad = [norm_text(c)[:70] for c in sites if i is None or len(c.args) <= i or not (isinstance(c.args[i], ast.Constant) and c.args[i].value in (1, 1.0))]
            uses_scale = any(isinstance(x, ast.Name) and x.id == 'scale' for v in stores for x in ast.walk(v))
            rep.check('C19.U', f"{name}::unit-scale-at-every-call-site", uses_scale or not bad, W, {'call_sites': len(sites), 'non_unit': bad},
                      f"{name} initialises x with (p − loc), the inverse of AffineTransform(loc, scale) only for scale 1, but is called with another scale: {bad[:2]}")
    # dispatchers
    for dname in ('create_meanfield', 'apply_transforms_for_fullrank'):
        fn = am.functions.get(dname)
        if fn is None:
            raise AnalysisError(f"{dname} not found")
        seen = {}
        for c in ast.walk(fn):
            if isinstance(c, ast.Call) and isinstance(c.func, ast.Name) and c.func.id in helpers:
                conds = []
                p, child = getattr(c, '_parent', None), c
                while p is not None and p is not fn:
                    if isinstance(p, ast.If):
                        inbody = any(child is x for b in p.body for x in ast.walk(b))
                        conds.append((ast.unparse(p.test).replace('"', "'"), inbody))
                    child, p = p, getattr(p, '_parent', None)
                kind = _constraint_kind(conds)
                tname = helpers[c.func.id][1]
                arg0 = ast.unparse(c.args[0]) if c.args else ''
                if kind == 'lower>0' and arg0.endswith("['x']") and tname == 'ExpTransform':
                    kind = 'lower<=0'        # the shifted parameter (lower bound 0) is then made positive
                want = TRANSFORM_FOR.get(kind)
                key = f"{dname}::{kind}::{c.func.id}"
                seen.setdefault(kind, []).append(tname)
                rep.check('C19.U', key + '::transform-matches-constraint', kind is not None and want == tname, where(am, c),
                          {'guard': ' & '.join(('' if pos else 'not ') + t for t, pos in conds)[:200], 'transform': tname},
                          f"{dname}: under `{conds[0][0][:80] if conds else ''}` the constraint is {kind} but the helper installs {tname} ({want} maps onto that set)")
        rep.check('C19.U', f"{dname}::all-four-constraints-handled", set(TRANSFORM_FOR) <= set(seen), where(am, fn), {'seen': {str(k): v for k, v in seen.items()}},
                  f"{dname} must turn (0,1), lower>0, lower≤0 and simplex constraints into transforms")
    # the only bounded intervals the builders emit are (0, 1) or degenerate (fixed value): the bounded case is mapped by a sigmoid
    pairs = {}
    for m in cli_modules(ctx):
        for fn in [n for n in ast.walk(m.tree) if isinstance(n, ast.FunctionDef)]:
            for st in ast.walk(fn):
                if isinstance(st, ast.Assign):
                    for t in st.targets:
                        if isinstance(t, ast.Subscript) and isinstance(t.value, ast.Name) and 'CONSTRAINT.' in ast.unparse(t.slice):
                            which = 'lower' if 'LOWER' in ast.unparse(t.slice) else ('upper' if 'UPPER' in ast.unparse(t.slice) else None)
                            if which:
                                pairs.setdefault((m.name.split('.')[-1], fn.name, t.value.id), {}).setdefault(which, []).append(st.value)
    n_b = 0
    for (mod, fname, var), d in sorted(pairs.items()):
        if 'upper' not in d:
            continue
        n_b += 1
        lows = {ast.literal_eval(v) if isinstance(v, ast.Constant) else ast.unparse(v) for v in d.get('lower', [])}
        ups = {ast.literal_eval(v) if isinstance(v, ast.Constant) else ast.unparse(v) for v in d['upper']}
        ok = all((lo == 0 and up == 1) or lo == up or (lo == 0 and up == 0) or (isinstance(up, str) and up in {x if isinstance(x, str) else None for x in lows} | {f"{var}[CONSTRAINT.LOWER.value]"})
                 for lo in (lows or {None}) for up in ups)
        rep.check('C19.U', f"{mod}.{fname}::{var}::bounded-constraint-is-unit-interval-or-fixed", ok, f"{mod}.py:{fname}", {'lower': sorted(map(str, lows)), 'upper': sorted(map(str, ups))},
                  f"{fname}: `{var}` gets bounds {sorted(map(str, lows))}–{sorted(map(str, ups))}; bounded parameters are mapped with a sigmoid, which only covers (0, 1)")
    if n_b < 5:
        raise AnalysisError(f"only {n_b} bounded parameters found in the CLI")


def _constraint_kind(conds):
    flat = [(c, pos) for c, pos in conds]
    for c, pos in flat:
        if 'SIMPLEX' in c and pos:
            return 'simplex'
    for c, pos in flat:
        if "LOWER.value] > 0" in c:
            return 'lower>0' if pos else 'lower<=0'
        if "LOWER.value] == 0" in c and 'UPPER' not in c and pos:
            return 'lower<=0'
    for c, pos in flat:
        if 'LOWER.value in' in c and 'UPPER.value in' in c and pos:
            return 'unit-interval'
        if ("LOWER.value] != " in c or "== 0" in c and "== 1" in c) and pos:
            return 'unit-interval'
    for c, pos in flat:
        if 'LOWER.value in' in c and 'UPPER' not in c and pos:
            return 'lower<=0'
    return None


def _prune_constant_tests(fn, consts):
    """statements of fn with `if <param> is None / is not None` resolved for parameters that are constant at every call site"""
    out = []

    def test_value(t):
        if isinstance(t, ast.Compare) and len(t.ops) == 1 and isinstance(t.left, ast.Name) and t.left.id in consts and isinstance(t.comparators[0], ast.Constant):
            a, b = consts[t.left.id], t.comparators[0].value
            if isinstance(t.ops[0], ast.Is):
                return a is b
            if isinstance(t.ops[0], ast.IsNot):
                return a is not b
            if isinstance(t.ops[0], ast.Eq):
                return a == b
        return None

    def walk(stmts):
        res = []
        for st in stmts:
            if isinstance(st, ast.If):
                v = test_value(st.test)
                if v is True:
                    res += walk(st.body)
                    continue
                if v is False:
                    res += walk(st.orelse)
                    continue
                st2 = copy.copy(st)
                st2.body, st2.orelse = walk(st.body), walk(st.orelse)
                res.append(st2)
            else:
                res.append(st)
        return res
    return walk(fn.body)


def check_make_unconstrained(ctx, rep):
    um = ctx.prog.module(f"{CLI}.utils")
    fn = um.functions.get('make_unconstrained')
    if fn is None:
        raise AnalysisError('make_unconstrained not found')
    # collect branches that set json_object['transform']
    branches = []
    for n in ast.walk(fn):
        if isinstance(n, ast.Assign) and isinstance(n.targets[0], ast.Subscript) and isinstance(n.targets[0].slice, ast.Constant) and n.targets[0].slice.value == 'transform' \
                and isinstance(n.value, ast.Constant):
            # the innermost block containing this statement
            blk = n._parent
            body = blk.body if n in getattr(blk, 'body', []) else blk.orelse
            conds = []
            p, child = n._parent, n
            while p is not None and p is not fn:
                if isinstance(p, ast.If):
                    conds.append((ast.unparse(p.test).replace('"', "'"), child in p.body or any(child is x for b in p.body for x in ast.walk(b))))
                child, p = p, getattr(p, '_parent', None)
            branches.append((n, body, conds))
    if len(branches) != 4:
        raise Unsupported(fn, f"{len(branches)} transform-setting branches in make_unconstrained (expected 4)")
    seen = set()
    for n, body, conds in branches:
        tname = n.value.value.split('.')[-1]
        ctext = ' & '.join(('' if pos else 'not ') + c for c, pos in conds)
        # classify the constraint from the guarding conditions
        kind = None
        flat = ' '.join(c for c, _ in conds)
        inner = conds[0] if conds else ('', True)
        if 'SIMPLEX' in inner[0]:
            kind = 'simplex'
        elif "== 0" in inner[0] and "== 1" in inner[0] and inner[1]:
            kind = 'unit-interval'
        elif "LOWER.value] > 0" in inner[0]:
            kind = 'lower>0' if inner[1] else 'lower<=0'
        seen.add(kind)
        key = f"make_unconstrained::{kind or ctext[:40]}"
        W = where(um, n)
        rep.check('C19.U', key + '::transform-matches-constraint', kind is not None and TRANSFORM_FOR.get(kind) == tname, W, {'guard': ctext, 'transform': tname},
                  f"constraint branch `{ctext}` installs {tname}, whose codomain is not the constrained set ({TRANSFORM_FOR.get(kind)} expected)")
        # type switched, constrained tensor deleted, x initialised through the same transform's inverse
        sets_type = any(isinstance(st, ast.Assign) and isinstance(st.targets[0], ast.Subscript) and isinstance(st.targets[0].slice, ast.Constant)
                        and st.targets[0].slice.value == 'type' and isinstance(st.value, ast.Constant) and st.value.value == 'TransformedParameter' for st in body)
        dels = any(isinstance(st, ast.Delete) and any(isinstance(t, ast.Subscript) and isinstance(t.slice, ast.Constant) and t.slice.value == 'tensor' for t in st.targets)
                   for b in body for st in ast.walk(b))
        tdef = [st for st in body if isinstance(st, ast.Assign) and isinstance(st.targets[0], ast.Name) and st.targets[0].id == 'transform']
        same_transform = bool(tdef) and isinstance(tdef[0].value, ast.Call) and (dotted_name(tdef[0].value.func) or '').split('.')[-1] == tname
        # every value that becomes the tensor of x: stores json_object['x']['tensor'] = V and the 'tensor' entry of the literal assigned to json_object['x']
        stores = x_tensor_values(body)
        verdicts = [inverse_verdict(um, v, kind, tname) for v in stores]
        inits_from_requested = bool(stores) and all(vd[0] for vd in verdicts)
        why_not = [vd[1] for vd in verdicts if not vd[0]]
        rep.check('C19.U', key + '::initial-value-through-the-same-inverse', sets_type and dels and same_transform and inits_from_requested, W,
                  {'switches_type': sets_type, 'deletes_constrained_tensor': dels, 'inverse_of_same_transform': same_transform, 'stores_checked': len(stores),
                   'not_the_inverse': why_not},
                  f"branch for {kind}: every value stored as the unconstrained tensor must be {tname}'s inverse of the requested constrained value and the constrained 'tensor' "
                  f"removed, so that the initial constrained value equals the one requested" + (f"; {why_not[0]}" if why_not else ''))
        if kind == 'lower>0':
            # affine shift by the lower bound with scale 1, then the shifted parameter is itself made positive
            par = [st for st in body if isinstance(st, ast.Assign) and isinstance(st.targets[0], ast.Subscript) and isinstance(st.targets[0].slice, ast.Constant)
                   and st.targets[0].slice.value == 'parameters' and isinstance(st.value, ast.Dict)]
            ok = False
            if par:
                dd = {k.value: v for k, v in zip(par[0].value.keys, par[0].value.values) if isinstance(k, ast.Constant)}
                ok = 'LOWER' in ast.unparse(dd.get('loc', ast.Constant(value=0))) and isinstance(dd.get('scale'), ast.Constant) and dd['scale'].value == 1.0
            rec = any(isinstance(c, ast.Call) and isinstance(c.func, ast.Name) and c.func.id == 'make_unconstrained' for b in body for c in ast.walk(b))
            lower0 = any(isinstance(d, ast.Dict) and any(isinstance(v, ast.Constant) and v.value == 0.0 and isinstance(k, ast.Attribute) for k, v in zip(d.keys, d.values))
                         for b in body for d in ast.walk(b))
            rep.check('C19.U', key + '::shift-then-positive', ok and rec and lower0, W, None,
                      "a lower bound L > 0 must become Affine(loc=L, scale=1) of a parameter that is itself constrained to be positive and made unconstrained recursively")
    rep.check('C19.U', 'make_unconstrained::all-four-constraints-handled', seen == set(TRANSFORM_FOR), where(um, fn), {'seen': sorted(map(str, seen))},
              "make_unconstrained must handle (0,1), lower>0, lower≤0 and simplex constraints")


# ---------------------------------------------------------------------------
# C19.V — an identifier is not built from the leftover variable of an earlier loop
# ---------------------------------------------------------------------------
STALE_POSITIVE = """
def f(parts, out):
    for subst_id, site_id, model in parts:
        out.append(subst_id)
    for _, sid, _ in parts:
        out.append({'id': f"{sid}.shape.prior", 'x': f"{site_id}.shape"})
    for tag in ('a', 'b'):
        out.append(tag)
    tag = 'c'
    for k in (1, 2):
        out.append(tag)
"""


def stale_loop_variables(fn):
    def targets(t):
        return {x.id for x in ast.walk(t) if isinstance(x, ast.Name)} - {'_'}
    loops = [l for l in ast.walk(fn) if isinstance(l, ast.For)]
    out = []
    for l2 in loops:
        for l1 in loops:
            if l1 is l2 or l1.end_lineno >= l2.lineno:
                continue
            stale = targets(l1.target) - targets(l2.target)
            for u in ast.walk(l2):
                if isinstance(u, ast.Name) and isinstance(u.ctx, ast.Load) and u.id in stale:
                    redefined = any(isinstance(a, ast.Name) and isinstance(a.ctx, ast.Store) and a.id == u.id and l1.end_lineno < a.lineno <= u.lineno for a in ast.walk(fn))
                    if not redefined:
                        out.append((u, l1, l2))
    return out, len(loops)


def check_stale_loop_variables(ctx, rep):
    t = ast.parse(STALE_POSITIVE)
    got = [(u.id, u.lineno) for u, _, _ in stale_loop_variables(t.body[0])[0]]
    if got != [('site_id', 6)]:
        raise AnalysisError(f"C19.V self-check failed: {got}")
    n = 0
    for mname, m in sorted(ctx.prog.modules.items()):
        if not mname.startswith('torchtree.cli'):
            continue
        for fn in ast.walk(m.tree):
            if not isinstance(fn, ast.FunctionDef):
                continue
            hits, nl = stale_loop_variables(fn)
            n += nl
            seen = set()
            for u, l1, l2 in hits:
                key = f"{mname.replace('torchtree.', '')}::{fn.name}::{u.id}"
                if key in seen:
                    continue
                seen.add(key)
                rep.bad('C19.V', key, where(m, u), {'loop_that_set_it': l1.lineno, 'loop_that_uses_it': l2.lineno},
                        f"{fn.name}: `{u.id}` is the loop variable of the loop at line {l1.lineno}; the loop at line {l2.lineno} uses it without setting it, so every iteration sees the "
                        f"value left over from the last iteration of the earlier loop (identifiers / references built from it all name the same object)")
            if nl and not hits:
                rep.ok('C19.V', f"{mname.replace('torchtree.', '')}::{fn.name}::no-leftover-loop-variable", where(m, fn), {'loops': nl})
    if n < 40:
        rep.incomplete('C19.V', '*', '', f"only {n} loops found in the CLI builders")

def check_fixed_parameters_stay_fixed(ctx, rep):
    """The builders mark a parameter that must not be estimated by giving it equal lower and upper bounds (K80 / SYM / codon frequencies: "it is a simplex but it is fixed").
    make_unconstrained dispatches on an if/elif chain; the chain's order is the priority.  Every branch that turns the parameter into a free (transformed) parameter must be
    unreachable for an object that carries both bounds: it comes after the both-bounds test, or its own test excludes the bounds."""
    um = ctx.prog.module(f"{CLI}.utils")
    fn = um.functions.get('make_unconstrained')
    if fn is None:
        raise AnalysisError('make_unconstrained not found')
    # the chain under `if 'type' in json_object and json_object['type'] == 'Parameter'`
    top = [n for n in ast.walk(fn) if isinstance(n, ast.If) and "== 'Parameter'" in ast.unparse(n.test).replace('"', "'")]
    if len(top) != 1 or not top[0].body or not isinstance(top[0].body[0], ast.If):
        raise Unsupported(fn, 'dispatch chain of make_unconstrained not recognised')
    chain = []
    node = top[0].body[0]
    while True:
        chain.append((node.test, node.body))
        if len(node.orelse) == 1 and isinstance(node.orelse[0], ast.If):
            node = node.orelse[0]
        else:
            if node.orelse:
                chain.append((None, node.orelse))
            break

    def both_bounds(test):
        t = ast.unparse(test) if test is not None else ''
        return 'LOWER.value in' in t and 'UPPER.value in' in t and ' and ' in t and 'not in' not in t

    def excludes_bounds(test):
        t = ast.unparse(test) if test is not None else ''
        return 'LOWER.value not in' in t or 'UPPER.value not in' in t

    def frees(body):
        return [c for st in body for c in ast.walk(st) if isinstance(c, ast.Call) and isinstance(c.func, ast.Attribute) and c.func.attr == 'append'
                and isinstance(c.func.value, ast.Name) and c.func.value.id == 'parameters_unres']
    pos = next((i for i, (t, _) in enumerate(chain) if t is not None and both_bounds(t)), None)
    if pos is None:
        rep.bad('C19.U', 'make_unconstrained::fixed-parameters-stay-fixed', where(um, fn), None,
                "make_unconstrained has no branch for parameters that carry both a lower and an upper bound: parameters fixed by equal bounds are handed to the sampler")
        return
    for i, (t, body) in enumerate(chain[:pos]):
        fr = frees(body)
        ok = not fr or excludes_bounds(t)
        rep.check('C19.U', f"make_unconstrained::fixed-parameters-stay-fixed::branch-{norm_text(t)[:40]}", ok, where(um, t), {'position_in_chain': i, 'both_bounds_test_at': pos},
                  f"the branch `{norm_text(t)[:60]}` is tested before the both-bounds branch and makes the parameter free: a parameter the builders fixed with equal bounds "
                  f"(K80 / SYM / codon frequencies carry the simplex flag *and* equal bounds) is transformed, handed to the sampler and gets a Jacobian without a prior")
    # inside the both-bounds branch only the unit interval is made free; unequal bounds raise; equal bounds fall through untouched
    t, body = chain[pos]
    inner_ok = False
    if len(body) == 1 and isinstance(body[0], ast.If):
        it = ast.unparse(body[0].test)
        unit = '== 0' in it and '== 1' in it
        rest = body[0].orelse
        raises = len(rest) == 1 and isinstance(rest[0], ast.If) and '!=' in ast.unparse(rest[0].test) and any(isinstance(x, ast.Raise) for x in ast.walk(rest[0])) and not rest[0].orelse
        inner_ok = unit and (raises or not rest) and not any(frees([x]) for x in rest)
    rep.check('C19.U', 'make_unconstrained::fixed-parameters-stay-fixed::equal-bounds-left-alone', inner_ok, where(um, t), None,
              "inside the both-bounds branch only (0, 1) may become a free parameter; equal bounds must leave the object untouched (not appended to the free parameters)")
    rep.ok('C19.U', 'make_unconstrained::dispatch-chain', where(um, fn), {'branches': len(chain), 'both_bounds_test_at': pos})


def check_unconstraining_covers_the_configuration(ctx, rep):
    """In every build_* function the pass that turns constrained parameters into transformed ones (make_unconstrained, or create_variational_model which calls it) is handed
    the very list the function returns: objects placed beside the joint distribution (e.g. the SRD06 relative-rate parameters) are otherwise left constrained, get no
    transform and are neither optimised nor sampled."""
    n = 0
    for mod, fname in (('advi', 'build_advi'), ('hmc', 'build_hmc'), ('mcmc', 'build_mcmc'), ('map', 'build_optimizer')):
        m = ctx.prog.module(f"{CLI}.{mod}")
        fn = m.functions.get(fname)
        if fn is None:
            raise AnalysisError(f"{mod}.{fname} not found")
        rets = [r for r in ast.walk(fn) if isinstance(r, ast.Return) and isinstance(r.value, ast.Name)]
        calls = [c for c in ast.walk(fn) if isinstance(c, ast.Call) and isinstance(c.func, ast.Name) and c.func.id in ('make_unconstrained', 'create_variational_model')]
        key = f"{mod}.{fname}::constraints-removed-over-the-whole-configuration"
        if len(rets) != 1 or len(calls) != 1:
            rep.undecided('C19.U', key, where(m, fn), f"{len(rets)} returns of a name / {len(calls)} unconstraining calls")
            continue
        n += 1
        c = calls[0]
        arg = c.args[0] if c.func.id == 'make_unconstrained' else (c.args[1] if len(c.args) > 1 else None)
        ok = isinstance(arg, ast.Name) and arg.id == rets[0].value.id
        rep.check('C19.U', key, ok, where(m, c), {'walks': ast.unparse(arg) if arg is not None else None, 'returns': rets[0].value.id},
                  f"{fname} removes the constraints from `{ast.unparse(arg) if arg is not None else '?'}` but returns `{rets[0].value.id}`: objects of the configuration outside "
                  f"`{ast.unparse(arg) if arg is not None else '?'}` keep their constrained parameters, which get no transform and are not handed to the algorithm")
    if n < 4:
        rep.incomplete('C19.U', 'builders::constraints-removed-over-the-whole-configuration', '', f"only {n} of 4 builders decided")
    # create_variational_model forwards what it is given
    am = ctx.prog.module(f"{CLI}.advi")
    cv = am.functions.get('create_variational_model')
    if cv is not None and len(cv.args.args) > 1:
        p = cv.args.args[1].arg
        fw = [c for c in ast.walk(cv) if isinstance(c, ast.Call) and isinstance(c.func, ast.Name) and c.func.id in ('make_unconstrained', 'apply_transforms_for_fullrank', 'create_meanfield',
                                                                                                                    'create_fullrank', 'create_realnvp', 'create_flexible_variational')
              and c.args and any(isinstance(a, ast.Name) and a.id == p for a in c.args)]
        rep.check('C19.U', 'advi.create_variational_model::walks-the-object-it-is-given', bool(fw), where(am, cv), {'forwarded_in': [norm_text(c)[:50] for c in fw][:3]},
                  "create_variational_model must hand the configuration it receives to the family builders (which remove the constraints)")


def _template(e):
    """identifier template of an f-string / constant: formatted values become {}"""
    if isinstance(e, ast.Constant) and isinstance(e.value, str):
        return e.value
    if isinstance(e, ast.JoinedStr):
        return ''.join(v.value if isinstance(v, ast.Constant) else '{}' for v in e.values)
    return None


def check_jacobians_are_not_stacked_on_skipped_transforms(ctx, rep):
    """C19.J (addition) — create_jacobians leaves out the transforms that have no density correction (the rescaled rates are a many-to-one function of the unscaled rates on
    which the prior is placed).  A TransformedParameter whose own Jacobian IS collected (because a prior is placed on it) must then not take such a parameter as its `x`:
    its log-Jacobian would be evaluated at the output of a map whose own volume change is (deliberately) not counted, and the target is no longer the joint density plus the
    log-Jacobians of the transforms between the sampled parameters and the ones the priors are placed on."""
    jm = ctx.prog.module(f"{CLI}.jacobians")
    cj = jm.functions.get('create_jacobians')
    if cj is None:
        raise AnalysisError('jacobians.create_jacobians not found')
    skipped = {c.value for n in ast.walk(cj) if isinstance(n, ast.Compare) and len(n.ops) == 1 and isinstance(n.ops[0], ast.NotEq) and "'transform'" in ast.unparse(n.left)
               for c in n.comparators if isinstance(c, ast.Constant) and isinstance(c.value, str)}
    if not skipped:
        rep.undecided('C19.J', 'jacobians::skipped-transforms', where(jm, cj), 'the transforms create_jacobians leaves out are not recognised')
        return
    literals = []
    for mn, m in ctx.prog.modules.items():
        if not mn.startswith(CLI):
            continue
        for d in ast.walk(m.tree):
            if isinstance(d, ast.Dict):
                kv = {k.value: v for k, v in zip(d.keys, d.values) if isinstance(k, ast.Constant)}
                if isinstance(kv.get('type'), ast.Constant) and kv['type'].value == 'TransformedParameter' and 'transform' in kv and 'id' in kv:
                    literals.append((m, d, kv))
    skipped_ids = {_template(kv['id']) for m, d, kv in literals if isinstance(kv['transform'], ast.Constant) and kv['transform'].value in skipped} - {None}
    n = 0
    for m, d, kv in literals:
        if isinstance(kv['transform'], ast.Constant) and kv['transform'].value in skipped:
            continue
        x = kv.get('x')
        tx = _template(x) if x is not None else None
        if tx is None:
            continue            # an object written inline or a local: decided where that object is built
        n += 1
        rep.check('C19.J', f"{m.name.replace('torchtree.', '')}::{_template(kv['id'])}::not-stacked-on-a-transform-without-jacobian", tx not in skipped_ids, where(m, x),
                  {'x': tx, 'parameters_without_jacobian': sorted(skipped_ids)},
                  f"the TransformedParameter `{_template(kv['id'])}` (its log-Jacobian is collected by create_jacobians) takes `{tx}` as x, the output of {sorted(skipped)} whose "
                  f"volume change is left out on purpose: the prior placed on it is a density on a function of the rescaled values, and the target handed to the samplers is no "
                  f"longer the joint density plus the log-Jacobians between the sampled parameters and the ones carrying priors")
    rep.analysed['transformed_parameters_with_reference_x'] = n
    if n < 1 or not skipped_ids:
        rep.incomplete('C19.J', 'stacked-transforms', '', f"{n} TransformedParameter literals with a referenced x, {len(skipped_ids)} identifiers of skipped transforms")


def check_jacobian_terms_are_evaluable(ctx, rep):
    """C19.J (addition) — create_jacobians lists every TransformedParameter of the specification except the ones its own test excludes; each listed one is *called* when the
    target is evaluated, which returns transform.log_abs_det_jacobian(x, y).  For every transform the builders put into a TransformedParameter literal: if the class's
    log_abs_det_jacobian unconditionally raises (NotImplementedError) the literal must be excluded by create_jacobians' test, otherwise the emitted configuration stops at the
    first evaluation of joint.jacobian."""
    jm = ctx.prog.module(f"{CLI}.jacobians")
    cj = jm.functions.get('create_jacobians')
    if cj is None:
        raise AnalysisError('jacobians.create_jacobians not found')
    excluded_names = {c.value for n in ast.walk(cj) if isinstance(n, ast.Compare) for c in [n.left] + list(n.comparators) if isinstance(c, ast.Constant) and isinstance(c.value, str)}
    excluded_names |= {x.value for n in ast.walk(cj) if isinstance(n, ast.Compare) for c in n.comparators if isinstance(c, (ast.Tuple, ast.List, ast.Set)) for x in c.elts if isinstance(x, ast.Constant)}
    # which builder functions produce objects that are in the list when create_jacobians scans it: results appended / extended into the scanned list *before* the call
    table = {}
    for mname, m in ctx.prog.modules.items():
        if mname.startswith(CLI):
            for fname, f in m.functions.items():
                table.setdefault(fname, (m, f))

    def callees(f):
        return {c.func.id for c in ast.walk(f) if isinstance(c, ast.Call) and isinstance(c.func, ast.Name) and c.func.id in table} | \
               {c.func.attr for c in ast.walk(f) if isinstance(c, ast.Call) and isinstance(c.func, ast.Attribute) and isinstance(c.func.value, ast.Name) and c.func.attr in table
                and c.func.value.id in ('evolution', 'utils', 'priors', 'loggers')}
    scanned_roots = set()
    for mod, bname in (('advi', 'build_advi'), ('hmc', 'build_hmc'), ('mcmc', 'build_mcmc'), ('map', 'build_optimizer')):
        bm = ctx.prog.module(f"{CLI}.{mod}")
        b = bm.functions.get(bname)
        if b is None:
            continue
        call_st = next((i for i, st in enumerate(b.body) if any(isinstance(c, ast.Call) and isinstance(c.func, ast.Name) and c.func.id == 'create_jacobians' for c in ast.walk(st))), None)
        if call_st is None:
            continue
        scanned = next((c.args[0].id for st in [b.body[call_st]] for c in ast.walk(st) if isinstance(c, ast.Call) and isinstance(c.func, ast.Name) and c.func.id == 'create_jacobians'
                        and c.args and isinstance(c.args[0], ast.Name)), None)
        produced = {}
        for st in b.body[:call_st]:
            for x in ast.walk(st):
                if isinstance(x, ast.Assign) and isinstance(x.value, ast.Call):
                    fn_name = x.value.func.id if isinstance(x.value.func, ast.Name) else (x.value.func.attr if isinstance(x.value.func, ast.Attribute) else None)
                    for t in x.targets:
                        for el in (t.elts if isinstance(t, ast.Tuple) else [t]):
                            if isinstance(el, ast.Name):
                                produced[el.id] = fn_name
                if isinstance(x, ast.Call) and isinstance(x.func, ast.Attribute) and x.func.attr in ('append', 'extend', 'insert') and isinstance(x.func.value, ast.Name) and x.func.value.id == scanned:
                    for a in x.args:
                        for y in ast.walk(a):
                            if isinstance(y, ast.Name) and produced.get(y.id) in table:
                                scanned_roots.add(produced[y.id])
                            if isinstance(y, ast.Call) and isinstance(y.func, ast.Name) and y.func.id in table:
                                scanned_roots.add(y.func.id)
    reach = set(scanned_roots)
    work = list(scanned_roots)
    while work:
        f = work.pop()
        for g in callees(table[f][1]):
            if g not in reach:
                reach.add(g)
                work.append(g)
    n = 0
    seen = set()
    for mname, m in sorted(ctx.prog.modules.items()):
        if not mname.startswith(CLI):
            continue
        for d in ast.walk(m.tree):
            if not isinstance(d, ast.Dict):
                continue
            encl = enclosing_function(d)
            if encl is None or encl.name not in reach:
                continue        # built by a function whose result is not in the scanned list (e.g. the variational distribution, appended after the scan)
            kv = {k.value: v for k, v in zip(d.keys, d.values) if isinstance(k, ast.Constant)}
            if not (isinstance(kv.get('type'), ast.Constant) and kv['type'].value == 'TransformedParameter' and isinstance(kv.get('transform'), ast.Constant)):
                continue
            t = kv['transform'].value
            if t in seen:
                continue
            seen.add(t)
            short = t.split('.')[-1]
            cands = [c for c in ctx.classes.classes.values() if c.node.name == short and not t.startswith('torch.')]
            if not cands:
                continue            # torch's own transforms implement their log-determinant (trusted)
            n += 1
            cls = cands[0]
            r = cls.resolve('log_abs_det_jacobian')
            raises = False
            if r:
                body = [st for st in r[1].body if not (isinstance(st, ast.Expr) and isinstance(st.value, ast.Constant))]
                raises = len(body) == 1 and isinstance(body[0], ast.Raise)
            listed = t not in excluded_names and short not in excluded_names
            rep.check('C19.J', f"create_jacobians::log-determinant-of-{short}-is-implemented-or-excluded", not (raises and listed), where(m, d),
                      {'transform': t, 'log_abs_det_jacobian_raises': raises, 'listed_by_create_jacobians': listed},
                      f"the builders wrap a parameter in `{t}`, whose log_abs_det_jacobian only raises NotImplementedError, and create_jacobians does not exclude it: its id is put "
                      f"into joint.jacobian and the first evaluation of the target stops with NotImplementedError (the emitted configuration is not runnable)")
    if n < 1:
        rep.incomplete('C19.J', 'create_jacobians::torchtree-transforms', '', f'no torchtree transform found in the TransformedParameter literals of the scanned builders (roots: {sorted(scanned_roots)})')


def check_tree_initial_values(ctx, rep):
    """C19.U (addition) — initial values of the node-height parameters written by create_tree_model.  The parameters live in the space of the (non-linear) height transform;
    a value stored under tree_model[<ratios|shifts>]['tensor'] is either read back from an instantiated tree model (`obj._internal_heights.tensor…`) or the inverse transform
    of node heights (`obj.transform.inv(heights)`).  Arithmetic on the parameter vector itself (rescaling shifts or ratios) is not a rescaling of the heights unless every tip
    is at height zero."""
    m = ctx.prog.module(f"{CLI}.evolution")
    fn = m.functions.get('create_tree_model')
    if fn is None:
        raise AnalysisError('create_tree_model not found')
    defs = local_assignments(fn)
    n = 0
    for st in ast.walk(fn):
        if not (isinstance(st, ast.Assign) and len(st.targets) == 1 and isinstance(st.targets[0], ast.Subscript)):
            continue
        t = st.targets[0]
        if not (isinstance(t.slice, ast.Constant) and t.slice.value == 'tensor' and isinstance(t.value, ast.Subscript) and isinstance(t.value.slice, ast.Constant)
                and t.value.slice.value in ('shifts', 'ratios', 'root_height')):
            continue
        n += 1
        v = st.value
        while isinstance(v, ast.Call) and isinstance(v.func, ast.Attribute) and v.func.attr in ('tolist', 'clone', 'detach'):
            v = v.func.value
        through_inverse = isinstance(v, ast.Call) and isinstance(v.func, ast.Attribute) and v.func.attr in ('inv', '_inverse') and isinstance(v.func.value, ast.Attribute) and v.func.value.attr == 'transform'
        read_back = isinstance(v, (ast.Attribute, ast.Subscript)) and '_internal_heights.tensor' in ast.unparse(v) and not any(isinstance(x, ast.BinOp) for x in ast.walk(v))
        arithmetic_on_parameters = any(isinstance(x, ast.BinOp) for x in ast.walk(v)) and any(
            '_internal_heights' in ast.unparse(e) for e in backward_slice(v, defs))
        key = f"create_tree_model::{t.value.slice.value}.tensor#{st.lineno - fn.lineno}"
        if through_inverse or read_back:
            rep.ok('C19.U', key, where(m, st), {'value': norm_text(st.value)[:70], 'class': 'inverse transform of heights' if through_inverse else 'read back from the instantiated model'})
        elif arithmetic_on_parameters:
            rep.bad('C19.U', key, where(m, st), {'value': norm_text(st.value)[:70]},
                    f"create_tree_model stores `{norm_text(st.value)[:60]}` as initial {t.value.slice.value}: arithmetic on the parameter vector of the height transform; scaling "
                    f"the {t.value.slice.value} does not scale the node heights (heights are max(children) + shift with tips at their sampling dates), so the requested root height "
                    f"is not the one the emitted model starts from")
        else:
            rep.undecided('C19.U', key, where(m, st), f"initial value `{norm_text(st.value)[:60]}` neither read back from a model nor an inverse transform")
    if n < 2:
        rep.incomplete('C19.U', 'create_tree_model::initial-values', '', f"only {n} stores of initial height parameters found")


def run(ctx, rep):
    rep.explanation = (
        "Reader table: for every registered class the keys its from_json dereferences on every path to a normal return (CFG must-pass, helpers inlined) and "
        "the keys it hands to process_object*.  Every dict literal with a constant 'type' in torchtree/cli (joined with later constant-key stores on the same "
        "variable) must carry the reader's mandatory keys, and its type / transform / distribution strings must resolve.  The Jacobian assembly of the three "
        "builders is compared as normalised AST and checked clause by clause; create_jacobians must visit every nested object once and skip only unit-scale "
        "affine transforms; each constraint branch of make_unconstrained must install the transform whose codomain is the constraint and initialise the "
        "unconstrained value through that transform's inverse; identifiers referenced by loggers, samplers and Jacobian lists must unify with some "
        "identifier template the builders can define."
    )
    rep.rule('C19.T', "every 'type' / 'transform' / 'distribution' string the CLI emits resolves to a registered class or dotted path")
    rep.rule('C19.K', "every typed object literal the CLI emits carries the keys its reader dereferences on every path")
    rep.rule('C19.J', "Jacobians: collected after constraints became transforms, tree Jacobian for ratio heights, none for log-scale GMRF, counted once, identical in advi/hmc/mcmc, samplers target joint.jacobian")
    rep.rule('C19.U', "make_unconstrained: transform codomain = constraint; unconstrained value = inverse transform of the requested value; constrained tensor removed")
    rep.rule('C19.R', "identifiers referenced by loggers / samplers / Jacobian lists / reference-typed keys unify with an identifier template defined by the builders")
    rep.rule('C19.E', "every option value the parsers accept has a handler: under each accepted value no local is read where no assignment can reach it")
    rep.rule('C19.V', "no identifier / reference in the builders is built from the leftover loop variable of an earlier loop")
    rep.rule('C19.G', "an optional command-line option written into the size of a parameter is required by check_arguments under every option combination that reaches the site")
    rep.rule('C19.D', "the object a reference-typed key resolves to (same id, co-reachable option values) has every member the referencing class reads on it")
    rep.rule('C19.O', "values passed between builders through private attributes of the option object are written (dominating call) before the builder that reads them with a silent fallback is called")
    rep.rule('C19.Z', "an option whose value 0 and whose absence (None) are told apart elsewhere in the builders is never tested by bare truthiness")
    rep.rule('C19.N', "tensor-only torch functions are never applied to a plain Python number in the builders")
    rep.not_decided += ["finiteness of density and gradient at the initial point", "pairwise option coverage at run time", "plugins"]
    from props import c19_ids, c19_flow
    steps = ((check_types_and_keys, 'C19.K'), (check_jacobians, 'C19.J'), (check_jacobian_terms_are_evaluable, 'C19.J'), (check_jacobians_are_not_stacked_on_skipped_transforms, 'C19.J'), (check_make_unconstrained, 'C19.U'), (check_fixed_parameters_stay_fixed, 'C19.U'), (check_tree_initial_values, 'C19.U'), (check_helper_objects_are_built_alike, 'C19.U'), (check_requested_values_are_handed_to_the_builders, 'C19.U'), (check_unconstraining_covers_the_configuration, 'C19.U'), (check_advi_transforms, 'C19.U'), (c19_ids.check_ids, 'C19.R'),
             (c19_flow.check_exhaustive, 'C19.E'), (c19_flow.check_pynum, 'C19.N'), (check_stale_loop_variables, 'C19.V'), (c19_ids.check_none_sizes, 'C19.G'), (c19_ids.check_reference_types, 'C19.D'), (c19_ids.check_side_channels, 'C19.O'), (c19_ids.check_first_user_is_emitted_first, 'C19.O'), (c19_ids.check_zero_versus_missing, 'C19.Z'))
    for f, rule in steps:
        try:
            f(ctx, rep)
        except Unsupported as u:
            rep.undecided(rule, f.__name__, f"line {getattr(u.node, 'lineno', 0)}", str(u))
    check_bounds_do_not_depend_on_data(ctx, rep)
    rep.rule('C19.I', "requested initial values reach the emitted specification in a form the reader accepts: a list-valued 'tensor' is never left next to a 'full' size")
    check_list_tensor_next_to_full(ctx, rep)
    rep.rule('C19.S', "the initial value written for a parameter that a density divides by is never exactly zero, for any combination of options")
    check_initial_values_off_singularities(ctx, rep)
    rep.rule('C19.L', "kind inference over the CLI: a value that can be a list (a split result handed on unchanged) is never compared with a string")
    check_list_compared_with_string(ctx, rep)


BOUND_POSITIVE = """
def create_ratio_tree_model(id_, newick, ratios, root_height, offset, **kwargs):
    root_height = Parameter.json_factory(f"{id_}.root_height", **{"tensor": root_height})
    if offset > 0.0:
        root_height[CONSTRAINT.LOWER.value] = offset
    if arg.categories > 1:
        shape[CONSTRAINT.LOWER.value] = 0.0
    return root_height
"""


def bounds_under_data_tests(tree):
    """stores `P[CONSTRAINT.X.value] = v` that sit under an ordering comparison (`<`, `<=`, `>`, `>=`) of values that are not command-line options: whether the parameter gets its
    bound — and with it its transform and its Jacobian term — then depends on the data (for instance on whether the oldest tip has age zero)"""
    out = []
    for st in ast.walk(tree):
        if not (isinstance(st, ast.Assign) and any(isinstance(x, ast.Subscript) and 'CONSTRAINT' in ast.unparse(x.slice) for tg in st.targets for x in ast.walk(tg))):
            continue
        p_ = getattr(st, '_parent', None)
        while p_ is not None and not isinstance(p_, ast.FunctionDef):
            if isinstance(p_, ast.If):
                for cmp_ in ast.walk(p_.test):
                    if isinstance(cmp_, ast.Compare) and any(isinstance(o, (ast.Lt, ast.LtE, ast.Gt, ast.GtE)) for o in cmp_.ops) \
                            and not any(isinstance(x, ast.Attribute) and isinstance(x.value, ast.Name) and x.value.id in ('arg', 'args') for x in ast.walk(cmp_)):
                        out.append((st, p_.test))
            p_ = getattr(p_, '_parent', None)
    return out


def check_bounds_do_not_depend_on_data(ctx, rep):
    t = ast.parse(BOUND_POSITIVE)
    for x in ast.walk(t):
        for ch in ast.iter_child_nodes(x):
            ch._parent = x
    if len(bounds_under_data_tests(t)) != 1:
        raise AnalysisError('C19.U self-check: the conditional bound of the embedded example is not recognised')
    n = 0
    for mname, m in sorted(ctx.prog.modules.items()):
        if not mname.startswith('torchtree.cli'):
            continue
        stores = [st for st in ast.walk(m.tree) if isinstance(st, ast.Assign) and any(isinstance(x, ast.Subscript) and 'CONSTRAINT' in ast.unparse(x.slice) for tg in st.targets for x in ast.walk(tg))]
        n += len(stores)
        for st, test in bounds_under_data_tests(m.tree):
            fn = st
            while fn is not None and not isinstance(fn, ast.FunctionDef):
                fn = getattr(fn, '_parent', None)
            rep.bad('C19.U', f"{mname.replace('torchtree.', '')}::{fn.name if fn else '?'}::{norm_text(st)[:50]}::bound-does-not-depend-on-the-data", where(m, st), {'guard': norm_text(test)[:80]},
                    f"`{norm_text(st)[:60]}` is only executed when `{norm_text(test)[:50]}`, a test on a value computed from the data rather than an option: for data on the other side "
                    f"of the test the parameter is emitted without that bound, goes to the sampler / optimiser without its transform and its Jacobian term is missing from the target")
    rep.ok('C19.U', 'cli::bounds-are-placed-by-options-not-by-data', '', {'constraint_stores': n})
    if n < 40:
        rep.incomplete('C19.U', 'bounds', '', f"only {n} constraint stores found in torchtree/cli")


FULL_POSITIVE = """
def create(id_, arg, alignment):
    rates = Parameter.json_factory(f"{id_}.rates", **{"tensor": 1 / 6, "full": [6]})
    if alignment is not None:
        rates["tensor"] = (rel / rel.sum()).tolist()
    freqs = Parameter.json_factory(f"{id_}.f", **{"tensor": 0.25, "full": [4]})
    if arg.frequencies:
        freqs["tensor"] = list(map(float, arg.frequencies.split(",")))
        del freqs["full"]
    return rates, freqs
"""


def list_tensor_next_to_full(fn):
    """[(store, variable)]: a parameter specification created with a 'full' size gets a LIST as its 'tensor' while 'full' stays in it.  Parameter.from_json reads 'full' first and
    calls torch.full(size, data['tensor']): with a list as fill value it raises — or, where the list is turned into a parameter of its own, the list is silently ignored."""
    from sa.cfg import CFG
    created = {}
    for st in ast.walk(fn):
        if isinstance(st, ast.Assign) and len(st.targets) == 1 and isinstance(st.targets[0], ast.Name) and isinstance(st.value, ast.Call):
            has_full = any(isinstance(d, ast.Dict) and any(isinstance(k, ast.Constant) and k.value == 'full' for k in d.keys) for d in ast.walk(st.value))
            created.setdefault(st.targets[0].id, []).append((st, has_full))
    with_full = {v for v, fl in created.items() if any(h for _, h in fl)}
    if not with_full:
        return []

    def listy(e):
        if isinstance(e, (ast.List, ast.ListComp)):
            return True
        if isinstance(e, ast.Call) and isinstance(e.func, ast.Name) and e.func.id == 'list':
            return True
        if isinstance(e, ast.Call) and isinstance(e.func, ast.Attribute) and e.func.attr == 'tolist':
            return True
        return False
    out = []
    try:
        cfg = CFG(fn)
    except Exception:
        return []
    for st in ast.walk(fn):
        if isinstance(st, ast.Assign) and len(st.targets) == 1 and isinstance(st.targets[0], ast.Subscript) and isinstance(st.targets[0].value, ast.Name) \
                and st.targets[0].value.id in with_full and isinstance(st.targets[0].slice, ast.Constant) and st.targets[0].slice.value == 'tensor' and listy(st.value):
            v = st.targets[0].value.id
            dels = []
            for nd in cfg.stmt_nodes():
                s2 = nd.stmt
                if isinstance(s2, ast.Delete) and any(isinstance(t, ast.Subscript) and isinstance(t.value, ast.Name) and t.value.id == v and isinstance(t.slice, ast.Constant)
                                                      and t.slice.value == 'full' for t in s2.targets):
                    dels.append(nd)
                if isinstance(s2, ast.Expr) and isinstance(s2.value, ast.Call) and isinstance(s2.value.func, ast.Attribute) and s2.value.func.attr == 'pop' \
                        and isinstance(s2.value.func.value, ast.Name) and s2.value.func.value.id == v and s2.value.args and isinstance(s2.value.args[0], ast.Constant) and s2.value.args[0].value == 'full':
                    dels.append(nd)
            try:
                node = cfg.node_of(st)
                cnodes = [(cfg.node_of(c_), h_) for c_, h_ in created[v]]
            except KeyError:
                continue
            # reached by a creation that carries 'full' (the other creations of the same name cut the path)
            kills = {cn.id for cn, _ in cnodes}
            reached = any(h_ and node.id in cfg.reachable_after(cn, kills - {cn.id}) for cn, h_ in cnodes)
            if not reached:
                continue
            ok = bool(dels) and (cfg.must_pass(node, cfg.exit, dels) or any(cfg.dominates(d, node) for d in dels))
            if not ok:
                out.append((st, v))
    return out


def check_list_tensor_next_to_full(ctx, rep):
    t = ast.parse(FULL_POSITIVE).body[0]
    for x in ast.walk(t):
        for ch in ast.iter_child_nodes(x):
            ch._parent = x
    got = [v for _, v in list_tensor_next_to_full(t)]
    if got != ['rates']:
        raise AnalysisError(f"C19.I self-check: the embedded example gives {got}")
    n = 0
    for mname, m in sorted(ctx.prog.modules.items()):
        if not mname.startswith('torchtree.cli'):
            continue
        for fn in ast.walk(m.tree):
            if not isinstance(fn, ast.FunctionDef):
                continue
            n += 1
            for st, v in list_tensor_next_to_full(fn):
                rep.bad('C19.I', f"{mname.replace('torchtree.', '')}::{fn.name}::{norm_text(st)[:50]}::list-valued-tensor-next-to-full", where(m, st), {'variable': v},
                        f"{fn.name}: `{norm_text(st)[:60]}` gives the specification `{v}` a list of values while its 'full' size stays in it: Parameter.from_json reads 'full' first and "
                        f"calls torch.full(size, <that list>), which raises (hmc / mcmc / map) — or the variational builders turn it into a parameter filled with the scalar default and "
                        f"the requested values are silently ignored (advi)")
    rep.ok('C19.I', 'cli::a-list-valued-tensor-replaces-the-full-specification', '', {'functions_scanned': n})


def divisor_attributes(ctx):
    """{attribute name: [class.method]}: attributes `self.A` that a density of the evolution package divides by (directly, or inside a product in the denominator) — a value
    of exactly zero there makes the density NaN / infinite"""
    out = {}
    for mname in ('torchtree.evolution.coalescent', 'torchtree.evolution.birth_death', 'torchtree.evolution.bdsk'):
        m = ctx.prog.module(mname)
        for cname, cnode in m.classes.items():
            for fn in cnode.body:
                if not (isinstance(fn, ast.FunctionDef) and fn.name in ('log_prob', '_call')):
                    continue
                for x in ast.walk(fn):
                    if isinstance(x, ast.BinOp) and isinstance(x.op, ast.Div):
                        for y in ast.walk(x.right):
                            a = self_attr(y) if isinstance(y, ast.Attribute) else None
                            if a and not a.startswith('_'):
                                out.setdefault(a, []).append(f"{cname}.{fn.name}")
    return out


def check_initial_values_off_singularities(ctx, rep):
    """C19.S — the initial value the CLI writes for a parameter that a density divides by is never exactly zero, whatever the options: the target and its gradient are NaN at
    such a starting point and no sampler or optimiser leaves it."""
    div = divisor_attributes(ctx)
    if 'growth' not in div:
        raise AnalysisError(f"divisor inference no longer finds ExponentialCoalescent.growth (found {sorted(div)})")
    n = 0
    for mname, m in sorted(ctx.prog.modules.items()):
        if not mname.startswith('torchtree.cli'):
            continue
        for fn in ast.walk(m.tree):
            if not isinstance(fn, ast.FunctionDef):
                continue
            assigns = {}
            for st in ast.walk(fn):
                if isinstance(st, ast.Assign) and len(st.targets) == 1 and isinstance(st.targets[0], ast.Name):
                    assigns.setdefault(st.targets[0].id, []).append(st.value)

            def constants(e, depth=0):
                if isinstance(e, ast.Constant) and isinstance(e.value, (int, float)) and not isinstance(e.value, bool):
                    return {float(e.value)}
                if isinstance(e, (ast.List, ast.Tuple)):
                    out = set()
                    for x in e.elts:
                        c_ = constants(x, depth)
                        if c_ is None:
                            return None
                        out |= c_
                    return out
                if isinstance(e, ast.IfExp):
                    a, b = constants(e.body, depth), constants(e.orelse, depth)
                    return None if a is None or b is None else a | b
                if isinstance(e, ast.Name) and e.id in assigns and depth < 4:
                    out = set()
                    for v in assigns[e.id]:
                        c_ = constants(v, depth + 1)
                        if c_ is None:
                            return None
                        out |= c_
                    return out
                return None
            for c in ast.walk(fn):
                if not (isinstance(c, ast.Call) and (dotted_name(c.func) or '').endswith('Parameter.json_factory') and c.args):
                    continue
                idt = c.args[0]
                last = None
                if isinstance(idt, ast.JoinedStr) and idt.values and isinstance(idt.values[-1], ast.Constant):
                    last = str(idt.values[-1].value).split('.')[-1]
                elif isinstance(idt, ast.Constant) and isinstance(idt.value, str):
                    last = idt.value.split('.')[-1]
                if last not in div:
                    continue
                tv = None
                for k in c.keywords:
                    if k.arg is None and isinstance(k.value, ast.Dict):
                        for kk, vv in zip(k.value.keys, k.value.values):
                            if isinstance(kk, ast.Constant) and kk.value == 'tensor':
                                tv = vv
                    if k.arg == 'tensor':
                        tv = k.value
                if tv is None:
                    continue
                vals = constants(tv)
                n += 1
                key = f"{mname.replace('torchtree.', '')}::{fn.name}::{last}-starts-off-the-singularity"
                if vals is None:
                    rep.excluded('C19.S', key, where(m, c), 'initial value computed at run time (from data or a free-form option)')
                    continue
                rep.check('C19.S', key, 0.0 not in vals, where(m, c), {'possible_initial_values': sorted(vals), 'divided_by_in': sorted(set(div[last]))[:4]},
                          f"{fn.name}: the parameter `…{last}` can be emitted with the initial value 0 (possible values {sorted(vals)}), but {sorted(set(div[last]))[:2]} divide by it: the "
                          f"density and its gradient are NaN at the starting point")
    if n < 3:
        rep.incomplete('C19.S', '*', '', f"only {n} initial values of divisor parameters found")


# ---------------------------------------------------------------------------
# C19.U (addition) — helper objects built to read initial values off the input tree are built from the specification that is emitted
# ---------------------------------------------------------------------------
def check_helper_objects_are_built_alike(ctx, rep):
    """To write initial values, the builders load the specification they have just assembled (`TreeModel.from_json(tree_model, …)`) and read the object.  In one function the
    same specification variable is loaded in several branches (ratio / shift heights): the branches agree on the overrides they apply (`dict(spec, key=value)`) — an option
    that only one branch passes makes the initial values of the other parameterisation come from another tree than the one the user asked for."""
    n = 0
    for mn, m in sorted(ctx.prog.modules.items()):
        if not mn.startswith(CLI):
            continue
        for fname, fn in sorted(m.functions.items()):
            groups = {}
            for c in ast.walk(fn):
                if not (isinstance(c, ast.Call) and isinstance(c.func, ast.Attribute) and c.func.attr == 'from_json' and c.args):
                    continue
                a = c.args[0]
                base, keys = None, frozenset()
                if isinstance(a, ast.Name):
                    base = a.id
                elif isinstance(a, ast.Call) and isinstance(a.func, ast.Name) and a.func.id == 'dict' and a.args and isinstance(a.args[0], ast.Name):
                    base, keys = a.args[0].id, frozenset(k.arg for k in a.keywords if k.arg)
                elif isinstance(a, ast.Dict) and any(k is None for k in a.keys):
                    spread = [v for k, v in zip(a.keys, a.values) if k is None and isinstance(v, ast.Name)]
                    if spread:
                        base, keys = spread[0].id, frozenset(k.value for k in a.keys if isinstance(k, ast.Constant))
                if base is not None:
                    groups.setdefault(base, []).append((c, keys))
            for base, sites in groups.items():
                if len(sites) < 2:
                    continue
                n += 1
                kinds_ = {k for _, k in sites}
                dev = [c for c, k in sites if k != sites[0][1]]
                rep.check('C19.U', f"{mn.replace('torchtree.', '')}::{fname}::{base}::helper-objects-built-alike", len(kinds_) == 1, where(m, dev[0]) if dev else where(m, fn),
                          {'overrides': [sorted(k) for _, k in sites]},
                          f"{fname} loads the specification `{base}` {len(sites)} times to read initial values off it, with different overrides ({[sorted(k) for _, k in sites]}): the "
                          f"parameterisation whose branch lacks the override starts from other values than the ones requested")
    rep.analysed['helper_object_groups'] = n
    if n < 1:
        rep.incomplete('C19.U', 'helper-objects', '', 'no function loading one specification in several branches found (create_tree_model expected)')


def check_requested_values_are_handed_to_the_builders(ctx, rep):
    """C19.U (addition) — a builder that takes the requested initial value as an optional parameter named like the option (`create_branch_model(…, rate_init=None)` for
    `--rate_init`) can only honour the request where its caller passes it: every call site passes that parameter.  A call that leaves it at its default emits the builder's
    fallback value whatever was asked for on the command line."""
    mods = {mn: m for mn, m in ctx.prog.modules.items() if mn.startswith(CLI)}
    option_names = {x.attr for m in mods.values() for x in ast.walk(m.tree) if isinstance(x, ast.Attribute) and isinstance(x.value, ast.Name) and x.value.id in ('arg', 'args')}
    fns = {}
    for mn, m in mods.items():
        for name, fn in m.functions.items():
            fns.setdefault(name, (m, fn))
    n = 0
    for name, (m, fn) in sorted(fns.items()):
        a = fn.args
        pos = [x.arg for x in a.args]
        defaults = dict(zip(pos[len(pos) - len(a.defaults):], a.defaults))
        carried = [p_ for p_, d in defaults.items() if p_ in option_names and p_.endswith('_init') and isinstance(d, ast.Constant) and d.value is None]
        if not carried:
            continue
        for mn2, m2 in sorted(mods.items()):
            for caller_name, caller in sorted(m2.functions.items()):
                for c in ast.walk(caller):
                    if isinstance(c, ast.Call) and isinstance(c.func, ast.Name) and c.func.id == name:
                        for p_ in carried:
                            n += 1
                            passed = pos.index(p_) < len(c.args) or any(k.arg == p_ or k.arg is None for k in c.keywords)
                            rep.check('C19.U', f"{mn2.replace('torchtree.', '')}::{caller_name}::{name}(…)::passes-{p_}", passed, where(m2, c), {'call': norm_text(c)[:80]},
                                      f"{caller_name} calls {name}() without `{p_}`: --{p_} is accepted on the command line, but on this path the builder falls back to its "
                                      f"default and the emitted initial value is not the one requested")
    rep.analysed['builder_calls_with_a_requested_initial_value'] = n
    if n < 2:
        rep.incomplete('C19.U', 'requested-values', '', f"only {n} calls of builders taking a requested initial value found (create_branch_model expected)")


# ---------------------------------------------------------------------------
# C19.L (addition) — the Python kinds an option converter can return are the kinds its consumers test for
# ---------------------------------------------------------------------------
CONVERTER_POSITIVE = """
def to_number(arg):
    try:
        return int(arg)
    except ValueError:
        return float(arg)
def conv(arg, choices):
    try:
        return to_number(arg)
    except ValueError:
        return arg
"""


def converter_kinds(fn, fns, depth=0):
    """Python kinds ('int', 'float', 'str', 'list', 'none') of what a `type=` converter of argparse returns; None if a return is not understood"""
    params = {a.arg for a in fn.args.args}
    out = set()
    for r in ast.walk(fn):
        if not (isinstance(r, ast.Return) and r.value is not None):
            continue
        v = r.value
        if isinstance(v, ast.Call) and isinstance(v.func, ast.Name) and v.func.id in ('int', 'float', 'str', 'list'):
            out.add(v.func.id)
        elif isinstance(v, ast.Name) and v.id in params:
            out.add('str')
        elif isinstance(v, ast.Constant):
            out.add('none' if v.value is None else type(v.value).__name__)
        elif isinstance(v, (ast.List, ast.ListComp)):
            out.add('list')
        elif isinstance(v, ast.Call) and isinstance(v.func, ast.Name) and v.func.id in fns and depth < 3:
            sub = converter_kinds(fns[v.func.id][1], fns, depth + 1)
            if sub is None:
                return None
            out |= sub
        else:
            return None
    return out


def check_converter_kinds_are_handled(ctx, rep, mods, fns):
    t = ast.parse(CONVERTER_POSITIVE)
    sample = {f.name: (None, f) for f in t.body}
    if converter_kinds(sample['conv'][1], sample) != {'int', 'float', 'str'}:
        raise AnalysisError('C19.L self-check: kinds returned by the embedded converter are not inferred')
    by_dest = {}
    for mn, m in mods.items():
        for c in ast.walk(m.tree):
            if not (isinstance(c, ast.Call) and isinstance(c.func, ast.Attribute) and c.func.attr == 'add_argument'):
                continue
            ty = next((k.value for k in c.keywords if k.arg == 'type'), None)
            if ty is None:
                continue
            callee = None
            if isinstance(ty, ast.Name) and ty.id in fns:
                callee = ty.id
            elif isinstance(ty, ast.Lambda) and isinstance(ty.body, ast.Call) and isinstance(ty.body.func, ast.Name) and ty.body.func.id in fns:
                callee = ty.body.func.id
            if callee is None:
                continue
            dest = next((k.value.value for k in c.keywords if k.arg == 'dest' and isinstance(k.value, ast.Constant)), None)
            if dest is None:
                longs = [a.value for a in c.args if isinstance(a, ast.Constant) and isinstance(a.value, str) and a.value.startswith('--')]
                dest = longs[0][2:].replace('-', '_') if longs else None
            if dest is not None:
                by_dest.setdefault(dest, []).append((m, c, callee))
    COVER = {'float': {'float'}, 'int': {'int'}, 'str': {'str'}, 'list': {'list'}, 'numbers.Number': {'int', 'float'}, 'numbers.Real': {'int', 'float'}, 'bool': {'bool'}}
    n = 0
    for mn, m in sorted(mods.items()):
        for c in ast.walk(m.tree):
            if not (isinstance(c, ast.Call) and isinstance(c.func, ast.Name) and c.func.id == 'isinstance' and len(c.args) == 2):
                continue
            a = c.args[0]
            if not (isinstance(a, ast.Attribute) and isinstance(a.value, ast.Name) and a.value.id in ('arg', 'args') and a.attr in by_dest):
                continue
            tys = c.args[1].elts if isinstance(c.args[1], ast.Tuple) else [c.args[1]]
            covered = set()
            for ty in tys:
                covered |= COVER.get(ast.unparse(ty), set())
            for m2, addc, callee in by_dest[a.attr]:
                ks = converter_kinds(fns[callee][1], fns)
                key = f"{mn.replace('torchtree.', '')}::{norm_text(c)[:50]}::numbers-of-{callee}-are-all-recognised"
                if ks is None:
                    rep.undecided('C19.L', key, where(m, c), f"kinds returned by the converter {callee} not inferred")
                    continue
                n += 1
                numeric = ks & {'int', 'float'}
                missed = numeric - covered if covered & {'int', 'float'} else set()
                rep.check('C19.L', key, not missed, where(m, c), {'converter': callee, 'returns': sorted(ks), 'test_covers': sorted(covered)},
                          f"`{norm_text(c)[:50]}` decides whether a number was given for --{a.attr}, but its converter {callee} can return {sorted(missed)} as well: that number is "
                          f"taken for 'no number given' and the default initial value is used silently instead of the requested one")
    rep.analysed['converter_kind_tests'] = n
    if n < 1:
        rep.incomplete('C19.L', 'converters', '', 'no isinstance test of an option with a converter found (arg.brlens_init expected)')


# ---------------------------------------------------------------------------
# C19.L — a list is never compared with a string
# ---------------------------------------------------------------------------
def check_list_compared_with_string(ctx, rep):
    """Kind inference over torchtree/cli (lists from `.split(…)` / list(…) / literals, strings from constants and from elements of split results), through local names,
    tuple returns and call arguments (three rounds).  `x == 'name'` where x may be a LIST is false whatever the list holds: the branch that was meant for that name is skipped
    silently — with an if / elif chain that has no else, a prior or a model component is simply not emitted."""
    mods = {mn: m for mn, m in ctx.prog.modules.items() if mn.startswith('torchtree.cli')}
    fns = {}
    for mn, m in mods.items():
        for name, fn in m.functions.items():
            fns.setdefault(name, (m, fn))
    ret_kinds = {name: None for name in fns}          # name -> set | tuple(set, …)
    param_kinds = {name: {} for name in fns}

    def kinds(e, env, depth=0):
        if isinstance(e, ast.Constant):
            return {'str'} if isinstance(e.value, str) else ({'none'} if e.value is None else {'num'})
        if isinstance(e, (ast.List, ast.ListComp)):
            return {'list'}
        if isinstance(e, ast.JoinedStr):
            return {'str'}
        if isinstance(e, ast.Call):
            if isinstance(e.func, ast.Attribute) and e.func.attr in ('split', 'rsplit', 'splitlines'):
                return {'list'}
            if isinstance(e.func, ast.Name) and e.func.id == 'list':
                return {'list'}
            if isinstance(e.func, ast.Attribute) and e.func.attr in ('strip', 'lower', 'upper', 'replace', 'format', 'join'):
                return {'str'}
            if isinstance(e.func, ast.Name) and e.func.id in ret_kinds and isinstance(ret_kinds[e.func.id], set):
                return set(ret_kinds[e.func.id])
            return set()
        if isinstance(e, ast.Subscript):
            base = kinds(e.value, env, depth)
            if 'list' in base and not isinstance(e.slice, ast.Slice):
                return {'str'} if base == {'list'} else {'str'} | (base - {'list'})
            return set()
        if isinstance(e, ast.Name):
            return set(env.get(e.id, set()))
        if isinstance(e, ast.IfExp):
            return kinds(e.body, env, depth) | kinds(e.orelse, env, depth)
        return set()

    def env_of(name):
        m, fn = fns[name]
        env = {p: set(k) for p, k in param_kinds[name].items()}
        for _ in range(2):
            for st in ast.walk(fn):
                if isinstance(st, ast.Assign) and len(st.targets) == 1:
                    t = st.targets[0]
                    if isinstance(t, ast.Name):
                        env.setdefault(t.id, set()).update(kinds(st.value, env))
                    elif isinstance(t, (ast.Tuple, ast.List)) and isinstance(st.value, ast.Call) and isinstance(st.value.func, ast.Name) \
                            and isinstance(ret_kinds.get(st.value.func.id), tuple):
                        for x, ks in zip(t.elts, ret_kinds[st.value.func.id]):
                            if isinstance(x, ast.Name):
                                env.setdefault(x.id, set()).update(ks)
        return env
    for _ in range(3):
        for name, (m, fn) in fns.items():
            env = env_of(name)
            rets = [r.value for r in ast.walk(fn) if isinstance(r, ast.Return) and r.value is not None]
            if rets and all(isinstance(r, ast.Tuple) for r in rets) and len({len(r.elts) for r in rets}) == 1:
                ret_kinds[name] = tuple(set().union(*[kinds(r.elts[i], env) for r in rets]) for i in range(len(rets[0].elts)))
            elif rets:
                ret_kinds[name] = set().union(*[kinds(r, env) for r in rets])
            for c in ast.walk(fn):
                if isinstance(c, ast.Call) and isinstance(c.func, ast.Name) and c.func.id in fns:
                    callee = fns[c.func.id][1]
                    ps = [a.arg for a in callee.args.args]
                    for i, a in enumerate(c.args):
                        if i < len(ps):
                            param_kinds[c.func.id].setdefault(ps[i], set()).update(kinds(a, env))
                    for k in c.keywords:
                        if k.arg in ps:
                            param_kinds[c.func.id].setdefault(k.arg, set()).update(kinds(k.value, env))
    n = 0
    for name, (m, fn) in sorted(fns.items()):
        env = env_of(name)
        for c in ast.walk(fn):
            if isinstance(c, ast.Compare) and len(c.ops) == 1 and isinstance(c.ops[0], (ast.Eq, ast.NotEq)):
                sides = [c.left, c.comparators[0]]
                for a, b in (sides, sides[::-1]):
                    if isinstance(b, ast.Constant) and isinstance(b.value, str) and not isinstance(a, ast.Constant):
                        ks = kinds(a, env)
                        if ks:
                            n += 1
                        if 'list' in ks:
                            rep.bad('C19.L', f"{m.name.replace('torchtree.', '')}::{name}::{norm_text(c)[:50]}::a-list-is-never-equal-to-a-string", where(m, c), {'kinds_of_the_left_side': sorted(ks)},
                                    f"{name}: `{norm_text(c)[:60]}` compares `{ast.unparse(a)[:30]}` with a string, but that value can be a LIST (the result of a split handed on "
                                    f"unchanged): the comparison is then false whatever the list holds, the branch is skipped and — without an else — nothing is emitted in its place")
    rep.ok('C19.L', 'cli::string-comparisons-have-string-operands', '', {'comparisons_with_known_kinds': n})
    check_converter_kinds_are_handled(ctx, rep, mods, fns)
    if 'parse_distribution' in fns and not isinstance(ret_kinds.get('parse_distribution'), tuple):
        rep.incomplete('C19.L', 'parse_distribution', '', 'return kinds of parse_distribution not inferred')
