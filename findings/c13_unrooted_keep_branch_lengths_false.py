"""C13.F (options/flag semantics): UnRootedTreeModel.from_json only tested whether 'keep_branch_lengths' is present:
"keep_branch_lengths": false replaced the supplied branch lengths by those of the newick string."""
import torch
from torchtree.core.utils import process_object
import torchtree.evolution.tree_model, torchtree.evolution.taxa
spec = {'id': 'tree', 'type': 'UnRootedTreeModel', 'newick': '(A:0.1,B:0.2,C:0.3);', 'keep_branch_lengths': False,
        'taxa': {'id': 'taxa', 'type': 'Taxa', 'taxa': [{'id': t, 'type': 'Taxon'} for t in 'ABC']},
        'branch_lengths': {'id': 'bl', 'type': 'Parameter', 'tensor': [1.0, 2.0, 3.0]}}
tree = process_object(spec, {})
ok = torch.allclose(tree.branch_lengths()[..., :3].float(), torch.tensor([1.0, 2.0, 3.0]))
print('OK' if ok else f'FAIL keep_branch_lengths: false overwrote the supplied branch lengths: {tree.branch_lengths().tolist()}')
raise SystemExit(0 if ok else 1)
