"""C19.I — `-m GTR --frequencies empirical` (also SYM): create_substitution_model writes the empirical relative rates as a LIST into the `substmodel.rates` specification but
leaves `"full": [6]` in it.  Parameter.from_json reads 'full' first and calls torch.full([6], <list>): the emitted configuration cannot be loaded (hmc / mcmc / map stop in the CLI
itself, advi emits a file in which the requested values are ignored).
Run: PYTHONPATH=<tree> /venv/bin/python findings/c19_gtr_empirical_rates_next_to_full.py   (exit 1 = defect present)"""
import json, os, subprocess, sys, tempfile
REPO = os.environ.get('PYTHONPATH', '/repo').split(':')[0]
bad = 0
for sub in ('advi', 'map', 'hmc'):
    cmd = [sys.executable, '-c', 'from torchtree.cli.cli import main; main()', sub, '-i', f'{REPO}/data/fluA.fa', '-t', f'{REPO}/data/fluA.tree', '-m', 'GTR', '--frequencies', 'empirical', '--stem', os.path.join(tempfile.gettempdir(), 'c19demo')] + (['--iter', '2'] if sub != 'map' else [])
    r = subprocess.run(cmd, capture_output=True, text=True)
    if r.returncode != 0:
        print(f'{sub}: the CLI itself fails:', (r.stderr.strip().splitlines() or ['?'])[-1][:140])
        bad += 1
        continue
    spec = json.loads(r.stdout)

    def find(o, out):
        if isinstance(o, dict):
            if o.get('id') == 'substmodel.rates' or (isinstance(o.get('id'), str) and o['id'].startswith('substmodel.rates')):
                out.append(o)
            for v in o.values():
                find(v, out)
        elif isinstance(o, list):
            for v in o:
                find(v, out)
    found = []
    find(spec, found)
    for o in found:
        t = o.get('tensor', o.get('x', {}).get('tensor') if isinstance(o.get('x'), dict) else None)
        print(f"{sub}: {o.get('id')}: full={o.get('full')} tensor={t if not isinstance(t, list) else [round(x, 3) for x in t]}")
        if 'full' in o and isinstance(o.get('tensor'), list):
            bad += 1
        if o.get('id') == 'substmodel.rates.unres' and o.get('tensor') == 0.0:
            print(f'{sub}: the empirical rates were dropped: the unconstrained rates start at 0 (uniform rates)')
            bad += 1
    if sub == 'map':
        continue        # (running the optimiser is not part of this demonstration: the emitted specification is what is checked)
    with tempfile.NamedTemporaryFile('w', suffix='.json', delete=False) as fp:
        fp.write(r.stdout)
    run = subprocess.run([sys.executable, '-c', 'from torchtree.torchtree import main; main()', fp.name], capture_output=True, text=True, cwd=tempfile.gettempdir(), timeout=600)
    os.unlink(fp.name)
    err = [l for l in run.stderr.splitlines() if 'Error' in l]
    print(f'{sub}: torchtree:', err[-1][:140] if err else 'loads and runs')
    bad += 1 if err else 0
sys.exit(1 if bad else 0)
