"""C14 (fixed): the Renyi bound VR with a 2-D sample shape [S,K] summed the S per-row bounds instead of averaging them: at the exact posterior it returned S·log Z.
Conjugate normal-normal model: x_i ~ N(mu, 1), mu ~ N(0, 1); posterior N(sum(x)/(n+1), 1/(n+1)); log Z in closed form.
Run: PYTHONPATH=<tree> /venv/bin/python findings/c14_vr_two_dimensional_samples.py   (exit 1 = defect present)"""
import math, sys, torch
from torchtree import Parameter
from torchtree.distributions import Distribution
from torchtree.distributions.joint_distribution import JointDistributionModel
from torchtree.variational.renyi import VR
torch.set_default_dtype(torch.float64)
torch.manual_seed(1)
x = torch.tensor([0.3, -1.2, 0.8, 2.1])
n = len(x)
post_mean, post_var = x.sum() / (n + 1), 1.0 / (n + 1)
# log marginal likelihood of the normal-normal model
log_z = (-0.5 * n * math.log(2 * math.pi) - 0.5 * math.log(n + 1) - 0.5 * (x ** 2).sum() + 0.5 * x.sum() ** 2 / (n + 1)).item()
mu = Parameter('mu', torch.tensor([0.0]))
prior = Distribution('prior', torch.distributions.Normal, mu, {'loc': Parameter('l0', torch.tensor([0.0])), 'scale': Parameter('s0', torch.tensor([1.0]))})
like = Distribution('like', torch.distributions.Normal, Parameter('x', x), {'loc': mu, 'scale': Parameter('s1', torch.tensor([1.0]))})
joint = JointDistributionModel('joint', [prior, like])
q = Distribution('q', torch.distributions.Normal, mu, {'loc': Parameter('ql', post_mean.reshape(1)), 'scale': Parameter('qs', torch.tensor([math.sqrt(post_var)]))})
qj = JointDistributionModel('qj', [q])
bad = 0
for shape in (torch.Size([7]), torch.Size([3, 5]), torch.Size([4, 2])):
    vr = VR('vr', qj, joint, shape, 0.5)
    got = vr().item()
    ok = abs(got - log_z) < 1e-8
    print(tuple(shape), 'VR =', round(got, 8), 'log Z =', round(log_z, 8), 'OK' if ok else 'MISMATCH (ratio %.3f)' % (got / log_z))
    bad += not ok
sys.exit(1 if bad else 0)
