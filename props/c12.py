"""C12 — gradients are the derivatives of the reported densities.

Decided clause: no graph-cutting construct lies on a differentiable path.  Every method of the
model / distribution / transform / parameter classes (construction, parsing and sampling
methods excluded) and the likelihood kernels are scanned for constructs that cut the autograd
graph; each is classified as shape-derived, literal, index-only, allow-listed-with-reason, or
a violation.
"""
from __future__ import annotations

import ast
from typing import Dict, List, Optional, Set

from sa.loader import AnalysisError, dotted_name, norm_text
from sa.members import self_attr
from sa.report import where
from sa.util import backward_slice, local_assignments

SKIP_METHODS = {'from_json', 'json_factory', '__init__', '__repr__', '__str__', '__eq__', 'rsample', 'sample', 'maximum_likelihood',
                'sufficient_statistics', 'to', 'cuda', 'cpu', 'state_dict', 'load_state_dict', 'update_bounds', 'sort_indices', 'update_traversals',
                'update_leaf_heights', 'parameters', 'clone', 'detach', 'copy_', '__getitem__', 'size', 'setup_indexes', 'initialize', 'log', 'close'}
SKIP_PACKAGES = ('.cli.', '.inference.', '.optim.', 'torchtree.core.logger', 'torchtree.core.utils', 'torchtree.nf.', 'torchtree.evolution.io',
                 'torchtree.evolution.alignment', 'torchtree.evolution.site_pattern', 'torchtree.evolution.attribute_pattern', 'torchtree.evolution.datatype',
                 'torchtree.evolution.taxa', 'torchtree.evolution.tree_regression')
KERNEL_MODULES = ('torchtree.evolution.tree_likelihood', 'torchtree.ops.smooth')
KERNEL_FUNCTIONS = {('torchtree.evolution.tree_model', 'heights_to_branch_lengths')}

# estimators that are *defined* with stop-gradients, and data that is not a parameter: frozen, one reason each
ALLOW = {
    ('torchtree.variational.kl.ELBO._call', 'no_grad'): "score-function (REINFORCE) estimator: the cost multiplying ∇log q is a constant by definition",
    ('torchtree.variational.kl.KLpqImportance._call', 'no_grad'): "self-normalised importance weights of the inclusive-KL estimator are constants by definition",
    ('torchtree.variational.kl.KLpqImportance._call', '.detach'): "self-normalised importance weights of the inclusive-KL estimator are constants by definition",
    ('torchtree.evolution.coalescent.PiecewiseLinearCoalescentGrid.log_prob', 'no_grad'): "torch.unique of the tip heights (sampling dates are data, not parameters; unique has no derivative)",
    ('torchtree.evolution.coalescent.SoftPiecewiseConstantCoalescentGrid.log_prob', 'no_grad'): "torch.unique of the tip heights (sampling dates are data, not parameters)",
}


def method_name(call: ast.Call) -> str:
    return (dotted_name(call.func) or (call.func.attr if isinstance(call.func, ast.Attribute) else '')).split('.')[-1]


def shape_derived(e: ast.AST, defs, depth=0) -> bool:
    """every leaf of e is a constant, a shape/len/dim of something, or a name defined that way."""
    if isinstance(e, ast.Constant):
        return True
    if isinstance(e, ast.Attribute) and e.attr in ('shape', 'ndim', 'state_count', 'taxa_count', 'dtype', 'device'):
        return True
    if isinstance(e, ast.Subscript):
        return shape_derived(e.value, defs, depth)
    if isinstance(e, ast.Call):
        nm = method_name(e)
        if nm in ('len', 'dim', 'size', 'numel'):
            return True
        if nm in ('int', 'float', 'sqrt', 'max', 'min', 'range', 'Size', 'floor', 'ceil', 'log', 'rsplit', 'split'):
            args = list(e.args)
            if isinstance(e.func, ast.Attribute) and not (isinstance(e.func.value, ast.Name) and e.func.value.id in ('math', 'torch', 'numpy', 'np')):
                args.append(e.func.value)
            return all(shape_derived(a, defs, depth) for a in args)
        return False
    if isinstance(e, ast.BinOp):
        return shape_derived(e.left, defs, depth) and shape_derived(e.right, defs, depth)
    if isinstance(e, ast.UnaryOp):
        return shape_derived(e.operand, defs, depth)
    if isinstance(e, (ast.Tuple, ast.List)):
        return all(shape_derived(x, defs, depth) for x in e.elts)
    if isinstance(e, ast.Name):
        if depth > 4:
            return False
        vals = defs.get(e.id)
        if vals:
            return all(shape_derived(v, defs, depth + 1) for v in vals)
        return e.id in ('math', 'torch')
    return False


def literal_only(e: ast.AST) -> bool:
    return not any(isinstance(n, (ast.Name, ast.Attribute, ast.Call)) for n in ast.walk(e) if not (isinstance(n, ast.Attribute) and isinstance(n.value, ast.Name) and n.value.id == 'torch'))


def index_only(call: ast.AST, fn: ast.FunctionDef) -> bool:
    """the detached value is used only as an index / in a comparison"""
    st = call
    while not isinstance(st, ast.stmt):
        st = st._parent
    if isinstance(st, ast.Assign) and len(st.targets) == 1 and isinstance(st.targets[0], ast.Name):
        name = st.targets[0].id
        uses = [n for n in ast.walk(fn) if isinstance(n, ast.Name) and n.id == name and isinstance(n.ctx, ast.Load)]
        if not uses:
            return True
        for u in uses:
            p = getattr(u, '_parent', None)
            ok = False
            while p is not None and not isinstance(p, ast.stmt):
                if isinstance(p, ast.Subscript) and any(x is u for x in ast.walk(p.slice)):
                    ok = True
                if isinstance(p, ast.Compare):
                    ok = True
                if isinstance(p, ast.Call) and method_name(p) in ('range', 'gather', 'index_select', 'tensor_split', 'split', 'expand', 'reshape', 'view', 'repeat'):
                    ok = True
                p = getattr(p, '_parent', None)
            if not ok:
                return False
        return True
    # used inline: parent is a subscript slice / comparison?
    p = getattr(call, '_parent', None)
    while p is not None and not isinstance(p, ast.stmt):
        if isinstance(p, ast.Subscript) and any(x is call for x in ast.walk(p.slice)):
            return True
        if isinstance(p, ast.Compare):
            return True
        p = getattr(p, '_parent', None)
    return False


def constructs(fn: ast.FunctionDef):
    """(node, kind, text) for every graph-cutting construct directly in fn (nested defs included)."""
    out = []
    for n in ast.walk(fn):
        if isinstance(n, ast.Call):
            f = n.func
            nm = method_name(n)
            dn = dotted_name(f) or ''
            if isinstance(f, ast.Attribute) and f.attr in ('detach', 'item', 'tolist', 'numpy') and not n.args:
                out.append((n, '.' + f.attr, ast.unparse(n)))
            elif nm in ('jacobian', 'hessian', 'vjp', 'jvp') and not isinstance(f, ast.Attribute) or dn.endswith('functional.jacobian') or dn.endswith('functional.hessian'):
                out.append((n, 'autograd.' + nm, ast.unparse(n)))
            elif dn in ('torch.tensor', 'torch.as_tensor', 'torch.Tensor', 'torch.from_numpy'):
                out.append((n, 'torch.tensor', ast.unparse(n)))
            elif isinstance(f, ast.Name) and f.id in ('float', 'int') and n.args and not isinstance(n.args[0], ast.Constant):
                out.append((n, f.id + '()', ast.unparse(n)))
        elif isinstance(n, ast.Attribute) and n.attr == 'data' and isinstance(n.ctx, ast.Load) and not (isinstance(n.value, ast.Name) and n.value.id == 'self'):
            out.append((n, '.data', ast.unparse(n)))
        elif isinstance(n, ast.With) and any('no_grad' in ast.unparse(i.context_expr) for i in n.items):
            out.append((n, 'no_grad', ast.unparse(n.body[0]) if n.body else ''))
    return out


def run(ctx, rep):
    rep.explanation = (
        "Every method on a differentiable path (all methods of the model, distribution, transform and parameter classes outside construction / "
        "parsing / sampling, plus the likelihood kernels and smooth ops) is scanned for constructs that cut the autograd graph: .detach() / .item() / "
        ".tolist() / .numpy() / .data / float() / int() / torch.tensor(x) / torch.no_grad() / autograd.functional.jacobian|hessian without "
        "create_graph=True.  Each is classified: derived from shapes only, a literal, used only as an index or in a comparison, allow-listed with a "
        "reason (estimators defined with stop-gradients, torch.unique of tip dates) — anything else is a violation: the value returned no longer "
        "carries the derivative with respect to a parameter it depends on."
    )
    rep.rule('C12.D', "no graph-cutting construct on a differentiable path (shape-derived / literal / index-only / allow-listed uses excepted)")
    rep.assumptions += ["Tensor.detach/item/tolist/numpy/.data, torch.no_grad, torch.tensor(t), float(t)/int(t) and autograd.functional.jacobian/hessian "
                        "with create_graph=False cut the autograd graph"]
    rep.not_decided += ["numerical agreement with finite differences", "in-place version-counter hazards", "ties between event times", "zero gradients from masked arithmetic"]
    n_fn = 0
    n_c = 0
    targets = []
    for ci in sorted(ctx.classes.classes.values(), key=lambda c: c.qualname):
        if any(x in ci.qualname for x in SKIP_PACKAGES):
            continue
        differentiable = ci.has_base('torchtree.core.parametric.Parametric') or ci.has_base('torchtree.core.abstractparameter.AbstractParameter') or \
            any(isinstance(b, str) and (b.startswith('torch.distributions') or b.endswith('.Transform') or b.endswith('.Distribution') or b == 'torch.nn.Module')
                for b in ci.mro)
        if not differentiable:
            continue
        for tbl in (ci.methods, ci.getters):
            for name, fn in tbl.items():
                if name in SKIP_METHODS:
                    continue
                targets.append((ci.module, f"{ci.qualname}.{name}", fn))
    for mname in KERNEL_MODULES:
        m = ctx.prog.module(mname)
        for name, fn in m.functions.items():
            targets.append((m, f"{mname}.{name}", fn))
    for mname, fname in KERNEL_FUNCTIONS:
        m = ctx.prog.module(mname)
        if fname in m.functions:
            targets.append((m, f"{mname}.{fname}", m.functions[fname]))
    for m, qual, fn in targets:
        n_fn += 1
        defs = local_assignments(fn)
        for node, kind, text in constructs(fn):
            n_c += 1
            key = f"{qual}::{kind}::{norm_text(node)[:60] if not isinstance(node, ast.With) else 'with no_grad'}"
            W = where(m, node)
            if (qual, kind) in ALLOW:
                rep.excluded('C12.D', key, W, ALLOW[(qual, kind)])
                continue
            if kind == 'torch.tensor':
                arg = node.args[0] if node.args else None
                if arg is None or literal_only(arg) or shape_derived(arg, defs):
                    rep.ok('C12.D', key, W, {'class': 'literal / shape-derived'})
                    continue
            if kind in ('int()', 'float()'):
                if shape_derived(node.args[0], defs):
                    rep.ok('C12.D', key, W, {'class': 'shape-derived'})
                    continue
            if kind in ('.item', '.tolist', '.numpy', 'int()', 'float()') and index_only(node, fn):
                rep.ok('C12.D', key, W, {'class': 'index / comparison only'})
                continue
            if kind.startswith('autograd.'):
                cg = any(kw.arg == 'create_graph' and isinstance(kw.value, ast.Constant) and kw.value.value is True for kw in node.keywords)
                rep.check('C12.D', key, cg, W, {'construct': text[:80]},
                          f"{qual}: `{text[:60]}` builds the Jacobian without create_graph=True: the value computed from it is detached, so this term "
                          f"contributes no gradient (back-propagating through it raises or silently gives zero)")
                continue
            rep.bad('C12.D', key, W, {'construct': text[:100], 'kind': kind},
                    f"{qual}: `{text[:70]}` cuts the autograd graph on a differentiable path: parameters that influence the returned value through it "
                    f"receive a missing or zero gradient")
    rep.analysed['functions_scanned'] = n_fn
    rep.analysed['constructs_classified'] = n_c
    if n_fn < 250 or n_c < 20:
        raise AnalysisError(f"only {n_fn} functions / {n_c} constructs scanned")
