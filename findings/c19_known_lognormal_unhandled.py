"""C19 (known): `--distribution LogNormal` is an accepted choice but create_meanfield has no branch for it: UnboundLocalError on `distr`.
Run: PYTHONPATH=/repo /venv/bin/python findings/c19_known_lognormal_unhandled.py   (exit 1 = defect present)"""
import io, sys, contextlib
from torchtree.cli.cli import main
sys.argv = ['torchtree-cli', 'advi', '-i', '/repo/data/fluA.fa', '-t', '/repo/data/fluA.tree', '--distribution', 'LogNormal']
try:
    with contextlib.redirect_stdout(io.StringIO()):
        main()
except UnboundLocalError as e:
    print('DEFECT: CLI crashed:', e); sys.exit(1)
print('OK'); sys.exit(0)
