"""C11.R: MG94.handle_parameter_changed calls self.fire_parameter_changed(), which no Model has:
any update of alpha/beta/kappa/frequencies raises AttributeError (pinned tree); passes after the fix."""
import torch
from torchtree.core.parameter import Parameter
from torchtree.evolution.datatype import CodonDataType
from torchtree.evolution.substitution_model.codon import MG94
dt = CodonDataType('codon', 'Universal')
n = dt.state_count
m = MG94('mg', dt, Parameter('a', torch.tensor([1.0])), Parameter('b', torch.tensor([0.5])),
         Parameter('k', torch.tensor([2.0])), Parameter('f', torch.full((n,), 1.0 / n)))
m.kappa.tensor = torch.tensor([3.0])   # AttributeError on the pinned tree
print('OK: update did not raise')
