from sa.selftest import Mut

MC = 'torchtree/inference/mcmc/mcmc.py'
OPS = 'torchtree/inference/mcmc/operator.py'
HOP = 'torchtree/inference/hmc/operator.py'
GM = 'torchtree/inference/mcmc/gmrf_block_updating.py'
AD = 'torchtree/inference/hmc/adaptation.py'
DA = 'torchtree/ops/dual_averaging.py'

CORPUS = [
    Mut('c15-no-reject', MC, 'MCMC.run', 'operator.reject()', 'pass', expect=[('C15.L', 'accept-or-reject-on-every-path')]),
    Mut('c15-no-accept-call', MC, 'MCMC.run', 'operator.accept()', 'pass', expect=[('C15.L', 'accept-or-reject')]),
    Mut('c15-carry-before-decision', MC, 'MCMC.run', 'log_alpha = log_joint_proposed - log_joint + hastings_ratio',
        'log_alpha = log_joint_proposed - log_joint + hastings_ratio\nlog_joint = log_joint_proposed.clone()',
        expect=[('C15.L', 'carried-density-updated-on-accept-only')]),
    Mut('c15-carry-never', MC, 'MCMC.run', 'log_joint = log_joint_proposed.clone()', 'pass', expect=[('C15.L', 'carried-density')]),
    Mut('c15-carry-stale', MC, 'MCMC.run', 'log_joint = log_joint_proposed.clone()', 'log_joint = log_joint.clone()', expect=[('C15.L', 'carried-density')]),
    Mut('c15-no-hastings', MC, 'MCMC.run', 'log_alpha = log_joint_proposed - log_joint + hastings_ratio', 'log_alpha = log_joint_proposed - log_joint',
        expect=[('C15.L', 'log-ratio-form')]),
    Mut('c15-hastings-sign', MC, 'MCMC.run', 'log_alpha = log_joint_proposed - log_joint + hastings_ratio', 'log_alpha = log_joint_proposed - log_joint - hastings_ratio',
        expect=[('C15.L', 'log-ratio-form')]),
    Mut('c15-ratio-swapped', MC, 'MCMC.run', 'log_alpha = log_joint_proposed - log_joint + hastings_ratio', 'log_alpha = log_joint - log_joint_proposed + hastings_ratio',
        expect=[('C15.L', 'log-ratio-form')]),
    Mut('c15-prob-no-min', MC, 'MCMC.run', 'acceptance_prob = min(torch.zeros_like(log_alpha), log_alpha).exp()', 'acceptance_prob = log_alpha.exp()',
        expect=[('C15.L', 'acceptance-probability-form')]),
    Mut('c15-compare-reversed', MC, 'MCMC.run', 'accepted = (acceptance_prob > torch.rand(1)).item()', 'accepted = (acceptance_prob < torch.rand(1)).item()',
        expect=[('C15.L', 'uniform-draw-below-probability')]),
    Mut('c15-nan-accepted', MC, 'MCMC.run', 'accepted = False', 'accepted = True', nth=1, expect=[('C15.L', 'non-finite-rejected')]),
    Mut('c15-joint-before-step', MC, 'MCMC.run', 'hastings_ratio = operator.step()',
        'with torch.no_grad():\n    log_joint_proposed = self.joint()\nhastings_ratio = operator.step()', expect=[]),
    Mut('c15-step-no-clone', OPS, 'MCMCOperator.step', 'self.saved_tensors = [parameter.tensor.clone() for parameter in self.parameters]',
        'self.saved_tensors = [parameter.tensor for parameter in self.parameters]', expect=[('C15.S', 'saves-clones-before-proposal')]),
    Mut('c15-step-save-after', OPS, 'MCMCOperator.step', 'return self._step()',
        'r = self._step()\nself.saved_tensors = [parameter.tensor.clone() for parameter in self.parameters]\nreturn r', expect=[]),
    Mut('c15-reject-bypass-setter', OPS, 'MCMCOperator.reject', 'parameter.tensor = saved_tensor', 'parameter._tensor = saved_tensor',
        expect=[('C15.S', 'restores-through-setter')]),
    Mut('c15-hmc-no-restore', HOP, 'HMCOperator._step', 'parameter.tensor = saved_tensor', 'pass', expect=[('C15.S', 'failure-path-restores')]),
    Mut('c15-scaler-hastings-sign', OPS, 'ScalerOperator._step', 'return -torch.tensor(s, device=self.parameters[0].device, dtype=self.parameters[0].dtype).log()',
        'return torch.tensor(s, device=self.parameters[0].device, dtype=self.parameters[0].dtype).log()', expect=[('C15.Q', 'ScalerOperator')]),
    Mut('c15-scaler-hastings-wrong-var', OPS, 'ScalerOperator._step', 'return -torch.tensor(s, device=self.parameters[0].device, dtype=self.parameters[0].dtype).log()',
        'return -torch.tensor(self._scaler, device=self.parameters[0].device, dtype=self.parameters[0].dtype).log()', expect=[('C15.Q', 'ScalerOperator')]),
    Mut('c15-sliding-asymmetric', OPS, 'SlidingWindowOperator._step', 'shift = self._width * (torch.rand(1).item() - 0.5)', 'shift = self._width * torch.rand(1).item()',
        expect=[('C15.Q', 'SlidingWindowOperator')]),
    Mut('c15-dirichlet-f-minus-b', OPS, 'DirichletOperator._step', 'return b - f', 'return f - b', expect=[('C15.Q', 'DirichletOperator')]),
    Mut('c15-dirichlet-reverse-at-new', OPS, 'DirichletOperator._step', 'b = torch.distributions.Dirichlet(scaled_new).log_prob(old_values)',
        'b = torch.distributions.Dirichlet(scaled_new).log_prob(new_values)', expect=[('C15.Q', 'DirichletOperator')]),
    Mut('c15-dirichlet-reverse-from-old', OPS, 'DirichletOperator._step', 'b = torch.distributions.Dirichlet(scaled_new).log_prob(old_values)',
        'b = torch.distributions.Dirichlet(scaled_old).log_prob(old_values)', expect=[('C15.Q', 'DirichletOperator')]),
    Mut('c15-gmrf-swapped', GM, 'GMRFPiecewiseCoalescentBlockUpdatingOperator._step', 'return log_q_backward - log_q_forward', 'return log_q_forward - log_q_backward',
        expect=[('C15.Q', 'GMRFBlockUpdate')]),
    Mut('c15-dirichlet-original-tuning', OPS, 'DirichletOperator.set_adaptable_parameter', 'self._scaler = math.exp(-value)', 'self._scaler = math.exp(value)',
        expect=[('C15.A', 'DirichletOperator::tuning-direction'), ('C15.A', 'DirichletOperator::getter-inverts-setter')]),
    Mut('c15-scaler-tuning-flipped', OPS, 'ScalerOperator.set_adaptable_parameter', 'self._scaler = 1.0 / (math.exp(value) + 1.0)', 'self._scaler = 1.0 / (math.exp(-value) + 1.0)',
        expect=[('C15.A', 'ScalerOperator::tuning-direction')]),
    Mut('c15-window-tuning-flipped', OPS, 'SlidingWindowOperator.set_adaptable_parameter', 'self._width = math.exp(value)', 'self._width = math.exp(-value)',
        expect=[('C15.A', 'SlidingWindowOperator::tuning-direction')]),
    Mut('c15-tune-sign', OPS, 'MCMCOperator.tune', 'new_parameter = self.adaptable_parameter + (acceptance_prob.item() - self.target_acceptance_probability) / (2 + self._adapt_count)',
        'new_parameter = self.adaptable_parameter - (acceptance_prob.item() - self.target_acceptance_probability) / (2 + self._adapt_count)',
        expect=[('C15.A', 'robbins-monro-sign')]),
    Mut('c15-hmc-stepsize-flipped', HOP, 'HMCOperator.set_adaptable_parameter', 'self._integrator.step_size = math.exp(value)', 'self._integrator.step_size = math.exp(-value)',
        expect=[('C15.A', 'HMCOperator::tuning-direction')]),
    Mut('c15-adaptive-sign', AD, 'AdaptiveStepSize.learn', 'new_parameter = math.log(self._integrator.step_size) + (prob - self.target_acceptance_probability) / (2 + self._call_counter)',
        'new_parameter = math.log(self._integrator.step_size) + (self.target_acceptance_probability - prob) / (2 + self._call_counter)',
        expect=[('C15.A', 'AdaptiveStepSize.learn::sign')]),
    Mut('c15-dualavg-statistic', AD, 'DualAveragingStepSize.learn', 'self._dual_avg.step(self._delta - acceptance_prob)', 'self._dual_avg.step(acceptance_prob - self._delta)',
        expect=[('C15.A', 'DualAveragingStepSize.learn::sign')]),
    Mut('c15-getter-mismatch', OPS, 'SlidingWindowOperator.adaptable_parameter', 'return math.log(self._width)', 'return -math.log(self._width)',
        expect=[('C15.A', 'SlidingWindowOperator::getter-inverts-setter')]),
    # benign
    Mut('c15-benign-rename', MC, 'MCMC.run', 'log_alpha = log_joint_proposed - log_joint + hastings_ratio',
        'log_alpha = hastings_ratio + (log_joint_proposed - log_joint)', benign=True),
    Mut('c15-benign-detach-clone', OPS, 'MCMCOperator.step', 'self.saved_tensors = [parameter.tensor.clone() for parameter in self.parameters]',
        'self.saved_tensors = [p.tensor.detach().clone() for p in self.parameters]', benign=True),
    Mut('c15-benign-compare-flipped', MC, 'MCMC.run', 'accepted = (acceptance_prob > torch.rand(1)).item()',
        'accepted = (torch.rand(1) < acceptance_prob).item()', benign=True),
    Mut('c15-nan-density-not-rejected', 'torchtree/inference/mcmc/mcmc.py', '', "                if torch.isnan(log_joint_proposed) or torch.isinf(log_joint_proposed):", "                if torch.isinf(log_joint_proposed):", expect=[('C15.L', 'MCMC.run::nan-density-guard')], mode='text'),
    Mut('c15-benign-not-isfinite-guard', 'torchtree/inference/mcmc/mcmc.py', '', "                if torch.isnan(log_joint_proposed) or torch.isinf(log_joint_proposed):", "                if not torch.isfinite(log_joint_proposed):", benign=True, mode='text'),
    Mut('c15-nan-hastings-not-rejected', 'torchtree/inference/mcmc/mcmc.py', '', "            if torch.isinf(hastings_ratio) or torch.isnan(hastings_ratio):", "            if torch.isinf(hastings_ratio):", expect=[('C15.L', 'MCMC.run::nan-hastings-guard')], mode='text'),
    Mut('c15-one-uniform-for-branch-and-magnitude', 'torchtree/inference/mcmc/gmrf_block_updating.py', '', "        length = self._scaler - 1 / self._scaler\n        if self._scaler == 1:\n", "        length = self._scaler - 1 / self._scaler\n        u = torch.rand(1)\n        if self._scaler == 1:\n",
        expect=[('C15.U', 'propose_precision::one-use-per-uniform-draw')], mode='text',
        more=[dict(scope='', old="        elif torch.rand(1) < length / (length + 2 * math.log(self._scaler)):\n", new="        elif u < length / (length + 2 * math.log(self._scaler)):\n", mode='text'),
              dict(scope='', old="                1 / self._scaler + length * torch.rand(1)\n", new="                1 / self._scaler + length * u\n", mode='text')]),
    Mut('c15-benign-uniforms-drawn-up-front', 'torchtree/inference/mcmc/gmrf_block_updating.py', '', "        length = self._scaler - 1 / self._scaler\n        if self._scaler == 1:\n", "        length = self._scaler - 1 / self._scaler\n        u1 = torch.rand(1)\n        u2 = torch.rand(1)\n        if self._scaler == 1:\n",
        benign=True, mode='text',
        more=[dict(scope='', old="        elif torch.rand(1) < length / (length + 2 * math.log(self._scaler)):\n", new="        elif u1 < length / (length + 2 * math.log(self._scaler)):\n", mode='text'),
              dict(scope='', old="                1 / self._scaler + length * torch.rand(1)\n", new="                1 / self._scaler + length * u2\n", mode='text')]),
    Mut('c15-view-proposals-notify-the-view-only', 'torchtree/core/parameter.py', 'ViewParameter', 'self.parameter.fire_parameter_changed()', 'self.fire_parameter_changed()', expect=[('C15.R', 'in-place::')]),
]
for m in CORPUS:
    if m.id == 'c15-joint-before-step':
        m.expect = [('C15.L', 'proposal-density-after-step')]
        m.old = 'hastings_ratio = operator.step()'
        m.new = 'with torch.no_grad():\n    log_joint_proposed = self.joint()\nhastings_ratio = operator.step()'
        m.more = [dict(old='with torch.no_grad():\n    log_joint_proposed = self.joint()', new='pass', nth=1)]
    if m.id == 'c15-step-save-after':
        m.expect = [('C15.S', 'saves-clones-before-proposal')]
        m.more = [dict(old='self.saved_tensors = [parameter.tensor.clone() for parameter in self.parameters]', new='pass', nth=0)]
CORPUS += [
    Mut('c15-sliding-window-redrawn-until-inside-the-support', 'torchtree/inference/mcmc/operator.py', 'SlidingWindowOperator._step', 'return torch.tensor(…',
        "while p[index2].item() < 0.0:\n    p[index2] += self._width * (torch.rand(1).item() - 0.5)\nreturn torch.tensor(0.0, device=self.parameters[0].device, dtype=self.parameters[0].dtype)",
        expect=[('C15.Q', 'SlidingWindowOperator._step::proposal-is-not-redrawn-until-it-fits')]),
    Mut('c15-logger-buffers-live-tensors', 'torchtree/core/logger.py', 'Logger.log', 'row.extend(obj.tensor.detach().cpu().tolist())',
        "row.append(obj.tensor.detach())\nself._rows = getattr(self, '_rows', [])\nself._rows.append(row)", expect=[('C15.R', 'loggers::Logger.log::rows-are-materialised-when-they-are-logged')]),
    Mut('c15-benign-logger-buffers-copied-rows', 'torchtree/core/logger.py', 'Logger.log', 'row.extend(obj.tensor.detach().cpu().tolist())',
        "row.extend(obj.tensor.detach().cpu().tolist())\nself._rows = getattr(self, '_rows', [])\nself._rows.append(list(row))", benign=True),
]
CORPUS += [
    Mut('c15-uphill-moves-accepted-without-the-hastings-term', 'torchtree/inference/mcmc/mcmc.py', '',
        "                    acceptance_prob = min(torch.zeros_like(log_alpha), log_alpha).exp()\n                    accepted = (acceptance_prob > torch.rand(1)).item()\n",
        "                    acceptance_prob = min(torch.zeros_like(log_alpha), log_alpha).exp()\n                    accepted = (acceptance_prob > torch.rand(1)).item()\n                    if log_joint_proposed >= log_joint:\n                        accepted = True\n",
        mode='text', expect=[('C15.L', 'MCMC.run::no-acceptance-without-the-draw')]),
    Mut('c15-benign-certain-moves-accepted-without-a-draw', 'torchtree/inference/mcmc/mcmc.py', '',
        "                    acceptance_prob = min(torch.zeros_like(log_alpha), log_alpha).exp()\n                    accepted = (acceptance_prob > torch.rand(1)).item()\n",
        "                    acceptance_prob = min(torch.zeros_like(log_alpha), log_alpha).exp()\n                    accepted = (acceptance_prob > torch.rand(1)).item()\n                    if log_alpha >= 0.0:\n                        accepted = True\n",
        mode='text', benign=True),
]
CORPUS += [
    Mut('c15-benign-probability-one-accepted-without-a-draw', 'torchtree/inference/mcmc/mcmc.py', '',
        "                    acceptance_prob = min(torch.zeros_like(log_alpha), log_alpha).exp()\n                    accepted = (acceptance_prob > torch.rand(1)).item()\n",
        "                    acceptance_prob = min(torch.zeros_like(log_alpha), log_alpha).exp()\n                    accepted = (acceptance_prob > torch.rand(1)).item()\n                    if acceptance_prob >= 1.0:\n                        accepted = True\n",
        mode='text', benign=True),
]
CORPUS += [
    Mut('c15-proposed-density-brought-along-by-the-operator', 'torchtree/inference/mcmc/mcmc.py', '', "                with torch.no_grad():\n                    log_joint_proposed = self.joint()\n",
        "                log_joint_proposed = getattr(operator, 'proposed_log_density', None)\n                if log_joint_proposed is None:\n                    with torch.no_grad():\n                        log_joint_proposed = self.joint()\n",
        mode='text', expect=[('C15.L', 'MCMC.run::proposal-density-is-the-targets-own')]),
]
