"""Small shared helpers over the parsed program."""
from __future__ import annotations

import ast
from typing import Dict, List, Optional, Tuple

from .loader import Unsupported, dotted_name


def const_of(e) -> Optional[object]:
    if isinstance(e, ast.Constant) and isinstance(e.value, bool):
        return e.value
    return None


def find_calls(ctx, target_module: str, fn_name: str):
    """all call sites `fn_name(...)` resolving to target_module.fn_name."""
    out = []
    for m in ctx.prog.modules.values():
        for node in ast.walk(m.tree):
            if isinstance(node, ast.Call):
                dn = dotted_name(node.func)
                if not dn:
                    continue
                q = ctx.prog.resolve_name(m, dn)
                r = ctx.prog.resolve(q)
                if r and r[0] == 'function' and r[1].name == target_module and r[2].name == fn_name:
                    out.append((m, node))
    return out


def enclosing_function(node):
    n = node
    while n is not None and not isinstance(n, (ast.FunctionDef, ast.AsyncFunctionDef)):
        n = getattr(n, '_parent', None)
    return n


def enclosing_class(node):
    n = node
    while n is not None and not isinstance(n, ast.ClassDef):
        n = getattr(n, '_parent', None)
    return n


def bind_args(fn: ast.FunctionDef, call: ast.Call, skip_self=False) -> Dict[str, ast.AST]:
    params = [a.arg for a in fn.args.args]
    if skip_self and params and params[0] in ('self', 'cls'):
        params = params[1:]
    bound: Dict[str, ast.AST] = {}
    for p, a in zip(params, call.args):
        if isinstance(a, ast.Starred):
            raise Unsupported(call, 'starred argument')
        bound[p] = a
    for kw in call.keywords:
        if kw.arg is None:
            raise Unsupported(call, '** argument')
        bound[kw.arg] = kw.value
    return bound


def defaults_of(fn: ast.FunctionDef) -> Dict[str, ast.AST]:
    args = fn.args.args
    d = fn.args.defaults
    out = {}
    for a, dv in zip(args[len(args) - len(d):], d):
        out[a.arg] = dv
    for a, dv in zip(fn.args.kwonlyargs, fn.args.kw_defaults):
        if dv is not None:
            out[a.arg] = dv
    return out


