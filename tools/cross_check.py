"""Run every property check against every seeded change that its own property's check does not report (scratch copies under /dev/shm, removed afterwards).
Usage: /venv/bin/python tools/cross_check.py [seed-id ...]"""
import glob, json, os, shutil, subprocess, sys, tempfile
from concurrent.futures import ThreadPoolExecutor
HERE = os.path.dirname(os.path.dirname(os.path.abspath(__file__)))
PROPS = [f"C{i:02d}" for i in range(1, 21)]


def run(seed):
    d = tempfile.mkdtemp(prefix='verif-cc-', dir='/dev/shm')
    try:
        shutil.copytree('/repo/torchtree', os.path.join(d, 'torchtree'), ignore=shutil.ignore_patterns('__pycache__'))
        r = subprocess.run(['patch', '-p1', '-s', '-i', os.path.join(HERE, 'seeded', seed, 'patch.diff')], cwd=d, capture_output=True, text=True)
        if r.returncode != 0:
            return seed, {'patch': 'failed ' + r.stdout[-200:]}
        out = {}
        for p in PROPS:
            if p == 'C19' and 'cli' not in open(os.path.join(HERE, 'seeded', seed, 'patch.diff')).read():
                continue
            r = subprocess.run(['/venv/bin/python', os.path.join(HERE, 'check.py'), p, '--repo', d, '--no-evidence', '--out', d], capture_output=True, text=True)
            if r.returncode != 0:
                lines = [l.strip()[:160] for l in r.stdout.splitlines() if '] ' in l and ('[C' in l) and not l.startswith('[')]
                out[p] = (r.returncode, lines[:2])
        return seed, out
    finally:
        shutil.rmtree(d, ignore_errors=True)


seeds = sys.argv[1:]
if not seeds:
    for m in sorted(glob.glob(os.path.join(HERE, 'seeded', '*', 'meta.json'))):
        j = json.load(open(m))
        if not j.get('detected') and j.get('status') not in ('obsolete',):
            seeds.append(os.path.basename(os.path.dirname(m)))
with ThreadPoolExecutor(8) as ex:
    for seed, out in ex.map(run, seeds):
        print(seed, json.dumps(out)[:600])
