"""Constructor binding: at every call `cls(...)` / `ClassName(...)` that resolves to a class of the package, the arguments bind to
the parameters of the resolved `__init__` the way the call site says they should.

Decided per call site (and, for `cls(...)` in an inherited factory, per concrete subclass that inherits the factory):
  * a positional argument that is a plain name (or `obj.name`) equal to the name of *another* parameter of the constructor than the
    one it binds to is a slot mismatch (the value lands in the wrong parameter) — a contradiction between the two spellings in the
    code, not a guess;
  * more positional arguments than the constructor takes, a keyword the constructor does not take, or a required parameter that no
    argument provides: the construction raises.
Calls with a `*splat` are decided up to the splat; `**splat` switches the missing / unknown keyword tests off.
"""
from __future__ import annotations

import ast
from typing import Iterable, List, Optional

from sa.report import where
from sa.loader import dotted_name, norm_text


def _norm(n: str) -> str:
    return n.strip('_')


def _arg_name(a: ast.AST) -> Optional[str]:
    if isinstance(a, ast.Name):
        return a.id
    if isinstance(a, ast.Attribute):
        return a.attr
    return None


def _enclosing_class(fn):
    p = getattr(fn, '_parent', None)
    while p is not None and not isinstance(p, ast.ClassDef):
        p = getattr(p, '_parent', None)
    return p


def _is_classmethod(fn: ast.FunctionDef) -> bool:
    return any((isinstance(d, ast.Name) and d.id == 'classmethod') for d in fn.decorator_list)


def _decide(call: ast.Call, init: ast.FunctionDef):
    """list of (kind, text) problems of binding `call` to `init`"""
    a = init.args
    params = [x.arg for x in a.posonlyargs + a.args][1:]
    n_defaults = len(a.defaults)
    required = params[:len(params) - n_defaults] if n_defaults else list(params)
    kwonly = [x.arg for x in a.kwonlyargs]
    required_kw = [x.arg for x, d in zip(a.kwonlyargs, a.kw_defaults) if d is None]
    problems = []
    bound = set()
    splat = False
    for i, arg in enumerate(call.args):
        if isinstance(arg, ast.Starred):
            splat = True
            # a list splatted into two or more OPTIONAL parameters binds by position whatever the list holds: when an earlier optional value is absent the later ones
            # slide into its slot (`cls(id_, shape, categories, *optionals)` with optionals = [mu] puts mu into `invariant`)
            remaining = params[i:]
            optional_remaining = [p_ for p_ in remaining if p_ not in required]
            if a.vararg is None and len(optional_remaining) >= 2 and len(optional_remaining) == len(remaining):
                problems.append(('splat-into-optionals', f"`{ast.unparse(arg)}` is unpacked into the optional parameters {optional_remaining}: which parameter a value reaches depends on "
                                                         f"how many values the list holds, so an absent earlier option shifts the later ones into its slot"))
            break
        if i >= len(params):
            if a.vararg is None:
                problems.append(('too-many', f"passes {len(call.args)} positional arguments, the constructor takes {len(params)}"))
            break
        bound.add(params[i])
        nm = _arg_name(arg)
        if nm is None:
            continue
        norm_params = {_norm(p): p for p in params + kwonly}
        if _norm(nm) != _norm(params[i]) and _norm(nm) in norm_params:
            problems.append(('slot', f"positional argument {i + 1} `{ast.unparse(arg)}` binds to parameter `{params[i]}` although the constructor has a parameter "
                                     f"`{norm_params[_norm(nm)]}` (the value lands in the wrong parameter)"))
    dstar = any(k.arg is None for k in call.keywords)
    for k in call.keywords:
        if k.arg is None:
            continue
        if k.arg in bound:
            problems.append(('twice', f"parameter `{k.arg}` is given both positionally and by keyword"))
        elif k.arg not in params and k.arg not in kwonly and a.kwarg is None:
            problems.append(('unknown-keyword', f"keyword `{k.arg}` is not a parameter of the constructor"))
        bound.add(k.arg)
    if not splat and not dstar:
        missing = [p for p in required + required_kw if p not in bound]
        if missing:
            problems.append(('missing', f"required parameter(s) {missing} receive no argument"))
    return problems


def check_constructor_binding(ctx, rep, rule: str, module_prefixes: Iterable[str], floor: int = 1) -> int:
    prefixes = tuple(module_prefixes)
    n = 0
    for mname, m in sorted(ctx.prog.modules.items()):
        if not any(mname == p.rstrip('.') or mname.startswith(p) for p in prefixes):
            continue
        for fn in ast.walk(m.tree):
            if not isinstance(fn, ast.FunctionDef):
                continue
            owner = _enclosing_class(fn)
            for c in ast.walk(fn):
                if not isinstance(c, ast.Call):
                    continue
                targets: List = []
                if isinstance(c.func, ast.Name) and c.func.id == 'cls' and owner is not None and _is_classmethod(fn):
                    base = ctx.classes.find(f"{mname}.{owner.name}")
                    if base is None:
                        continue
                    cands = [base] + [s for s in ctx.classes.subclasses(base.qualname, strict=True)]
                    for s in cands:
                        r = s.resolve(fn.name)
                        if r and r[1] is fn and (s is base or not s.is_abstract()):
                            targets.append(s)
                elif isinstance(c.func, (ast.Name, ast.Attribute)):
                    try:
                        ci = ctx.classes.resolve_class_expr(m, c.func)
                    except Exception:
                        ci = None
                    if ci is not None:
                        targets.append(ci)
                for ci in targets:
                    r = ci.resolve('__init__')
                    if not r:
                        continue
                    init = r[1]
                    n += 1
                    scope = f"{owner.name}.{fn.name}" if owner is not None else fn.name
                    key = f"{mname.replace('torchtree.', '')}::{scope}::{ci.node.name}(…)#{sum(1 for x in ast.walk(fn) if isinstance(x, ast.Call) and x.lineno < c.lineno and ast.dump(x.func) == ast.dump(c.func))}"
                    problems = _decide(c, init)
                    if problems:
                        rep.bad(rule, key, where(m, c), {'constructor': f"{r[0].qualname}.__init__", 'problems': [p[0] for p in problems]},
                                f"{scope} builds {ci.node.name}: " + '; '.join(p[1] for p in problems))
                    else:
                        rep.ok(rule, key, where(m, c), {'constructor': f"{r[0].qualname}.__init__"})
    if n < floor:
        rep.incomplete(rule, '*', '', f"only {n} constructor calls resolved, expected at least {floor}")
    return n


POSITIVE = '''
class A:
    def __init__(self, id_, x, scale=1.0, weights=None):
        pass
    @classmethod
    def from_json(cls, data, dic):
        return cls(id_, x, weights, scale)
def f():
    return A(id_, x, colour=3)
def g():
    return A(id_)
def h():
    return A(id_, x, scale, weights)
'''


def self_check():
    """the classifier flags exactly the three wrong calls of the embedded example"""
    t = ast.parse(POSITIVE)
    init = t.body[0].body[0]
    res = {}
    for fn in ast.walk(t):
        if isinstance(fn, ast.FunctionDef) and fn.name != '__init__':
            for c in ast.walk(fn):
                if isinstance(c, ast.Call):
                    res[fn.name] = sorted(p[0] for p in _decide(c, init))
    if res != {'from_json': ['slot', 'slot'], 'f': ['unknown-keyword'], 'g': ['missing'], 'h': []}:
        from sa.loader import AnalysisError
        raise AnalysisError(f"constructor-binding self-check failed: {res}")


# modules whose factories build the objects the property is about (from the anchors of each property)
SCOPES = {
    'C04': ['torchtree.evolution.substitution_model.'],
    'C05': ['torchtree.evolution.site_model'],
    'C06': ['torchtree.evolution.tree_height_transform', 'torchtree.evolution.tree_model'],
    'C07': ['torchtree.distributions.transforms', 'torchtree.evolution.rate_transform', 'torchtree.evolution.branch_model'],
    'C08': ['torchtree.evolution.coalescent'],
    'C09': ['torchtree.evolution.bdsk', 'torchtree.evolution.birth_death'],
    'C14': ['torchtree.variational.', 'torchtree.distributions.joint_distribution', 'torchtree.distributions.distributions'],
    'C15': ['torchtree.inference.mcmc.'],
    'C16': ['torchtree.inference.hmc.'],
    'C20': ['torchtree.distributions.gmrf', 'torchtree.distributions.gmrf_integrated', 'torchtree.inference.mcmc.gmrf_block_updating'],
}


def run_for(ctx, rep, prop: str, floor: int):
    rule = f"{prop}.Y"
    rep.rule(rule, "every `cls(…)` / `Class(…)` call in the factories of these modules binds its arguments to the constructor parameters they are named for "
                   "(no slot mismatch, no unknown keyword, no missing required parameter), for every concrete class that inherits the factory")
    self_check()
    n = check_constructor_binding(ctx, rep, rule, SCOPES[prop], floor)
    rep.analysed[f'constructor_calls_bound'] = n
    rep.analysed['factories_with_key_flow_checked'] = check_json_keys_reach_their_parameters(ctx, rep, rule, SCOPES[prop])
    return n


def check_json_defaults(ctx, rep, rule: str, only=None) -> int:
    """a from_json that reads an optional key with a literal default (`v = data.get('k', D)`) and hands v to the constructor parameter p must use the constructor's own default
    for p: otherwise an object built from a specification that does not mention the option behaves differently from one built directly (and from what the constructor documents)."""
    from .loader import norm_text
    from .report import where
    n = 0
    for ci in sorted(ctx.classes.classes.values(), key=lambda c: c.qualname):
        if only is not None and not only(ci):
            continue
        fj = ci.methods.get('from_json')
        init = ci.resolve('__init__')
        if fj is None or init is None or len(fj.args.args) < 2:
            continue
        data = fj.args.args[1].arg
        gets = {}
        for st in ast.walk(fj):
            if isinstance(st, ast.Assign) and len(st.targets) == 1 and isinstance(st.value, ast.Call) and isinstance(st.value.func, ast.Attribute) and st.value.func.attr == 'get' \
                    and isinstance(st.value.func.value, ast.Name) and st.value.func.value.id == data and len(st.value.args) == 2 and isinstance(st.value.args[1], ast.Constant):
                t = st.targets[0]
                if isinstance(t, ast.Name):
                    gets[t.id] = st.value
        if not gets:
            continue
        params = init[1].args.args[1:]
        defaults = init[1].args.defaults
        dmap = {}
        for p_, d_ in zip(params[len(params) - len(defaults):], defaults):
            dmap[p_.arg] = d_
        for p_, d_ in zip(init[1].args.kwonlyargs, init[1].args.kw_defaults):
            if d_ is not None:
                dmap[p_.arg] = d_
        for c in ast.walk(fj):
            if not (isinstance(c, ast.Call) and isinstance(c.func, ast.Name) and c.func.id == 'cls'):
                continue
            bound = {}
            for i, a in enumerate(c.args):
                if isinstance(a, ast.Name) and a.id in gets and i < len(params):
                    bound[params[i].arg] = a.id
            for k in c.keywords:
                if k.arg and isinstance(k.value, ast.Name) and k.value.id in gets:
                    bound[k.arg] = k.value.id
            for pname, var in sorted(bound.items()):
                if pname not in dmap or not isinstance(dmap[pname], ast.Constant):
                    continue
                n += 1
                jd, cd = gets[var].args[1].value, dmap[pname].value
                same = (jd == cd and type(jd) is type(cd)) or (jd is None and cd is None)
                rep.check(rule, f"{ci.qualname}.from_json::default-of-{pname}", same, where(ci.module, gets[var]), {'json_default': repr(jd), 'constructor_default': repr(cd)},
                          f"{ci.name}.from_json reads `{norm_text(gets[var])[:50]}` and hands it to the constructor parameter `{pname}`, whose own default is {cd!r}: a specification that does "
                          f"not mention the option builds an object configured with {jd!r} where the constructor (and its documentation) means {cd!r}")
    return n


# ---------------------------------------------------------------------------
# the value read from JSON key K reaches the constructor parameter K
# ---------------------------------------------------------------------------
KEYFLOW_POSITIVE = '''
class A:
    def __init__(self, id_, tree, ratios=None, shifts=None):
        pass
    @classmethod
    def from_json(cls, data, dic):
        if 'shifts' in data:
            parameters = process_object(data['shifts'], dic)
        else:
            parameters = process_object(data['ratios'], dic)
        return cls(data['id'], tree, parameters)
    @classmethod
    def from_json2(cls, data, dic):
        if 'shifts' in data:
            parameters = process_object(data['shifts'], dic)
            return cls(data['id'], tree, shifts=parameters)
        parameters = process_object(data['ratios'], dic)
        return cls(data['id'], tree, parameters)
'''


def _json_key_of(v, data_name):
    """K for `process_object*(data['K'], …)`, `data['K']`, `data.get('K', …)`"""
    if isinstance(v, ast.Call) and (dotted_name(v.func) or '').split('.')[-1].startswith('process_object') and v.args:
        return _json_key_of(v.args[0], data_name)
    if isinstance(v, ast.Subscript) and isinstance(v.value, ast.Name) and v.value.id == data_name and isinstance(v.slice, ast.Constant) and isinstance(v.slice.value, str):
        return v.slice.value
    if isinstance(v, ast.Call) and isinstance(v.func, ast.Attribute) and v.func.attr == 'get' and isinstance(v.func.value, ast.Name) and v.func.value.id == data_name \
            and v.args and isinstance(v.args[0], ast.Constant) and isinstance(v.args[0].value, str):
        return v.args[0].value
    return None


def key_flow_mismatches(fn: ast.FunctionDef, init: ast.FunctionDef):
    """(definition, call, K, P): a local read from JSON key K — K being a constructor parameter — that reaches a `cls(…)` call (no redefinition in between) in the slot of
    another parameter P"""
    from sa.cfg import CFG
    if len(fn.args.args) < 2:
        return []
    data_name = fn.args.args[1].arg
    params = [a.arg for a in init.args.args][1:]
    names = set(params) | {a.arg for a in init.args.kwonlyargs}
    defs = {}
    for st in ast.walk(fn):
        if isinstance(st, ast.Assign) and len(st.targets) == 1 and isinstance(st.targets[0], ast.Name):
            defs.setdefault(st.targets[0].id, []).append(st)
    out = []
    cfg = None
    for v, sts in defs.items():
        for st in sts:
            K = _json_key_of(st.value, data_name)
            if K is None or K not in names:
                continue
            for c in ast.walk(fn):
                if not (isinstance(c, ast.Call) and isinstance(c.func, ast.Name) and c.func.id == 'cls'):
                    continue
                P = None
                for i, a in enumerate(c.args):
                    if isinstance(a, ast.Name) and a.id == v and i < len(params):
                        P = params[i]
                for k in c.keywords:
                    if isinstance(k.value, ast.Name) and k.value.id == v and k.arg is not None:
                        P = k.arg
                if P is None or P == K:
                    continue
                # does THIS definition reach the call?
                if cfg is None:
                    cfg = CFG(fn)
                holder = c
                while holder is not None and not isinstance(holder, ast.stmt):
                    holder = getattr(holder, '_parent', None)
                try:
                    dn, cn = cfg.node_of(st), cfg.node_of(holder)
                    others = {cfg.node_of(o).id for o in sts if o is not st}
                except (KeyError, AttributeError):
                    continue
                if cn.id in cfg.reachable_after(dn, others):
                    out.append((st, c, K, P))
    return out


def check_json_keys_reach_their_parameters(ctx, rep, rule: str, prefixes) -> int:
    t = ast.parse(KEYFLOW_POSITIVE)
    for par in ast.walk(t):
        for ch in ast.iter_child_nodes(par):
            ch._parent = par
    init, f1, f2 = t.body[0].body[0], t.body[0].body[1], t.body[0].body[2]
    if [(k, p) for _, _, k, p in key_flow_mismatches(f1, init)] != [('shifts', 'ratios')] or key_flow_mismatches(f2, init):
        from sa.loader import AnalysisError
        raise AnalysisError('JSON-key-flow self-check failed')
    n = 0
    for mname, m in sorted(ctx.prog.modules.items()):
        if not any(mname.startswith(p) or mname == p.rstrip('.') for p in prefixes):
            continue
        for cname, cnode in m.classes.items():
            ci = ctx.classes.find(f"{mname}.{cname}")
            if ci is None:
                continue
            for fn in [b for b in cnode.body if isinstance(b, ast.FunctionDef) and b.name in ('from_json', '_from_json')]:
                r = ci.resolve('__init__')
                if not r:
                    continue
                n += 1
                bad = key_flow_mismatches(fn, r[1])
                key = f"{mname.replace('torchtree.', '')}::{cname}.{fn.name}::json-keys-reach-the-parameters-they-name"
                if bad:
                    st, c, K, P = bad[0]
                    rep.bad(rule, key, where(m, c), {'key': K, 'slot': P},
                            f"{cname}.{fn.name} reads `{norm_text(st)[:50]}` and hands it to the constructor as `{P}`: the class has a parameter `{K}` for it, so the specification's "
                            f"'{K}' is built as a {P} (another parameterisation, another transform) without any error")
                else:
                    rep.ok(rule, key, where(m, fn), None)
    return n
