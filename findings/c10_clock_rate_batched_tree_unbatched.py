"""C10 (fixed): TreeLikelihoodModel with a clock model, an unbatched time tree and a batched clock rate: every sample was evaluated with the clock rate of sample 0
(branch lengths expanded to sample_shape + (1, -1) and multiplied by rates of shape [S, B] give [S, S, B]; the reshape then keeps row (s, 0)).
Run: PYTHONPATH=<tree> /venv/bin/python findings/c10_clock_rate_batched_tree_unbatched.py   (exit 1 = defect present)"""
import sys, torch
from torchtree.evolution.tree_likelihood import TreeLikelihoodModel


def build(rate):
    taxa = {'id': 'taxa', 'type': 'Taxa', 'taxa': [{'id': n, 'type': 'Taxon', 'attributes': {'date': 0.0}} for n in 'ABC']}
    seqs = {'A': 'ACGTACGTAA', 'B': 'ACGTACCTAC', 'C': 'ACTTTCGTGA'}
    model = {'id': 'like', 'type': 'TreeLikelihoodModel',
             'tree_model': {'id': 'tree', 'type': 'TimeTreeModel', 'newick': '((A:1,B:1):1,C:2);', 'taxa': taxa,
                            'internal_heights': {'id': 'h', 'type': 'Parameter', 'tensor': [1.0, 2.0]}},
             'site_model': {'id': 'sm', 'type': 'ConstantSiteModel'},
             'substitution_model': {'id': 'm', 'type': 'JC69'},
             'branch_model': {'id': 'clock', 'type': 'StrictClockModel', 'tree_model': 'tree', 'rate': {'id': 'rate', 'type': 'Parameter', 'tensor': rate}},
             'site_pattern': {'id': 'sp', 'type': 'SitePattern', 'alignment': {'id': 'al', 'type': 'Alignment', 'datatype': 'nucleotide', 'taxa': 'taxa',
                                                                         'sequences': [{'taxon': t, 'sequence': s} for t, s in seqs.items()]}}}
    return TreeLikelihoodModel.from_json(model, {})


rates = [0.05, 0.2, 0.6]
single = [build([r])().item() for r in rates]
bad = 0
try:
    batched = build([[r] for r in rates])()
    print('batched evaluation:', batched.flatten().tolist())
    print('one at a time     :', single)
    if batched.numel() != len(rates) or not torch.allclose(batched.flatten(), torch.tensor(single), atol=1e-5):
        bad = 1
except Exception as e:  # an unsupported combination may raise, it must not return other samples' values
    print('batched evaluation raises', type(e).__name__, str(e)[:80])
print('DEFECT present' if bad else 'OK')
sys.exit(bad)
