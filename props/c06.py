"""C06 — node-height parameterisations yield a valid time tree and are invertible."""
from __future__ import annotations

import ast
import copy
from typing import Dict, List, Optional, Set

from sa.loader import AnalysisError, Unsupported, dotted_name, norm_text
from sa.members import self_attr
from sa.poly import Rat, ToRat
from sa.report import where

TM = 'torchtree.evolution.tree_model'
TH = 'torchtree.evolution.tree_height_transform'


def method_name(call: ast.Call) -> str:
    return (dotted_name(call.func) or (call.func.attr if isinstance(call.func, ast.Attribute) else '')).split('.')[-1]


def row_of(sub: ast.AST) -> Optional[int]:
    """index expression `X[0]`, `X[0, a:b]`, `X[0, a:b] - k` -> 0"""
    e = sub
    if isinstance(e, ast.BinOp) and isinstance(e.op, ast.Sub):
        e = e.left
    if isinstance(e, ast.Subscript):
        sl = e.slice
        first = sl.elts[0] if isinstance(sl, ast.Tuple) else sl
        if isinstance(first, ast.Constant) and isinstance(first.value, int):
            return first.value
    return None


def last_index_expr(sub: ast.Subscript) -> ast.AST:
    sl = sub.slice
    return sl.elts[-1] if isinstance(sl, ast.Tuple) else sl


# ---------------------------------------------------------------------------
def check_device_moves(ctx, rep):
    """C06.D over every class: an attribute for which __init__ chooses among several constructor calls must not be
    re-assigned a fixed member of that set elsewhere."""
    n = 0
    for ci in sorted(ctx.classes.classes.values(), key=lambda c: c.qualname):
        init = ci.methods.get('__init__')
        if init is None:
            continue
        choices: Dict[str, Set[str]] = {}
        for st in ast.walk(init):
            if isinstance(st, ast.Assign) and isinstance(st.value, ast.Call) and isinstance(st.value.func, ast.Name):
                for t in st.targets:
                    a = self_attr(t)
                    if a and ctx.classes.resolve_class_expr(ci.module, st.value.func) is not None:
                        choices.setdefault(a, set()).add(st.value.func.id)
        multi = {a: c for a, c in choices.items() if len(c) > 1}
        for a, cs in sorted(multi.items()):
            for c2 in ci.internal_mro():
                pass
            for name, fn in sorted(ci.methods.items()):
                if name == '__init__':
                    continue
                for st in ast.walk(fn):
                    if isinstance(st, ast.Assign) and any(self_attr(t) == a for t in st.targets):
                        n += 1
                        v = st.value
                        fixed = isinstance(v, ast.Call) and isinstance(v.func, ast.Name) and v.func.id in cs
                        # accepted: type(self.a)(...) or a branch on the same discriminator
                        guarded = False
                        p = getattr(st, '_parent', None)
                        while p is not None and p is not fn:
                            if isinstance(p, ast.If):
                                guarded = True
                            p = getattr(p, '_parent', None)
                        rep.check('C06.D', f"{ci.qualname}.{name}::self.{a}", not fixed or guarded, where(ci.module, st),
                                  {'attribute': a, 'constructor_chooses_among': sorted(cs), 'store': norm_text(st)},
                                  f"{ci.name}.__init__ chooses self.{a} among {sorted(cs)} but {ci.name}.{name} unconditionally installs "
                                  f"{v.func.id if fixed else '?'}: after {name}() an instance built with the other choice silently switches "
                                  f"parameterisation (its parameter values are then interpreted by the wrong map)")
    rep.analysed['attribute_reassignments_checked'] = n
    if n < 1:
        raise AnalysisError('no selectable-attribute re-assignment found (expected ReparameterizedTimeTreeModel.cuda/cpu)')


# ---------------------------------------------------------------------------
def check_roles(ctx, rep):
    tm = ctx.classes.get(f"{TM}.TimeTreeModel")
    m = tm.module
    ut = tm.resolve('update_traversals')[1]
    # writer: rows are (parent, child)
    writer_ok = False
    for st in ast.walk(ut):
        if isinstance(st, ast.Assign) and any(self_attr(t) == 'preorder' for t in st.targets):
            for lc in ast.walk(st.value):
                if isinstance(lc, ast.ListComp) and isinstance(lc.elt, ast.Tuple) and len(lc.elt.elts) == 2:
                    a, b = lc.elt.elts
                    writer_ok = 'parent_node' in ast.unparse(a) and 'parent_node' not in ast.unparse(b) and ast.unparse(a).endswith('.index') and ast.unparse(b).endswith('.index')
    rep.check('C06.R', 'TimeTreeModel.update_traversals::rows-are-(parent,child)', writer_ok, where(m, ut), None,
              "the pre-order table must hold (parent index, child index) rows: every consumer below relies on column 0 being the parent")
    srt_ok = False
    for st in ast.walk(ut):
        if isinstance(st, ast.Assign) and any(self_attr(t) == 'indices_sorted' for t in st.targets):
            txt = ast.unparse(st.value).replace(' ', '')
            srt_ok = 'argsort(self.preorder[:,1])' in txt and txt.endswith('.t()')
    rep.check('C06.R', 'TimeTreeModel.update_traversals::sorted-by-child', srt_ok, where(m, ut), None,
              "indices_sorted must be the table sorted by child index (column 1) and transposed: branch k then belongs to node k")
    # branch_lengths = heights[parent] - heights[child]
    bl = tm.resolve('branch_lengths')[1]
    ok = False
    for st in ast.walk(bl):
        if isinstance(st, ast.Assign) and any(self_attr(t) == '_branch_lengths' for t in st.targets) and isinstance(st.value, ast.BinOp) and isinstance(st.value.op, ast.Sub):
            l, r = st.value.left, st.value.right
            if isinstance(l, ast.Subscript) and isinstance(r, ast.Subscript) and ast.unparse(l.value) == ast.unparse(r.value):
                ok = row_of(last_index_expr(l)) == 0 and row_of(last_index_expr(r)) == 1
    rep.check('C06.R', 'TimeTreeModel.branch_lengths::parent-minus-child', ok, where(m, bl), None,
              "branch length must be height[parent] − height[child] (row 0 minus row 1): the other order gives negative branch lengths")
    # heights_to_branch_lengths
    hb = m.functions.get('heights_to_branch_lengths')
    if hb is not None:
        rets = [n for n in ast.walk(hb) if isinstance(n, ast.Return)]
        ok = False
        if rets and isinstance(rets[0].value, ast.Call) and method_name(rets[0].value) == 'cat':
            parts = rets[0].value.args[0].elts
            if len(parts) == 2 and all(isinstance(p, ast.BinOp) and isinstance(p.op, ast.Sub) for p in parts):
                tip, internal = parts
                ok = row_of(last_index_expr(tip.left)) == 0 and 'bounds' in ast.unparse(tip.right) \
                    and row_of(last_index_expr(internal.left)) == 0 and row_of(last_index_expr(internal.right)) == 1
        rep.check('C06.R', 'heights_to_branch_lengths::parent-minus-child', ok, where(m, hb), None,
                  "tip branches: parent height − tip bound; internal branches: parent height − child height")
    # GeneralNodeHeightTransform roles
    g = ctx.classes.get(f"{TH}.GeneralNodeHeightTransform")
    call = g.resolve('_call')[1]
    x = call.args.args[1].arg
    loops = [n for n in ast.walk(call) if isinstance(n, ast.For) and isinstance(n.target, ast.Tuple) and len(n.target.elts) == 2]
    ok = False
    facts = {}
    if len(loops) == 1:
        first, second = (e.id for e in loops[0].target.elts)
        upd = [st for st in loops[0].body if isinstance(st, ast.Assign)]
        if len(upd) == 1:
            tgt = last_index_expr(upd[0].targets[0])
            stored = tgt.id if isinstance(tgt, ast.Name) else None
            # the parent height is read at index `first`, everything else at `second`
            reads = {}
            for s in ast.walk(upd[0].value):
                if isinstance(s, ast.Subscript):
                    idx = last_index_expr(s)
                    if isinstance(idx, ast.Name) and idx.id in (first, second):
                        reads.setdefault(idx.id, set()).add(ast.unparse(s.value))
            hname = ast.unparse(upd[0].targets[0].value)
            ok = stored == second and reads.get(first) == {hname} and x in reads.get(second, set())
            facts = {'loop_target': [first, second], 'stores_at': stored, 'reads': {k: sorted(v) for k, v in reads.items()}}
        it = loops[0].iter
        ok = ok and self_attr(it) == '_forward_indices'
    rep.check('C06.R', 'GeneralNodeHeightTransform._call::(parent,child)-loop', ok, where(g.module, call), facts,
              "the forward loop must unpack (parent, child) rows: the parent's height is read at the first index, the child's ratio/bound at the second, and the child is stored")
    # _forward_indices = internal children only, pre-order preserved
    si = g.resolve('sort_indices')[1]
    ok = False
    for st in ast.walk(si):
        if isinstance(st, ast.Assign) and any(self_attr(t) == '_forward_indices' for t in st.targets):
            txt = ast.unparse(st.value).replace(' ', '')
            ok = 'self.tree.preorder[self.tree.preorder[...,1]>=self.taxa_count,:]' in txt and txt.endswith('-self.taxa_count')
    rep.check('C06.R', 'GeneralNodeHeightTransform.sort_indices::forward-indices', ok, where(g.module, si), None,
              "_forward_indices must be the pre-order rows whose child is internal, shifted by taxa_count, in pre-order (parents before children)")
    # inverse roles
    inv = g.resolve('_inverse')[1]
    y = inv.args.args[1].arg
    ok = False
    facts = {}
    for n in ast.walk(inv):
        if isinstance(n, ast.BinOp) and isinstance(n.op, ast.Div) and isinstance(n.left, ast.BinOp) and isinstance(n.right, ast.BinOp):
            nl, nr = n.left, n.right
            if isinstance(nl.op, ast.Sub) and isinstance(nr.op, ast.Sub) and isinstance(nl.left, ast.Subscript) and isinstance(nr.left, ast.Subscript):
                rn, rd = row_of(last_index_expr(nl.left)), row_of(last_index_expr(nr.left))
                same_bound = ast.unparse(nl.right) == ast.unparse(nr.right)
                ok = rn == 1 and rd == 0 and same_bound
                facts = {'numerator_row': rn, 'denominator_row': rd, 'same_bound': same_bound}
    bdef = [st for st in ast.walk(inv) if isinstance(st, ast.Assign) and isinstance(st.targets[0], ast.Name) and st.targets[0].id == 'bounds']
    bound_of_child = bool(bdef) and isinstance(bdef[0].value, ast.Subscript) and row_of(bdef[0].value.slice) == 1
    rep.check('C06.R', 'GeneralNodeHeightTransform._inverse::child-over-parent', ok and bound_of_child, where(g.module, inv), {**facts, 'bound_indexed_by_child': bound_of_child},
              "ratio = (h[child] − bound[child]) / (h[parent] − bound[child]): numerator indexed by row 1, denominator by row 0, the child's bound in both")
    # what is returned is that quotient itself (followed by the root height): nothing is applied to it on the way out
    import copy
    rets = [r for r in ast.walk(inv) if isinstance(r, ast.Return) and r.value is not None]
    env = {}

    class Sub(ast.NodeTransformer):
        def visit_Name(self, n):
            if isinstance(n.ctx, ast.Load) and n.id in env:
                return copy.deepcopy(env[n.id])
            return n
    # straight-line substitution in statement order (a redefinition `r = f(r)` sees the previous value of r)
    for st in inv.body:
        if isinstance(st, ast.Assign) and len(st.targets) == 1 and isinstance(st.targets[0], ast.Name):
            env[st.targets[0].id] = Sub().visit(copy.deepcopy(st.value))
        elif isinstance(st, (ast.If, ast.For, ast.While, ast.With, ast.Try)):
            for n in ast.walk(st):
                if isinstance(n, ast.Name) and isinstance(n.ctx, ast.Store):
                    env.pop(n.id, None)

    def inline(e, depth=0):
        return Sub().visit(copy.deepcopy(e))
    IDENTITY = {'clone', 'contiguous'}
    NOT_IDENTITY = {'clamp', 'clamp_', 'clip', 'clamp_min', 'clamp_max', 'round', 'abs', 'maximum', 'minimum', 'where', 'sigmoid', 'relu', 'nan_to_num', 'floor', 'ceil', 'sqrt', 'exp', 'log'}
    verdict, why_txt = None, ''
    if len(rets) == 1:
        rv = inline(rets[0].value)
        parts = _cat_last(rv) if isinstance(rv, ast.Call) else None
        if parts and len(parts) == 2:
            q = inline(parts[0])
            wrappers = []
            while True:
                if isinstance(q, ast.Call) and isinstance(q.func, ast.Attribute) and not (isinstance(q.func.value, ast.Name) and q.func.value.id == 'torch'):
                    wrappers.append(q.func.attr)
                    q = inline(q.func.value)
                elif isinstance(q, ast.Call) and isinstance(q.func, ast.Attribute) and q.args:
                    wrappers.append(q.func.attr)
                    q = inline(q.args[0])
                else:
                    break
            is_quot = isinstance(q, ast.BinOp) and isinstance(q.op, ast.Div)
            bad_w = [w for w in wrappers if w in NOT_IDENTITY]
            unknown_w = [w for w in wrappers if w not in NOT_IDENTITY and w not in IDENTITY]
            if is_quot and not wrappers:
                verdict = True
            elif is_quot and bad_w:
                verdict, why_txt = False, f"the quotient is passed through {bad_w} before it is returned"
            elif is_quot and not unknown_w:
                verdict = True
            facts2 = {'wrappers_around_quotient': wrappers, 'returns_quotient': is_quot}
    if verdict is None:
        rep.undecided('C06.R', 'GeneralNodeHeightTransform._inverse::returns-the-quotient-unchanged', where(g.module, inv), 'the returned value is not cat((quotient, y[..., -1:]), -1) up to naming')
    else:
        rep.check('C06.R', 'GeneralNodeHeightTransform._inverse::returns-the-quotient-unchanged', verdict, where(g.module, inv), facts2,
                  f"GeneralNodeHeightTransform._inverse: {why_txt}; wherever that function is not the identity (ratios near 0 or 1) inverse(forward(x)) differs from x")


def check_algebra(ctx, rep):
    g = ctx.classes.get(f"{TH}.GeneralNodeHeightTransform")
    call = g.resolve('_call')[1]
    x = call.args.args[1].arg
    loops = [n for n in ast.walk(call) if isinstance(n, ast.For) and isinstance(n.target, ast.Tuple) and len(n.target.elts) == 2]
    if len(loops) != 1:
        raise Unsupported(call, 'forward loop not found')
    first, second = (e.id for e in loops[0].target.elts)
    upd = [st for st in loops[0].body if isinstance(st, ast.Assign)][0]
    hname = ast.unparse(upd.targets[0].value)

    def atom(e):
        if isinstance(e, ast.Subscript):
            idx = last_index_expr(e)
            base = ast.unparse(e.value)
            if isinstance(idx, ast.Name):
                role = 'p' if idx.id == first else ('c' if idx.id == second else None)
                if role:
                    if base == hname:
                        return Rat.sym('h_' + role)
                    if base == x:
                        return Rat.sym('r_' + role)
                    return Rat.sym('b_' + role)
        return None
    fwd = ToRat(atom)(upd.value)
    r, hp, b = Rat.sym('r_c'), Rat.sym('h_p'), Rat.sym('b_c')
    rep.check('C06.F', 'GeneralNodeHeightTransform::forward-is-convex-combination', fwd.equals((1 - r) * b + r * hp), where(g.module, upd), {'forward': repr(fwd)},
              "height must be (1−r)·bound + r·parent height: for r in (0,1) the node then lies between its oldest descendant tip and its parent")
    # inverse applied to forward gives r
    inv_expr = (Rat.sym('h_c') - b) / (hp - b)
    comp = inv_expr.subst('h_c', fwd)
    rep.check('C06.F', 'GeneralNodeHeightTransform::inverse∘forward=identity', comp.equals(r), where(g.module, call), {'composition': repr(comp)},
              "substituting the forward update into (h_child − bound)/(h_parent − bound) must give back the ratio")
    # bounds = max of children bounds bottom-up (update_bounds)
    ub = g.resolve('update_bounds')[1]
    ok = False
    for n in ast.walk(ub):
        if isinstance(n, ast.IfExp) and isinstance(n.test, ast.Compare) and isinstance(n.test.ops[0], (ast.Gt, ast.GtE)):
            ok = ast.unparse(n.body) == ast.unparse(n.test.left) and ast.unparse(n.orelse) == ast.unparse(n.test.comparators[0])
    post = any(isinstance(n, ast.For) and 'postorder' in ast.unparse(n.iter) for n in ast.walk(ub))
    rep.check('C06.F', 'GeneralNodeHeightTransform.update_bounds::max-of-children-postorder', ok and post, where(g.module, ub), None,
              "the bound of an internal node must be the larger of its children's bounds, computed in post-order (oldest descendant tip)")
    # the root is kept as-is by forward and inverse
    inv = g.resolve('_inverse')[1]
    y = inv.args.args[1].arg
    root_kept = any(isinstance(n, ast.Subscript) and isinstance(n.value, ast.Name) and n.value.id == y and ast.unparse(last_index_expr(n)) == '-1:' for n in ast.walk(inv))
    clone = any(isinstance(st, ast.Assign) and isinstance(st.value, ast.Call) and method_name(st.value) == 'clone' and isinstance(st.value.func.value, ast.Name)
                and st.value.func.value.id == x for st in call.body)
    rep.check('C06.F', 'GeneralNodeHeightTransform::root-height-passes-through', root_kept and clone, where(g.module, inv), None,
              "the last coordinate is the root height itself in both directions (forward starts from a clone of x, inverse appends y[..., -1:])")
    # time tree: tips at sampling times; node heights = cat(sampling times, internal heights)
    tm = ctx.classes.get(f"{TM}.TimeTreeModel")
    nh = tm.resolve('node_heights', 'getter')[1]
    ok = False
    for n in ast.walk(nh):
        if isinstance(n, ast.Call) and method_name(n) == 'cat' and n.args and isinstance(n.args[0], (ast.Tuple, ast.List)) and len(n.args[0].elts) == 2:
            a, b2 = n.args[0].elts
            ok = 'sampling_times' in ast.unparse(a) and '_internal_heights' in ast.unparse(b2) and len(n.args) > 1 and ast.unparse(n.args[1]) == '-1'
    rep.check('C06.F', 'TimeTreeModel.node_heights::tips-at-sampling-times', ok, where(tm.module, nh), None,
              "node heights must be the sampling times followed by the internal heights along the last axis")


# ---------------------------------------------------------------------------
# C06.S — the shift (height-difference) parameterisation
# ---------------------------------------------------------------------------
def _kw(call, name, pos=None):
    for k in call.keywords:
        if k.arg == name:
            return k.value
    if pos is not None and len(call.args) > pos:
        return call.args[pos]
    return None


def _is_const(e, v):
    if isinstance(e, ast.UnaryOp) and isinstance(e.op, ast.USub) and isinstance(e.operand, ast.Constant):
        return -e.operand.value == v
    return isinstance(e, ast.Constant) and e.value == v


def _cat_last(e):
    """operands of torch.cat((a, b, …), -1), else None"""
    if isinstance(e, ast.Call) and method_name(e) == 'cat' and e.args and isinstance(e.args[0], (ast.Tuple, ast.List)):
        d = _kw(e, 'dim', 1)
        if d is not None and _is_const(d, -1):
            return list(e.args[0].elts)
    return None


def reduction(e, lambdas=None, regime=None):
    """(kind, operands, per_row) for an expression computing the (smooth) maximum of the children heights; None if not recognised"""
    if isinstance(e, ast.Subscript) and isinstance(e.slice, ast.Constant) and e.slice.value == 0:
        r = reduction(e.value, lambdas, regime)
        return r
    if isinstance(e, ast.Attribute) and e.attr == 'values':
        return reduction(e.value, lambdas, regime)
    if isinstance(e, ast.BinOp) and isinstance(e.op, ast.Div):
        r = reduction(e.left, lambdas, regime)
        if r and r[0].startswith('lse*'):
            k = r[0][4:]
            return ('lse', r[1], r[2]) if ast.unparse(e.right) == k else ('lse-unscaled', r[1], r[2])
        return None
    if not isinstance(e, ast.Call):
        return None
    name = method_name(e)
    if name == 'max' and isinstance(e.func, ast.Attribute) and isinstance(e.func.value, ast.Name) and e.func.value.id == 'self' and lambdas is not None:
        lam = lambdas.get(regime)
        if lam is None:
            return None
        arg = lam.args.args[0].arg
        body = copy.deepcopy(lam.body)

        class Sub(ast.NodeTransformer):
            def visit_Name(self, n):
                return copy.deepcopy(e.args[0]) if n.id == arg else n
        return reduction(Sub().visit(body), lambdas, regime)
    if name in ('max', 'maximum') and len(e.args) == 2 and not e.keywords and not isinstance(e.args[1], (ast.Constant, ast.UnaryOp)):
        return ('max', frozenset(ast.unparse(a) for a in e.args), True)
    if name == 'max':
        ops = _cat_last(e.args[0]) if e.args else None
        if ops is None:
            return None
        dim, keep = _kw(e, 'dim', 1), _kw(e, 'keepdim', 2)
        per_row = dim is not None and _is_const(dim, -1) and keep is not None and _is_const(keep, True)
        return ('max', frozenset(ast.unparse(a) for a in ops), per_row)
    if name in ('logsumexp', 'smooth_max'):
        x = e.args[0] if e.args else None
        if name == 'smooth_max':
            ops = _cat_last(x)
            k = ast.unparse(e.args[1]) if len(e.args) > 1 else None
            dim, keep = _kw(e, 'dim', 2), _kw(e, 'keepdim', 3)
            kind = 'lse'
        else:
            dim, keep = _kw(e, 'dim', 1), _kw(e, 'keepdim', 2)
            ops, k = None, None
            if isinstance(x, ast.BinOp) and isinstance(x.op, ast.Mult) and _cat_last(x.left) is not None:
                ops, k = _cat_last(x.left), ast.unparse(x.right)
            else:
                raw = _cat_last(x)
                if raw is not None and all(isinstance(o, ast.BinOp) and isinstance(o.op, ast.Mult) for o in raw) and len({ast.unparse(o.right) for o in raw}) == 1:
                    ops, k = [o.left for o in raw], ast.unparse(raw[0].right)
            kind = 'lse*' + (k or '?')
        if ops is None:
            return None
        per_row = dim is not None and _is_const(dim, -1) and keep is not None and _is_const(keep, True)
        return (kind, frozenset(ast.unparse(a) for a in ops), per_row)
    return None


def _loop_update(loop, rep, d, which):
    """the statement of a tree-walk loop that stores the node's value (`h[node] = …`), with the locals of the loop body substituted into its right-hand side.  A local that is
    defined on two branches of an `if` inside the loop makes the reduction depend on something else than the k regime (on the topology: 'both children are tips'): forward
    and inverse then only agree if they make the same distinction, which is reported — the regimes are the only case distinction the two maps share."""
    import copy
    stores = [st for st in ast.walk(loop) if isinstance(st, ast.Assign) and len(st.targets) == 1 and isinstance(st.targets[0], ast.Subscript) and isinstance(st.targets[0].value, ast.Name)]
    if len(stores) != 1:
        raise Unsupported(loop, f"{len(stores)} stores of a node value in the tree-walk loop")
    local = {}
    for st in ast.walk(loop):
        if isinstance(st, ast.Assign) and len(st.targets) == 1 and isinstance(st.targets[0], ast.Name):
            local.setdefault(st.targets[0].id, []).append(st)
    conditional = sorted(n for n, ds in local.items() if len(ds) > 1)
    upd = copy.deepcopy(stores[0])
    used = {n.id for n in ast.walk(upd.value) if isinstance(n, ast.Name)}
    hit = [n for n in conditional if n in used]
    key = f"DifferenceNodeHeightTransform.{which}::reduction-chosen-by-the-regime-only"
    if hit:
        rep.bad('C06.S', key, where(d.module, local[hit[0]][0]), {'locals_defined_on_two_branches': hit},
                f"DifferenceNodeHeightTransform.{which} computes `{hit[0]}` differently on two branches inside the tree walk (`{norm_text(local[hit[0]][0])[:50]}` / "
                f"`{norm_text(local[hit[0]][1])[:50]}`): the maximum over the children depends on more than the k regime, and the other direction of the transform does not make "
                f"that distinction — inverse(forward(x)) ≠ x where the branches differ")
        raise Unsupported(loop, 'reduction chosen per node')
    rep.ok('C06.S', key, where(d.module, stores[0]), None)

    class Sub(ast.NodeTransformer):
        def visit_Name(self, n):
            if isinstance(n.ctx, ast.Load) and n.id in local and len(local[n.id]) == 1:
                return self.visit(copy.deepcopy(local[n.id][0].value))
            return n
    for _ in range(3):
        upd.value = Sub().visit(upd.value)
    for n in ast.walk(upd):
        for ch in ast.iter_child_nodes(n):
            ch._parent = n
    ast.copy_location(upd, stores[0])
    return upd


def check_shift(ctx, rep):
    d = ctx.classes.get(f"{TH}.DifferenceNodeHeightTransform")
    if d is None:
        raise AnalysisError('DifferenceNodeHeightTransform not found')
    init, call, inv = (d.resolve(n)[1] for n in ('__init__', '_call', '_inverse'))
    # the two regimes of self.max
    lambdas = {}
    regime_test = None
    for st in init.body:
        if isinstance(st, ast.If) and 'self.k' in ast.unparse(st.test):
            regime_test = ast.unparse(st.test)
            for branch, name in ((st.body, 'then'), (st.orelse, 'else')):
                for s2 in branch:
                    if isinstance(s2, ast.Assign) and self_attr(s2.targets[0]) == 'max' and isinstance(s2.value, ast.Lambda):
                        lambdas[name] = s2.value
    if set(lambdas) != {'then', 'else'} or regime_test not in ('self.k <= 0', 'self.k > 0'):
        raise Unsupported(init, 'the two regimes of self.max not recognised')
    hard, smooth = ('then', 'else') if regime_test == 'self.k <= 0' else ('else', 'then')
    # the forward map has two regimes chosen by k (hard / smooth maximum): the inverse must distinguish them too — an inverse written for the hard maximum alone subtracts
    # max(children) from heights that were built with logsumexp(k·children)/k, and the round trip is off by up to log(2)/k
    inv_consults = any(self_attr(x) in ('k', 'max') for x in ast.walk(inv))
    rep.check('C06.S', 'DifferenceNodeHeightTransform._inverse::distinguishes-the-regimes-of-the-forward-map', inv_consults, where(d.module, inv), {'regime_test_of_the_forward_map': regime_test},
              "DifferenceNodeHeightTransform.__init__ chooses a hard or a smooth maximum for the forward map from self.k, but _inverse consults neither self.k nor self.max: it inverts "
              "one of the two regimes only, so for the other one inverse(forward(x)) ≠ x")
    # smooth_max is logsumexp(k·x)/k along the requested axis
    sm = ctx.prog.resolve('torchtree.ops.smooth.smooth_max')
    sm_ok = False
    if sm and sm[0] == 'function':
        f = sm[2]
        ret = [n for n in ast.walk(f) if isinstance(n, ast.Return)]
        a = [x.arg for x in f.args.args]
        sm_ok = len(ret) == 1 and _is_scaled_logsumexp(ret[0].value, a)
    rep.check('C06.S', 'smooth_max::logsumexp(k·x)/k-along-dim', sm_ok, where(sm[1], sm[2]) if sm else '', None, "smooth_max must be logsumexp(k·x, dim, keepdim)/k")
    # forward
    loops = [n for n in ast.walk(call) if isinstance(n, ast.For) and isinstance(n.target, ast.Tuple) and len(n.target.elts) == 3]
    if len(loops) != 1:
        raise Unsupported(call, 'forward loop not found')
    node, left, right = (e.id for e in loops[0].target.elts)
    upd = _loop_update(loops[0], rep, d, '_call')
    hname = ast.unparse(upd.targets[0].value)
    children = frozenset({f"{hname}[{left}]", f"{hname}[{right}]"})
    post = 'postorder' in ast.unparse(loops[0].iter)
    fwd = {}
    xs = None
    if isinstance(upd.value, ast.BinOp) and isinstance(upd.value.op, ast.Add):
        for a, b in ((upd.value.left, upd.value.right), (upd.value.right, upd.value.left)):
            r = {reg: reduction(a, lambdas, reg) for reg in ('then', 'else')}
            if all(r.values()):
                fwd, xs = r, b
    Wf = where(d.module, upd)
    x = call.args.args[1].arg
    xs_ok = xs is not None and _is_own_increment(xs, x, node, call)
    tgt_ok = ast.unparse(upd.targets[0]) == f"{hname}[{node}]"
    for reg, label in ((hard, 'k≤0'), (smooth, 'k>0')):
        r = fwd.get(reg)
        ok = r is not None and r[1] == children and r[2] and r[0] == ('max' if reg == hard else 'lse')
        rep.check('C06.S', f"DifferenceNodeHeightTransform._call::{label}::height=max(children)+increment", ok and xs_ok and tgt_ok and post, Wf,
                  {'reduction': str(r), 'increment': ast.unparse(xs) if xs is not None else None},
                  "node height must be the per-sample (smooth) maximum of its two children plus the node's own increment, children first (post-order)")
    # inverse: one branch per regime
    top = [st for st in inv.body if isinstance(st, ast.If) and 'self.k' in ast.unparse(st.test)]
    if len(top) != 1 or ast.unparse(top[0].test) not in ('self.k > 0', 'self.k <= 0'):
        raise Unsupported(inv, 'inverse regimes not recognised')
    sm_branch, hd_branch = (top[0].body, top[0].orelse) if ast.unparse(top[0].test) == 'self.k > 0' else (top[0].orelse, top[0].body)
    for branch, reg, label in ((hd_branch, hard, 'k≤0'), (sm_branch, smooth, 'k>0')):
        lp = [n for st in branch for n in ast.walk(st) if isinstance(n, ast.For) and isinstance(n.target, ast.Tuple) and len(n.target.elts) == 3]
        if len(lp) != 1:
            rep.bad('C06.S', f"DifferenceNodeHeightTransform._inverse::{label}::increment=height−max(children)", where(d.module, inv), None, 'inverse loop not found in this regime')
            continue
        n2, l2, r2 = (e.id for e in lp[0].target.elts)
        u2 = _loop_update(lp[0], rep, d, '_inverse')
        ok = False
        facts = {'inverse': norm_text(u2)[:160], 'forward_reduction': str(fwd.get(reg))}
        if isinstance(u2.value, ast.BinOp) and isinstance(u2.value.op, ast.Sub) and isinstance(u2.value.left, ast.Subscript):
            h2 = ast.unparse(u2.value.left.value)
            red = reduction(u2.value.right, lambdas, reg)
            facts['inverse_reduction'] = str(red)
            f = fwd.get(reg)
            ok = red is not None and f is not None and red[2] and red[0] == f[0] and red[1] == frozenset({f"{h2}[{l2}]", f"{h2}[{r2}]"}) \
                and ast.unparse(u2.value.left) == f"{h2}[{n2}]" and ast.unparse(u2.targets[0]) == f"{ast.unparse(u2.targets[0].value)}[{n2} - self.taxa_count]"
        rep.check('C06.S', f"DifferenceNodeHeightTransform._inverse::{label}::increment=height−max(children)", ok, where(d.module, u2), facts,
                  "the increment must be the node's height minus the same per-sample (smooth) maximum of its two children that the forward map adds: otherwise "
                  "inverse∘forward is not the identity (for batched inputs a maximum without a dim mixes the samples)")
    # both directions use sampling times for the tips and concatenate along the last axis
    for fn, nm in ((call, '_call'), (inv, '_inverse')):
        st = [n for n in ast.walk(fn) if isinstance(n, ast.Call) and method_name(n) == 'split' and 'sampling_times' in ast.unparse(n)]
        ok = bool(st) and all(ast.unparse(n).replace(' ', '').endswith('.split(1,-1)') for n in st)
        ret = [n for n in ast.walk(fn) if isinstance(n, ast.Return)]
        ok = ok and len(ret) == 1 and _cat_last(ret[0].value) is None and isinstance(ret[0].value, ast.Call) and method_name(ret[0].value) == 'cat' \
            and _is_const(_kw(ret[0].value, 'dim', 1), -1)
        rep.check('C06.S', f"DifferenceNodeHeightTransform.{nm}::tips-at-sampling-times-last-axis", ok, where(d.module, fn), None,
                  "tip heights must be the sampling times split along the last axis and results concatenated along the last axis")


def check_rebuilds_keep_the_configuration(ctx, rep):
    """C06.S (addition) — a transform that is rebuilt after construction (`self.transform = type(self.transform)(self)` when the model moves to another device) is the
    transform that was configured: every construction of that attribute in `__init__` passes exactly the arguments the rebuild passes.  A constructor argument that only
    `__init__` knows (the temperature of the smooth maximum) is lost by the rebuild: the forward map silently changes regime and the inverse no longer matches values made
    before."""
    n = 0
    for mname in (TM,):
        m = ctx.prog.module(mname)
        for cname, cnode in m.classes.items():
            init = next((b for b in cnode.body if isinstance(b, ast.FunctionDef) and b.name == '__init__'), None)
            if init is None:
                continue
            built = {}
            for st in ast.walk(init):
                if isinstance(st, ast.Assign) and isinstance(st.value, ast.Call) and any(self_attr(t) for t in st.targets) and isinstance(st.value.func, ast.Name) and st.value.func.id[:1].isupper():
                    built.setdefault(next(self_attr(t) for t in st.targets if self_attr(t)), []).append(st.value)
            for fn in [b for b in cnode.body if isinstance(b, ast.FunctionDef) and b.name != '__init__']:
                for st in ast.walk(fn):
                    if not (isinstance(st, ast.Assign) and isinstance(st.value, ast.Call) and any(self_attr(t) in built for t in st.targets)):
                        continue
                    attr = next(self_attr(t) for t in st.targets if self_attr(t) in built)
                    c = st.value
                    dynamic = isinstance(c.func, ast.Call) and isinstance(c.func.func, ast.Name) and c.func.func.id == 'type'
                    named = isinstance(c.func, ast.Name) and c.func.id[:1].isupper()
                    if not (dynamic or named):
                        continue
                    n += 1
                    sig = lambda k: (len(k.args), tuple(sorted(q.arg or '**' for q in k.keywords)))
                    same = [b for b in built[attr] if dynamic or b.func.id == c.func.id]
                    lost = [b for b in same if sig(b) != sig(c)]
                    rep.check('C06.S', f"{cname}.{fn.name}::self.{attr}-rebuilt-as-configured", not lost, where(m, st),
                              {'rebuild': norm_text(c)[:60], 'constructions': [norm_text(b)[:60] for b in same]},
                              f"{cname}.{fn.name} rebuilds self.{attr} with `{norm_text(c)[:50]}` while __init__ builds it with `{norm_text(lost[0])[:60] if lost else ''}`: the arguments "
                              f"only the constructor passes are back at their defaults after the rebuild (the smooth maximum becomes the hard one), so heights computed before and after "
                              f"differ and inverse(forward(x)) ≠ x for values made earlier")
    if n < 2:
        rep.incomplete('C06.S', 'rebuilds', '', f"only {n} rebuilds of a constructor-built attribute found in the tree models (cuda / cpu of ReparameterizedTimeTreeModel expected)")


def run(ctx, rep):
    from sa import callbind
    callbind.run_for(ctx, rep, 'C06', 8)
    from sa import dtypes
    rep.rule('C06.T', "times / dates given as Python numbers enter the computation at the requested precision: a tensor built from them without a dtype (torch's default float32) is neither computed with nor converted afterwards")
    dtypes.check_default_precision(ctx, rep, 'C06.T', ['torchtree.evolution.tree_model'], 1)
    dtypes.check_work_buffers(ctx, rep, 'C06.T', ['torchtree.evolution.tree_model', 'torchtree.evolution.tree_height_transform'])
    rep.explanation = (
        "C06.D: in every class whose constructor chooses an attribute among several constructor calls, stores to that attribute elsewhere must not "
        "install a fixed member of the set (the ratio/shift parameterisation must survive cuda()/cpu()).  C06.R: writer/reader layout check of the "
        "pre-order table across its six consumers: rows are (parent, child); branch length = parent − child; forward loop unpacks (parent, child); "
        "inverse divides child-indexed by parent-indexed differences with the child's bound.  C06.F: the forward update as a polynomial is the convex "
        "combination (1−r)·b + r·h_p and the inverse expression composed with it is the identity; bounds are the post-order max of children."
    )
    rep.rule('C06.D', "moving the model between devices does not change which parameterisation is in force")
    rep.rule('C06.R', "parent/child role agreement between the pre-order table and all of its consumers")
    rep.rule('C06.F', "ratio transform: forward is a convex combination of bound and parent height; inverse∘forward = identity; bounds = max over children; tips at sampling times")
    rep.rule('C06.S', "shift transform: height = per-sample (smooth) max of children + increment; the inverse subtracts the same reduction in each k regime")
    rep.not_decided += ["validity for all topologies numerically", "batching (see C07.I cat-along-last-axis)", "tip-date conventions"]
    for f, rule in ((check_device_moves, 'C06.D'), (check_roles, 'C06.R'), (check_algebra, 'C06.F'), (check_shift, 'C06.S')):
        try:
            f(ctx, rep)
        except Unsupported as u:
            rep.undecided(rule, f.__name__, f"line {getattr(u.node, 'lineno', 0)}", str(u))
    # C06.H — the heights / branch lengths that are served belong to the current parameter values
    from props import c11
    from sa.report import RuleProxy
    rep.rule('C06.H', "node heights and branch lengths served from a cache belong to the current parameters: the height transforms keep torch's identity-keyed cache off, "
                      "and a dirty flag shared by several caches of a tree model is cleared only where all of them are refreshed")
    c11.check_transform_cache(ctx, RuleProxy(rep, 'C06.H', 'transform-cache::'), modules={TH}, floor=2)
    tree_base = ctx.classes.get(f"{TM}.TimeTreeModel")
    n = c11.check_shared_flags(ctx, RuleProxy(rep, 'C06.H', 'flags::'), only=lambda c: c is tree_base or c.has_base(tree_base.qualname))
    if n < 4:
        rep.incomplete('C06.H', 'flags::*', '', f"only {n} flag-clearing sites found in the time-tree models")
    # the ratio / root-height parameters of a tree model built from JSON are one concatenated parameter: an assignment through it (or through a view) reaches the tree model
    # only if the concatenation / view kinds forward every event and their setters notify (C11.H / C11.W rules on core/parameter.py)
    from sa.members import Kinds
    kinds_ = Kinds(ctx.classes)
    for q in ('torchtree.core.parameter.CatParameter', 'torchtree.core.parameter.ViewParameter', 'torchtree.core.parameter.TransformedParameter'):
        cls_ = ctx.classes.get(q)
        c11.check_handlers(ctx, RuleProxy(rep, 'C06.H', 'handlers::'), kinds_, cls_)
        c11.check_setters(ctx, RuleProxy(rep, 'C06.H', 'setters::'), cls_)
    # the time-tree models themselves mark their heights / branch lengths outdated on EVERY event (no early return while another flag is still up), and the
    # reparameterised model recomputes its heights from the current parameter before it hands anything out (C11.H on the tree models, C07.C caller rule)
    for cls_ in sorted(ctx.classes.classes.values(), key=lambda c: c.qualname):
        if cls_.module.name == TM and not cls_.is_abstract() and cls_.has_base('torchtree.core.parametric.Parametric'):
            c11.check_handlers(ctx, RuleProxy(rep, 'C06.H', 'handlers::'), kinds_, cls_)
    from props import c07 as _c07
    try:
        _c07.check_callers(ctx, RuleProxy(rep, 'C06.H', 'refresh::'))
    except Unsupported as u:
        rep.undecided('C06.H', 'refresh::check_callers', '', str(u))
    # tips sit at *their* sampling time: sampling dates are stored in Taxa order, so a leaf's index must be the position of its taxon in that list
    from props import c02
    c02.check_leaf_index(ctx, rep, 'C06.F', 'tips::')
    # a parent is at least as old as EACH of its children: nothing in the tree modules looks at one child only (C02.N child-symmetry rule)
    c02.check_child_symmetry(ctx, RuleProxy(rep, 'C06.F', 'children::'))
    check_rebuilds_keep_the_configuration(ctx, rep)
    rep.rule('C06.C', "every conversion of sampling dates into tip heights follows one convention in the four sign cases of (earliest, most recent) date: the date itself when the earliest is zero, most recent − date otherwise")
    check_date_conventions(ctx, rep)
    check_dates_stay_with_their_taxon(ctx, rep)


# ---------------------------------------------------------------------------
# C06.C — date conventions: every place that turns sampling dates into heights follows one convention
# ---------------------------------------------------------------------------
def _is_scaled_logsumexp(v, a):
    """`torch.logsumexp(x * k, dim, keepdim) / k` in any of its spellings (operands of the product in either order, method or function form, positional or keyword dim / keepdim)"""
    x, k, dim, keep = a[:4]
    if not (isinstance(v, ast.BinOp) and isinstance(v.op, ast.Div) and isinstance(v.right, ast.Name) and v.right.id == k and isinstance(v.left, ast.Call)):
        return False
    c = v.left
    fn_form = ast.unparse(c.func) == 'torch.logsumexp'
    meth_form = isinstance(c.func, ast.Attribute) and c.func.attr == 'logsumexp' and not fn_form
    if not (fn_form or meth_form):
        return False
    operand = (c.args[0] if c.args else None) if fn_form else c.func.value
    rest = list(c.args[1:]) if fn_form else list(c.args)
    kw = {q.arg: q.value for q in c.keywords}
    d = rest[0] if rest else kw.get('dim')
    kd = rest[1] if len(rest) > 1 else kw.get('keepdim')
    prod = isinstance(operand, ast.BinOp) and isinstance(operand.op, ast.Mult) and {ast.unparse(operand.left), ast.unparse(operand.right)} == {x, k}
    return bool(prod) and d is not None and ast.unparse(d) == dim and kd is not None and ast.unparse(kd) == keep


def _is_own_increment(xs, x, node, fn):
    """the increment added to a node's height is the node's own entry of x, with its axis kept: `x[..., i:i+1]` or `x[..., i].unsqueeze(-1)` with i = node − taxa_count"""
    from fractions import Fraction
    from sa.util import linear_in, local_assignments
    defs = local_assignments(fn)
    sym = {node: 'node', 'self.taxa_count': 'T'}
    want = {'node': Fraction(1), 'T': Fraction(-1)}

    def clean(v):
        return None if v is None else {k_: c for k_, c in v.items() if c != 0}
    if isinstance(xs, ast.Call) and isinstance(xs.func, ast.Attribute) and xs.func.attr == 'unsqueeze' and len(xs.args) == 1 and ast.unparse(xs.args[0]) == '-1':
        inner = xs.func.value
        if isinstance(inner, ast.Subscript) and isinstance(inner.value, ast.Name) and inner.value.id == x and isinstance(inner.slice, ast.Tuple) and len(inner.slice.elts) == 2 \
                and isinstance(inner.slice.elts[0], ast.Constant) and inner.slice.elts[0].value is Ellipsis and not isinstance(inner.slice.elts[1], ast.Slice):
            return clean(linear_in(inner.slice.elts[1], sym, defs)) == want
        return False
    if isinstance(xs, ast.Subscript) and isinstance(xs.value, ast.Name) and xs.value.id == x and isinstance(xs.slice, ast.Tuple) and len(xs.slice.elts) == 2 \
            and isinstance(xs.slice.elts[0], ast.Constant) and xs.slice.elts[0].value is Ellipsis and isinstance(xs.slice.elts[1], ast.Slice):
        sl = xs.slice.elts[1]
        if sl.lower is None or sl.upper is None or sl.step is not None:
            return False
        lo, hi = clean(linear_in(sl.lower, sym, defs)), clean(linear_in(sl.upper, sym, defs))
        return lo == want and hi == {**want, 1: Fraction(1)}
    return False


def date_convention_table(fn: ast.FunctionDef):
    """{(min_is_zero, max_is_zero): set of formula classes stored as a tip height}, by partial evaluation of the tests on min(dates) / max(dates) for the four sign
    cases.  Formula classes: 'date' (the date itself), 'max-date' (most recent date minus the date), 'zero'."""
    defs = {}
    for st in ast.walk(fn):
        if isinstance(st, ast.Assign) and len(st.targets) == 1 and isinstance(st.targets[0], ast.Name) and isinstance(st.value, ast.Call) and isinstance(st.value.func, ast.Name) \
                and st.value.func.id in ('max', 'min') and len(st.value.args) == 1:
            defs[st.targets[0].id] = st.value.func.id

    def which(e):
        if isinstance(e, ast.Name) and e.id in defs:
            return defs[e.id]
        if isinstance(e, ast.Call) and isinstance(e.func, ast.Name) and e.func.id in ('max', 'min') and len(e.args) == 1:
            return e.func.id
        # tensor forms: dates.max() / torch.max(dates) / dates.amin()
        if isinstance(e, ast.Call) and isinstance(e.func, ast.Attribute) and e.func.attr in ('max', 'min', 'amax', 'amin') and len(e.args) <= 1:
            return 'max' if 'max' in e.func.attr else 'min'
        return None

    def any_zero(t):
        """torch.any(dates == 0) / (dates == 0).any(): true as soon as SOME date is zero — the earliest or the most recent one"""
        inner = None
        if isinstance(t, ast.Call) and isinstance(t.func, ast.Attribute) and t.func.attr == 'any':
            inner = t.args[0] if (isinstance(t.func.value, ast.Name) and t.func.value.id == 'torch' and t.args) else t.func.value
        if isinstance(inner, ast.Compare) and len(inner.ops) == 1 and isinstance(inner.ops[0], ast.Eq) and isinstance(inner.comparators[0], ast.Constant) and inner.comparators[0].value in (0, 0.0):
            return True
        return False

    def test(t, case):
        if isinstance(t, ast.BoolOp):
            vals = [test(v, case) for v in t.values]
            return all(vals) if isinstance(t.op, ast.And) else any(vals)
        if isinstance(t, ast.UnaryOp) and isinstance(t.op, ast.Not):
            return not test(t.operand, case)
        if any_zero(t):
            return case[0] or case[1]
        if isinstance(t, ast.Compare) and len(t.ops) == 1 and isinstance(t.comparators[0], ast.Constant) and t.comparators[0].value in (0, 0.0) and which(t.left):
            zero = case[0] if which(t.left) == 'min' else case[1]
            if isinstance(t.ops[0], ast.Eq):
                return zero
            if isinstance(t.ops[0], ast.NotEq):
                return not zero
        raise Unsupported(t, f"test {ast.unparse(t)} is not a comparison of min / max of the dates with zero")

    delegated = set()      # locals that hold the result of another function (a conversion done elsewhere and decided there)
    for st in ast.walk(fn):
        if isinstance(st, ast.Assign) and len(st.targets) == 1 and isinstance(st.targets[0], ast.Name) and isinstance(st.value, ast.Call) \
                and not (isinstance(st.value.func, ast.Name) and st.value.func.id in ('max', 'min', 'list', 'tuple', 'float', 'len', 'sorted')) \
                and not (dotted_name(st.value.func) or '').split('.')[-1] in ('tensor', 'as_tensor', 'max', 'min', 'amax', 'amin'):
            delegated.add(st.targets[0].id)

    def classify(e):
        if isinstance(e, ast.Constant) and e.value in (0, 0.0):
            return 'zero'
        base = e
        while isinstance(base, ast.Subscript):
            base = base.value
        if isinstance(base, ast.Name) and base.id in delegated:
            return None
        for x in ast.walk(e):
            if isinstance(x, ast.BinOp) and isinstance(x.op, ast.Sub) and which(x.left) == 'max':
                return 'max-date'
        if isinstance(e, (ast.ListComp, ast.GeneratorExp)):
            return classify(e.elt)
        if isinstance(e, ast.BinOp) and isinstance(e.op, ast.Mult) and isinstance(e.left, ast.List) and len(e.left.elts) == 1:
            return classify(e.left.elts[0])
        if isinstance(e, ast.Call) and isinstance(e.func, ast.Name) and e.func.id in ('list', 'tuple', 'float') and len(e.args) == 1:
            return classify(e.args[0])
        if any(isinstance(x, (ast.Subscript, ast.Name, ast.Attribute)) for x in ast.walk(e)) and not any(isinstance(x, ast.BinOp) for x in ast.walk(e)):
            return 'date'
        raise Unsupported(e, f"tip height `{ast.unparse(e)[:40]}` is neither the date, max − date nor zero")

    def is_height_store(st):
        if isinstance(st, ast.Return) and st.value is not None:
            v = st.value
            listy = isinstance(v, (ast.ListComp, ast.List)) or (isinstance(v, ast.Call) and isinstance(v.func, ast.Name) and v.func.id in ('list', 'tuple')) \
                or (isinstance(v, ast.BinOp) and isinstance(v.op, ast.Mult) and isinstance(v.left, ast.List))
            return v if listy else None
        if isinstance(st, ast.Assign) and len(st.targets) == 1:
            t = st.targets[0]
            if isinstance(t, ast.Attribute) and t.attr in ('date', 'sampling_times'):
                v_ = st.value
                while isinstance(v_, ast.Call) and (dotted_name(v_.func) or '').endswith('tensor') and v_.args:
                    v_ = v_.args[0]
                if isinstance(v_, ast.Name) and 'height' in v_.id:
                    return None          # a list filled element by element above: those stores are the height stores
                return v_
            if isinstance(t, ast.Subscript) and isinstance(t.value, ast.Name) and 'height' in t.value.id:
                return st.value
        return None

    params = {a.arg for a in fn.args.args + fn.args.kwonlyargs}
    consulted = [False]

    def run(stmts, case, out):
        for st in stmts:
            if isinstance(st, ast.If) and isinstance(st.test, ast.Name) and st.test.id in params:
                # a flag of the caller (`heterochronous`): the branch in which the dates are looked at is the conversion; the other one is the caller's declaration
                for blk in (st.body, st.orelse):
                    sub = set()
                    before = consulted[0]
                    consulted[0] = False
                    run(blk, case, sub)
                    if consulted[0]:
                        out |= sub
                    consulted[0] = before or consulted[0]
            elif isinstance(st, ast.If):
                consulted[0] = True
                run(st.body if test(st.test, case) else st.orelse, case, out)
            elif isinstance(st, (ast.For, ast.With)):
                run(st.body, case, out)
            else:
                v = is_height_store(st)
                if v is not None:
                    c_ = classify(v)
                    if c_ is not None:
                        out.add(c_)
    table = {}
    for case in ((True, True), (True, False), (False, True), (False, False)):
        out = set()
        run(fn.body, case, out)
        table[case] = out
    return table


def check_date_conventions(ctx, rep):
    """tips sit at `most recent date − date` (dates are calendar-like) unless the earliest date is zero (dates are already ages).  Every function of the tree models that
    converts dates — the heights given to the nodes of a parsed tree and the sampling times of a time tree — must give the same answer in the four sign cases; in
    particular dates that are all ≤ 0 with the most recent one exactly 0 are heterochronous (height = −date), not 'all zero'."""
    m = ctx.prog.module('torchtree.evolution.tree_model')
    def looks_at_dates(fn_):
        for c in ast.walk(fn_):
            if isinstance(c, ast.Call) and isinstance(c.func, ast.Name) and c.func.id in ('max', 'min') and c.args and 'date' in ast.unparse(c.args[0]):
                return True
            if isinstance(c, ast.Call) and isinstance(c.func, ast.Attribute) and c.func.attr in ('max', 'min', 'amax', 'amin', 'any') and 'date' in ast.unparse(c):
                return True
        return False
    fns = []
    for name, fn in m.functions.items():
        if looks_at_dates(fn):
            fns.append((name, fn))
    for cname, cnode in m.classes.items():
        for b in cnode.body:
            if isinstance(b, ast.FunctionDef) and looks_at_dates(b):
                fns.append((f"{cname}.{b.name}", b))
    if len(fns) < 2:
        rep.incomplete('C06.C', '*', '', f"only {len(fns)} date-to-height conversions found in tree_model.py")
    want = {(True, True): {'date', 'zero', 'max-date'}, (True, False): {'date'}, (False, True): {'max-date'}, (False, False): {'max-date'}}
    label = {(True, True): 'all dates zero', (True, False): 'earliest date zero (ages)', (False, True): 'dates ≤ 0 with the most recent one exactly 0', (False, False): 'calendar dates'}
    for name, fn in fns:
        try:
            table = date_convention_table(fn)
        except Unsupported as u:
            rep.undecided('C06.C', f"{name}::date-convention", where(m, u.node or fn), str(u))
            continue
        if not any(table.values()):
            continue        # reads min / max of dates but stores no tip height (a caller of the conversion)
        for case in sorted(want):
            got = table[case]
            rep.check('C06.C', f"{name}::{label[case]}", bool(got) and got <= want[case], where(m, fn), {'stored_as_tip_height': sorted(got), 'expected': sorted(want[case])},
                      f"{name}: for {label[case]} the tips are given {sorted(got)} as height; the convention (and the sibling conversion) is {sorted(want[case])} — tips then sit at "
                      f"heights that do not match their sampling dates, and heights initialised from a tree are inconsistent with the sampling times of the model")


ZIP_POSITIVE = """
def taxa_to_json(taxa):
    taxon_list = [{"id": taxon} for taxon in sorted(taxa)]
    for taxon, date in zip(taxon_list, taxa.values()):
        taxon["attributes"] = {"date": date}
    ok = [(k, v) for k, v in zip(taxa.keys(), taxa.values())]
    return taxon_list
"""


def reordered_zip_with_values(fn):
    """`zip(A, D.values())` where A was built from `sorted(D)` (or reversed / another ordering of D's keys): the i-th element of A is the i-th SMALLEST key, the i-th value belongs
    to the i-th INSERTED key — every taxon gets another taxon's date unless the dictionary happened to be filled in sorted order"""
    out = []
    assigns = {}
    for st in ast.walk(fn):
        if isinstance(st, ast.Assign) and len(st.targets) == 1 and isinstance(st.targets[0], ast.Name):
            assigns.setdefault(st.targets[0].id, []).append(st.value)

    def sorted_of(e, depth=0):
        """name of the dictionary D if e is derived from sorted(D) / sorted(D.keys()) / reversed(...)"""
        for x in ast.walk(e):
            if isinstance(x, ast.Call) and isinstance(x.func, ast.Name) and x.func.id in ('sorted', 'reversed') and x.args:
                a = x.args[0]
                if isinstance(a, ast.Call) and isinstance(a.func, ast.Attribute) and a.func.attr == 'keys':
                    a = a.func.value
                if isinstance(a, ast.Name):
                    return a.id
        if isinstance(e, ast.Name) and e.id in assigns and depth < 3:
            for v in assigns[e.id]:
                r = sorted_of(v, depth + 1)
                if r:
                    return r
        return None
    for c in ast.walk(fn):
        if isinstance(c, ast.Call) and isinstance(c.func, ast.Name) and c.func.id == 'zip' and len(c.args) >= 2:
            vals = [a.func.value.id for a in c.args if isinstance(a, ast.Call) and isinstance(a.func, ast.Attribute) and a.func.attr in ('values', 'items') and isinstance(a.func.value, ast.Name)]
            for a in c.args:
                d = sorted_of(a)
                if d and d in vals:
                    out.append((c, d))
    return out


def check_dates_stay_with_their_taxon(ctx, rep):
    t = ast.parse(ZIP_POSITIVE).body[0]
    if len(reordered_zip_with_values(t)) != 1:
        raise AnalysisError('C06.F self-check: reordered zip of the embedded example not recognised')
    n = 0
    for mname, m in sorted(ctx.prog.modules.items()):
        if not (mname.startswith('torchtree.evolution.tree_model') or mname in ('torchtree.evolution.taxa', 'torchtree.evolution.alignment')):
            continue
        for fn in ast.walk(m.tree):
            if not isinstance(fn, ast.FunctionDef):
                continue
            n += 1
            for c, d in reordered_zip_with_values(fn):
                rep.bad('C06.F', f"{mname.replace('torchtree.', '')}::{fn.name}::{norm_text(c)[:50]}::dates-stay-with-their-taxon", where(m, c), {'dictionary': d},
                        f"{fn.name}: `{norm_text(c)[:60]}` pairs a SORTED list of the keys of `{d}` with `{d}.values()` in insertion order: unless `{d}` was filled in sorted order every "
                        f"taxon is given another taxon's sampling date, and the tips sit at the wrong heights")
    rep.ok('C06.F', 'tree-models::taxon-and-date-are-paired-by-key', '', {'functions_scanned': n})
