"""Re-run the checks against every seeded change on scratch copies (no demo / suite re-run) and refresh meta.json:
detected (own property check exits 1 with a VIOLATION), check_reports, detected_by (other properties whose check reports it), status.
Usage: /venv/bin/python tools/recheck_seeds.py [seed-id ...]"""
import glob, json, os, shutil, subprocess, sys, tempfile
from concurrent.futures import ThreadPoolExecutor
HERE = os.path.dirname(os.path.dirname(os.path.abspath(__file__)))
PROPS = [f"C{i:02d}" for i in range(1, 21)]


def run(seed):
    mp = os.path.join(HERE, 'seeded', seed, 'meta.json')
    meta = json.load(open(mp))
    if meta.get('status') in ('obsolete', 'outside the stated property'):
        return seed, meta.get('status')
    d = tempfile.mkdtemp(prefix='verif-rs-', dir='/dev/shm')
    try:
        shutil.copytree('/repo/torchtree', os.path.join(d, 'torchtree'), ignore=shutil.ignore_patterns('__pycache__'))
        patch = os.path.join(HERE, 'seeded', seed, 'patch.diff')
        r = subprocess.run(['patch', '-p1', '-s', '-i', patch], cwd=d, capture_output=True, text=True)
        if r.returncode != 0:
            meta['status'] = 'patch no longer applies'
            json.dump(meta, open(mp, 'w'), indent=1)
            return seed, 'patch failed'
        own = meta['property']
        touches_cli = 'torchtree/cli/' in open(patch).read()
        res = {}
        for p in [own] + [q for q in PROPS if q != own]:
            if p == 'C19' and not touches_cli and own != 'C19':
                continue
            r = subprocess.run(['/venv/bin/python', os.path.join(HERE, 'check.py'), p, '--repo', d, '--no-evidence', '--out', d], capture_output=True, text=True)
            lines = [l.strip() for l in r.stdout.splitlines() if ': [C' in l]
            res[p] = (r.returncode, lines)
            if p == own and r.returncode == 1:
                break           # reported by its own property: no need to look further
        rc, lines = res[own]
        meta['check_exit_with_change'] = rc
        meta['check_reports'] = [l[:400] for l in lines[:6]]
        meta['detected'] = rc == 1
        others = sorted(p for p, (c, l) in res.items() if p != own and c == 1)
        meta['detected_by'] = ([own] if rc == 1 else []) + others
        if rc == 1:
            meta.pop('status', None)
        elif others:
            meta['status'] = 'reported by ' + ', '.join(others)
            meta['other_reports'] = {p: res[p][1][:2] for p in others}
        elif rc == 2:
            meta['status'] = 'fail-closed (exit 2: the check refuses to pass, no violation named)'
        elif meta.get('status') != 'missed':
            meta['status'] = 'not detected'
        json.dump(meta, open(mp, 'w'), indent=1)
        return seed, ('detected' if rc == 1 else meta['status'])
    finally:
        shutil.rmtree(d, ignore_errors=True)


seeds = sys.argv[1:] or [os.path.basename(os.path.dirname(m)) for m in sorted(glob.glob(os.path.join(HERE, 'seeded', '*', 'meta.json')))]
with ThreadPoolExecutor(8) as ex:
    out = list(ex.map(run, seeds))
bad = [(s, r) for s, r in out if r != 'detected']
print(len(out), 'seeds;', len(out) - len(bad), 'reported by their own property check')
for s, r in bad:
    print(' ', s, ':', r)
