"""C18 — a crash while writing a checkpoint never loses the last good checkpoint.

File typestate analysis of the checkpoint writer.  The function body is abstractly
interpreted over the state  {file-name suffix -> absent | complete | partial}; every
intermediate state is a crash point; the reachable set is closed under "restart after a
crash" (the next call starts from the crashed state).  Flag arguments are taken from the
resolved call sites.
"""
from __future__ import annotations

import ast
import itertools
from typing import Dict, FrozenSet, List, Optional, Set, Tuple

from sa.loader import AnalysisError, Unsupported, dotted_name, norm_text
from sa.report import where
from sa.util import bind_args, const_of, defaults_of, enclosing_class, enclosing_function, find_calls

A, C, P = 'absent', 'complete', 'partial'
_PROG = None
SIBLINGS = ('', '.old', '.new')

WRITER = 'torchtree.core.parameter_utils'
WRITER_FN = 'save_parameters'

FS_MODULES = ('os', 'shutil', 'pathlib', 'tempfile', 'io')
NOOP_CALLS = {'os.fsync', 'os.sync', 'os.path.join', 'os.path.dirname', 'os.path.basename', 'os.path.abspath',
              'os.getpid', 'os.fspath', 'os.path.splitext'}
EXISTS_CALLS = {'os.path.lexists', 'os.path.exists', 'os.path.isfile'}
RENAME_CALLS = {'os.rename', 'os.replace', 'shutil.move'}
REMOVE_CALLS = {'os.remove', 'os.unlink'}


class FS:
    """immutable abstract file-system state: suffix -> state (default absent)."""

    __slots__ = ('items',)

    def __init__(self, items=()):
        self.items = tuple(sorted((k, v) for k, v in items if v != A))

    def get(self, k):
        for kk, v in self.items:
            if kk == k:
                return v
        return A

    def set(self, k, v):
        d = dict(self.items)
        d[k] = v
        return FS(d.items())

    def __hash__(self):
        return hash(self.items)

    def __eq__(self, o):
        return self.items == o.items

    def __repr__(self):
        return '{' + ', '.join(f"name{k}={v}" for k, v in self.items) + '}' if self.items else '{}'

    def show(self):
        return {('name' + k): v for k, v in self.items}


class Interp:
    """abstract interpreter of a function body over the file typestate.

    mode 'writer': the first parameter of `fn` is the checkpoint path (key '').
    mode 'caller': `self.<a>` for a in root_attrs is the checkpoint path; calls to the writer
    function are inlined (depth 1) with their path argument and constant flags bound."""

    def __init__(self, fn: ast.FunctionDef, module, flags: Dict[str, object], root_attrs=(), writer=None, path_binding=None):
        self.fn = fn
        self.module = module
        self.flags = flags  # param name -> True/False/None(unknown)
        self.root_attrs = set(root_attrs)
        self.writer = writer  # (module, FunctionDef) to inline in caller mode
        args = fn.args.args
        self.path_param = None
        if not self.root_attrs and path_binding is None:
            if not args:
                raise Unsupported(fn, 'writer has no path parameter')
            self.path_param = args[0].arg
        self.path_binding = path_binding or {}
        self.visited: Dict[FS, Tuple[str, int]] = {}  # crash states -> (effect text, line)
        self.effects_seen: Set[str] = set()
        self.tmp_count = 0
        self.write_exceptions = True     # model death by an exception raised while writing (unwinding runs finally blocks)

    # ---- path expressions -------------------------------------------
    def path_key(self, e: ast.AST, env) -> str:
        if isinstance(e, ast.Name):
            if e.id == self.path_param:
                return ''
            if e.id in self.path_binding:
                return self.path_binding[e.id]
            if e.id in env and isinstance(env[e.id], str):
                return env[e.id]
            raise Unsupported(e, f"path variable {e.id} not understood")
        if isinstance(e, ast.Attribute):
            if isinstance(e.value, ast.Name) and e.value.id == 'self' and e.attr in self.root_attrs:
                return ''
            if e.attr == 'name' and isinstance(e.value, ast.Name) and ('@' + e.value.id) in env:
                return env['@' + e.value.id]  # fp.name of `with open(X) as fp`
        if isinstance(e, ast.BinOp) and isinstance(e.op, ast.Add):
            if isinstance(e.right, ast.Constant) and isinstance(e.right.value, str):
                return self.path_key(e.left, env) + e.right.value
        if isinstance(e, ast.JoinedStr):
            key = None
            out = ''
            for v in e.values:
                if isinstance(v, ast.FormattedValue):
                    if key is not None or out:
                        raise Unsupported(e, 'f-string path with prefix')
                    key = self.path_key(v.value, env)
                elif isinstance(v, ast.Constant):
                    out += v.value
            if key is None:
                raise Unsupported(e, 'constant path')
            return key + out
        if isinstance(e, ast.Call) and dotted_name(e.func) in ('str', 'os.fspath', 'os.path.abspath', 'pathlib.Path', 'Path') and e.args:
            return self.path_key(e.args[0], env)
        if isinstance(e, ast.Call) and isinstance(e.func, ast.Attribute) and e.func.attr == 'replace' and len(e.args) == 2 and all(isinstance(a, (ast.Constant, ast.JoinedStr)) for a in e.args):
            # str.replace(old, new) returns the string itself when `old` does not occur in it: for an arbitrary checkpoint name the result may be that very name
            return self.path_key(e.func.value, env)
        raise Unsupported(e, f"path expression {ast.unparse(e)} not understood")

    def is_path_expr(self, e, env) -> bool:
        try:
            self.path_key(e, env)
            return True
        except Unsupported:
            return False

    # ---- conditions -----------------------------------------------------
    def eval_cond(self, e: ast.AST, fs: FS, env) -> Set[bool]:
        if isinstance(e, ast.BoolOp):
            vals = [self.eval_cond(v, fs, env) for v in e.values]
            out: Set[bool] = set()
            for combo in itertools.product(*vals):
                out.add(all(combo) if isinstance(e.op, ast.And) else any(combo))
            return out
        if isinstance(e, ast.UnaryOp) and isinstance(e.op, ast.Not):
            return {not v for v in self.eval_cond(e.operand, fs, env)}
        if isinstance(e, ast.Constant):
            return {bool(e.value)}
        if isinstance(e, ast.Name):
            if isinstance(env.get(e.id), str) and env[e.id].startswith('#'):
                return {'#True': {True}, '#False': {False}}.get(env[e.id], {True, False})
            if e.id in self.flags and self.flags[e.id] is not None:
                return {bool(self.flags[e.id])}
            return {True, False}
        if isinstance(e, ast.Constant):
            return {bool(e.value)}
        if isinstance(e, ast.Call):
            dn = dotted_name(e.func)
            if dn in EXISTS_CALLS and e.args:
                return {fs.get(self.path_key(e.args[0], env)) != A}
            if dn in ('os.access', 'os.path.samefile', 'os.path.getsize', 'os.path.getmtime', 'os.path.islink', 'os.path.ismount'):
                return {True, False}          # a query about permissions / metadata: no effect, either answer
            if self._has_fs_call(e):
                raise Unsupported(e, 'file-system call in condition not understood')
        return {True, False}

    # ---- execution --------------------------------------------------------
    def visit(self, fs: FS, stmt, what: str):
        if fs not in self.visited:
            self.visited[fs] = (what, getattr(stmt, 'lineno', 0))

    def _is_writer_call(self, n) -> bool:
        if self.writer is None or not isinstance(n, ast.Call):
            return False
        dn = dotted_name(n.func) or ''
        return dn.split('.')[-1] == self.writer[1].name

    def _has_fs_call(self, node) -> bool:
        for n in ast.walk(node):
            if isinstance(n, ast.Call):
                dn = dotted_name(n.func) or ''
                if self._is_writer_call(n):
                    return True
                if dn == 'open' or dn.split('.')[0] in FS_MODULES and dn not in NOOP_CALLS and dn not in EXISTS_CALLS:
                    return True
                if isinstance(n.func, ast.Attribute) and n.func.attr in (
                    'write_text', 'write_bytes', 'unlink', 'rename', 'replace', 'touch', 'truncate'
                ):
                    return True
        return False


    def _package_function(self, call: ast.Call):
        """the plain (non-generator) function of the package a call resolves to by name, if exactly one has that name"""
        name = (dotted_name(call.func) or '').split('.')[-1]
        prog = getattr(self.module, '_prog', None) or _PROG
        if prog is None or not name or not isinstance(call.func, (ast.Name, ast.Attribute)):
            return None
        if isinstance(call.func, ast.Attribute) and not (isinstance(call.func.value, ast.Name) and call.func.value.id not in ('os', 'shutil', 'json', 'self', 'fp', 'torch', 'tempfile', 'logging')):
            return None
        cands = [(m, m.functions[name]) for m in prog.modules.values() if name in m.functions
                 and not any((dotted_name(d) or '').endswith('contextmanager') for d in m.functions[name].decorator_list)]
        return cands[0] if len(cands) == 1 else None

    # ---- context-manager helpers defined in the package (generator functions used with `with`) ----------------------
    def _context_helper(self, call: ast.Call):
        name = (dotted_name(call.func) or '').split('.')[-1]
        prog = getattr(self.module, '_prog', None) or _PROG
        if prog is None or not name:
            return None
        cands = []
        for m in prog.modules.values():
            f = m.functions.get(name)
            if f is not None and any((dotted_name(d) or '').endswith('contextmanager') for d in f.decorator_list):
                cands.append((m, f))
        return cands[0] if len(cands) == 1 else None

    def _inline_context_helper(self, st: ast.With, item, call: ast.Call, state):
        """`with helper(args) as fp: BODY`  ≡  the helper's body with its `yield X` replaced by `fp = X; BODY` (try/finally around the yield keeps its meaning)"""
        import copy
        hm, hf = self._context_helper(call)
        bound = bind_args(hf, call)
        dfl = defaults_of(hf)
        pre = []
        consts = {}
        for a in hf.args.args:
            v = bound.get(a.arg, dfl.get(a.arg))
            if v is None:
                continue
            if isinstance(v, ast.Constant):
                consts[a.arg] = v
            else:
                pre.append(ast.Assign(targets=[ast.Name(id=a.arg, ctx=ast.Store())], value=v, lineno=st.lineno))
        body = copy.deepcopy(hf.body)

        class Const(ast.NodeTransformer):
            def visit_Name(self_, n):
                if isinstance(n.ctx, ast.Load) and n.id in consts:
                    return ast.copy_location(copy.deepcopy(consts[n.id]), n)
                return n
        body = [Const().visit(b) for b in body]
        target = item.optional_vars.id if isinstance(item.optional_vars, ast.Name) else None
        found = []

        class Sub(ast.NodeTransformer):
            def visit_Expr(self_, n):
                if isinstance(n.value, ast.Yield):
                    found.append(n)
                    stmts = []
                    if target is not None and isinstance(n.value.value, ast.Name):
                        stmts.append(ast.Assign(targets=[ast.Name(id=target, ctx=ast.Store())], value=n.value.value, lineno=st.lineno))
                    blk = ast.If(test=ast.Constant(value=True), body=stmts + list(st.body), orelse=[], lineno=st.lineno)
                    return blk
                return n
        body = [Sub().visit(b) for b in body]
        if len(found) != 1:
            raise Unsupported(st, 'context-manager helper without exactly one yield')
        for b in pre + body:
            ast.fix_missing_locations(b)
        self.effects_seen.add(f"with {hf.name}(…) [inlined]")
        return self.block(pre + body, {state})

    def run(self, fs0: FS):
        """returns set of final states; every intermediate state is recorded in visited."""
        self.visit(fs0, self.fn, 'call entry')
        normal, raised, returned = self.block(self.fn.body, {(fs0, ())})
        return {s for s, _ in normal | raised | returned}

    def block(self, stmts, states):
        """states: set of (FS, env-tuple). returns (normal, raised, returned)."""
        raised: Set = set()
        returned: Set = set()
        cur = set(states)
        for st in stmts:
            if not cur:
                break
            nxt: Set = set()
            for s in cur:
                n, r, t = self.stmt(st, s)
                nxt |= n
                raised |= r
                returned |= t
            cur = nxt
        return cur, raised, returned

    def fs_call(self, call: ast.Call, st, state):
        """effect of one call expression; returns (normal, raised, returned) or None if no fs effect."""
        fs, envt = state
        env = dict(envt)
        E: Set = set()
        dn = dotted_name(call.func) or ''
        if self._is_writer_call(call):
            wmod, wfn = self.writer
            params = [a.arg for a in wfn.args.args]
            bound = bind_args(wfn, call)
            dfl = defaults_of(wfn)
            if params[0] not in bound:
                raise Unsupported(call, 'writer called without a path')
            key = self.path_key(bound[params[0]], env)
            flags = {}
            for p in params[2:] + [a.arg for a in wfn.args.kwonlyargs]:
                ex = bound.get(p, dfl.get(p))
                flags[p] = const_of(ex) if ex is not None else None
                if isinstance(ex, ast.Name) and self.flags.get(ex.id) is not None:
                    flags[p] = self.flags[ex.id]     # forwarded from a parameter of the caller whose value is known
            sub = Interp(wfn, wmod, flags, path_binding={params[0]: key})
            sub.write_exceptions = self.write_exceptions
            sub.visited = self.visited
            sub.effects_seen = self.effects_seen
            n, r, t = sub.block(wfn.body, {(fs, ())})
            self.effects_seen.add(f"{wfn.name}(name{key}, {', '.join(f'{k}={v}' for k, v in sorted(flags.items()))})")
            back = lambda ss: {(f, envt) for f, _ in ss}
            return back(n) | back(t), back(r), E
        if dn in RENAME_CALLS and len(call.args) >= 2:
            a = self.path_key(call.args[0], env)
            b = self.path_key(call.args[1], env)
            text = f"{dn}(name{a}, name{b})"
            self.effects_seen.add(text)
            if fs.get(a) == A:
                return E, {state}, E  # FileNotFoundError, nothing changed
            out = set()
            # an open handle follows its file across a rename
            env2 = {k: (b if (k.startswith('@') and v == a) else v) for k, v in env.items()}
            envt = tuple(sorted(env2.items()))
            if not (dn == 'shutil.move' and (a.startswith('<tmp') != b.startswith('<tmp'))):
                nf = fs.set(b, fs.get(a)).set(a, A)  # atomic rename (trusted base)
                self.visit(nf, st, text)
                out.add((nf, envt))
            if dn == 'shutil.move' and (a.startswith('<tmp') or b.startswith('<tmp')):
                # the temporary directory may be on another file system: shutil.move falls back to copy + remove
                mid = fs.set(b, P)
                self.visit(mid, st, text + ' [cross-device: copy]')
                done = fs.set(b, fs.get(a))
                self.visit(done, st, text + ' [cross-device: copied]')
                nf = done.set(a, A)
                self.visit(nf, st, text + ' [cross-device: source removed]')
                out.add((nf, envt))
            return out, E, E
        if dn in REMOVE_CALLS and call.args:
            a = self.path_key(call.args[0], env)
            text = f"{dn}(name{a})"
            self.effects_seen.add(text)
            if fs.get(a) == A:
                return E, {state}, E
            nf = fs.set(a, A)
            self.visit(nf, st, text)
            return {(nf, envt)}, E, E
        if dn in ('shutil.copy', 'shutil.copyfile', 'shutil.copy2') and len(call.args) >= 2:
            a = self.path_key(call.args[0], env)
            b = self.path_key(call.args[1], env)
            text = f"{dn}(name{a}, name{b})"
            self.effects_seen.add(text)
            if fs.get(a) == A:
                return E, {state}, E
            mid = fs.set(b, P)
            self.visit(mid, st, text)
            nf = fs.set(b, fs.get(a))
            self.visit(nf, st, text)
            return {(nf, envt)}, E, E
        if dn in ('os.chmod', 'os.utime', 'os.stat', 'os.chown') and call.args:
            a = self.path_key(call.args[0], env)
            self.effects_seen.add(f"{dn}(name{a})")
            if fs.get(a) == A:
                return E, {state}, E          # FileNotFoundError, nothing changed
            return {state}, E, E              # metadata only: the content is untouched
        if dn in ('os.close', 'os.fsync', 'os.fdopen') or dn in NOOP_CALLS:
            return {state}, E, E
        # a function of the package that is handed one of the protocol's paths (`replace_file(name + '.new', name)`): its body is part of the protocol — inlined with its
        # path parameters bound, like the writer itself
        helper = self._package_function(call)
        if helper is not None and not self._is_writer_call(call):
            hm, hf = helper
            bound = bind_args(hf, call)
            binding = {}
            for pname, ex in bound.items():
                if self.is_path_expr(ex, env):
                    binding[pname] = self.path_key(ex, env)
            if binding:
                depth = getattr(self, '_depth', 0)
                if depth >= 3:
                    raise Unsupported(st, f"helper {hf.name} nested deeper than 3 calls")
                sub = Interp(hf, hm, {}, path_binding=binding)
                sub._depth = depth + 1
                sub.write_exceptions = self.write_exceptions
                sub.visited = self.visited
                sub.effects_seen = self.effects_seen
                n, r, t = sub.block(hf.body, {(fs, ())})
                self.effects_seen.add(f"{hf.name}({', '.join(f'{k}=name{v}' for k, v in sorted(binding.items()))})")
                back = lambda ss: {(f, envt) for f, _ in ss}
                return back(n) | back(t), back(r), E
        if self._has_fs_call(call):
            raise Unsupported(st, f"file-system call {ast.unparse(call.func)} not understood")
        return None

    def stmt(self, st, state):
        fs, envt = state
        env = dict(envt)
        E: Set = set()
        # a flag of the writer that is re-assigned on the way (`safely = False` in a fallback branch) takes its new value for the rest of the path
        if isinstance(st, ast.Assign) and len(st.targets) == 1 and isinstance(st.targets[0], ast.Name) and st.targets[0].id in self.flags and not self._has_fs_call(st.value):
            v_ = st.value
            env[st.targets[0].id] = ('#True' if v_.value else '#False') if isinstance(v_, ast.Constant) and isinstance(v_.value, (bool, type(None))) else '#?'
            return {(fs, tuple(sorted(env.items())))}, E, E
        if isinstance(st, ast.If):
            outs = (set(), set(), set())
            for v in self.eval_cond(st.test, fs, env):
                body = st.body if v else st.orelse
                n, r, t = self.block(body, {state}) if body else ({state}, set(), set())
                outs = (outs[0] | n, outs[1] | r, outs[2] | t)
            return outs
        if isinstance(st, ast.With):
            cur = {state}
            opened = []
            for item in st.items:
                ce = item.context_expr
                if isinstance(ce, ast.Call) and dotted_name(ce.func) in ('open', 'io.open'):
                    mode = 'r'
                    if len(ce.args) > 1:
                        m = ce.args[1]
                        if not (isinstance(m, ast.Constant) and isinstance(m.value, str)):
                            raise Unsupported(m, 'non-constant open mode')
                        mode = m.value
                    for kw in ce.keywords:
                        if kw.arg == 'mode':
                            if not (isinstance(kw.value, ast.Constant) and isinstance(kw.value.value, str)):
                                raise Unsupported(kw.value, 'non-constant open mode')
                            mode = kw.value.value
                    if any(ch in mode for ch in 'wax+'):
                        key = self.path_key(ce.args[0], env)
                        text = f"open(name{key!s}, {mode!r})"
                        self.effects_seen.add(text)
                        new = set()
                        for f, e in cur:
                            if 'x' in mode and f.get(key) != A:
                                continue  # raises FileExistsError: state unchanged
                            # 'w' truncates: the file is partial from this instant until close
                            nf = f.set(key, P)
                            self.visit(nf, st, text)
                            e2 = dict(e)
                            hname = '@' + (item.optional_vars.id if isinstance(item.optional_vars, ast.Name) else f"anon{st.lineno}")
                            e2[hname] = key
                            new.add((nf, tuple(sorted(e2.items()))))
                        cur = new
                        opened.append('@' + (item.optional_vars.id if isinstance(item.optional_vars, ast.Name) else f"anon{st.lineno}"))
                elif isinstance(ce, ast.Call) and dotted_name(ce.func) == 'os.fdopen' and ce.args and isinstance(ce.args[0], ast.Name) and ('#' + ce.args[0].id) in env:
                    spec = env['#' + ce.args[0].id]
                    key, tail = (spec[:-5], True) if spec.endswith('|tail') else (spec, False)
                    text = f"os.fdopen(<fd of name{key}>)"
                    self.effects_seen.add(text)
                    hname = '@' + (item.optional_vars.id if isinstance(item.optional_vars, ast.Name) else f"anon{st.lineno}")
                    new = set()
                    for f, e in cur:
                        e2 = dict(e)
                        e2[hname] = key
                        if tail:
                            e2['%tail' + hname] = key
                        nf = f if tail else f.set(key, P)
                        if tail and f.get(key) != P:
                            nf = f.set(key, P)      # from the first byte written the file is a mixture of new head and old tail
                        self.visit(nf, st, text)
                        new.add((nf, tuple(sorted(e2.items()))))
                    cur = new
                    opened.append(hname)
                elif isinstance(ce, ast.Call) and self._context_helper(ce) is not None:
                    return self._inline_context_helper(st, item, ce, state)
                elif self._has_fs_call(ce):
                    raise Unsupported(ce, 'context manager with file-system effect not understood')
            n, r, t = self.block(st.body, cur)

            # leaving the block normally closes the files: whatever name the open file now has
            # (it may have been renamed while open) becomes complete
            def close(states):
                out = set()
                for f, e in states:
                    ed = dict(e)
                    for h in opened:
                        key = ed.pop(h, None)
                        # the handle may have followed its file across a rename; a removed file stays absent
                        tail = ed.pop('%tail' + h, None)
                        if key is not None and f.get(key) == P:
                            if tail is not None:
                                # not truncated on open: if the new content is shorter than what was there, the rest of the old file follows it
                                self.visit(f, st, 'close (file was opened without O_TRUNC: the tail of a longer old file survives)')
                                out.add((f, tuple(sorted(ed.items()))))
                            f = f.set(key, C)
                    self.visit(f, st, 'close')
                    out.add((f, tuple(sorted(ed.items()))))
                return out
            return close(n), r, close(t)
        if isinstance(st, ast.Try):
            n, r, t = self.block(st.body, {state})
            handled: Set = set()
            if st.handlers:
                ok_types = {'OSError', 'FileNotFoundError', 'Exception', 'BaseException', 'IOError', 'FileExistsError'}
                for h in st.handlers:
                    catches = False
                    if h.type is None:
                        catches = True
                    else:
                        names = [(dotted_name(x) or '').split('.')[-1] for x in (h.type.elts if isinstance(h.type, ast.Tuple) else [h.type])]
                        catches = any(nm in ok_types for nm in names)
                    if catches:
                        hn, hr, ht = self.block(h.body, r)
                        handled |= hn
                        r = hr
                        t |= ht
                        break
            n = n | handled
            if st.orelse:
                n2, r2, t2 = self.block(st.orelse, n - handled)
                n = n2 | handled
                r |= r2
                t |= t2
            if st.finalbody:
                n, r3, t3 = self.block(st.finalbody, n)
                # an exception (or a return) on its way out runs the finally block too
                rn, rr, rt = self.block(st.finalbody, r) if r else (set(), set(), set())
                tn, tr, tt = self.block(st.finalbody, t) if t else (set(), set(), set())
                r = rn | rr | r3 | tr
                t = tn | tt | t3 | rt
            return n, r, t
        if isinstance(st, ast.Return):
            if st.value is not None and self._has_fs_call(st.value):
                raise Unsupported(st, 'file-system call in return')
            return E, E, {state}
        if isinstance(st, ast.Raise):
            return E, {state}, E
        if isinstance(st, ast.Assign) and len(st.targets) == 1:
            tgt = st.targets[0]
            v = st.value
            vdn = dotted_name(v.func) if isinstance(v, ast.Call) else None
            if vdn in ('tempfile.mkstemp', 'tempfile.mktemp') or (vdn or '').endswith('NamedTemporaryFile'):
                key = f"<tmp@{st.lineno}>"  # one abstract temporary file per creation site (finite state space)
                names = [e.id for e in (tgt.elts if isinstance(tgt, ast.Tuple) else [tgt]) if isinstance(e, ast.Name)]
                for nm in names:
                    env[nm] = key
                nf = fs.set(key, C) if vdn == 'tempfile.mkstemp' else fs
                return {(nf, tuple(sorted(env.items())))}, E, E
            if isinstance(tgt, ast.Name) and vdn == 'os.open' and isinstance(v, ast.Call) and len(v.args) >= 2:
                key = self.path_key(v.args[0], env)
                ftxt = ast.unparse(v.args[1])
                trunc, creat, excl = 'O_TRUNC' in ftxt, 'O_CREAT' in ftxt, 'O_EXCL' in ftxt
                text = f"os.open(name{key}, {ftxt})"
                self.effects_seen.add(text)
                prev = fs.get(key)
                if prev == A and not creat:
                    return E, {state}, E
                if prev != A and excl:
                    return E, {state}, E
                nf = fs
                keep_tail = False
                if prev == A or trunc:
                    nf = fs.set(key, P)
                else:
                    keep_tail = True      # the old content stays until it is overwritten; what is not overwritten stays for good
                self.visit(nf, st, text)
                env['#' + tgt.id] = key + ('|tail' if keep_tail else '')
                return {(nf, tuple(sorted(env.items())))}, E, E
            if isinstance(tgt, ast.Name) and vdn in ('open', 'io.open') and isinstance(v, ast.Call) and v.args:
                mode = 'r'
                if len(v.args) > 1 and isinstance(v.args[1], ast.Constant):
                    mode = str(v.args[1].value)
                for kw in v.keywords:
                    if kw.arg == 'mode' and isinstance(kw.value, ast.Constant):
                        mode = str(kw.value.value)
                if any(ch in mode for ch in 'wax+'):
                    key = self.path_key(v.args[0], env)
                    text = f"open(name{key!s}, {mode!r})"
                    self.effects_seen.add(text)
                    if 'x' in mode and fs.get(key) != A:
                        return E, {state}, E
                    nf = fs.set(key, P)
                    self.visit(nf, st, text)
                    env['@' + tgt.id] = key
                    return {(nf, tuple(sorted(env.items())))}, E, E
                return {state}, E, E
            if isinstance(tgt, ast.Name) and isinstance(v, ast.Name) and ('@' + v.id) in env:
                env['@' + tgt.id] = env['@' + v.id]      # another name for an open handle
                return {(fs, tuple(sorted(env.items())))}, E, E
            if isinstance(tgt, ast.Name):
                if self.is_path_expr(v, env):
                    env[tgt.id] = self.path_key(v, env)
                    return {(fs, tuple(sorted(env.items())))}, E, E
                if isinstance(v, ast.Call):
                    res = self.fs_call(v, st, state)
                    if res is not None:
                        return res
                if self._has_fs_call(v):
                    raise Unsupported(st, 'assignment from a file-system call not understood')
            elif self._has_fs_call(st):
                raise Unsupported(st, 'assignment with file-system effect not understood')
            return {state}, E, E
        if isinstance(st, ast.Expr) and isinstance(st.value, ast.Call):
            res = self.fs_call(st.value, st, state)
            if res is not None:
                return res
            # writing into an open file can end in an exception (unserialisable state, ENOSPC, a second Ctrl-C): the process then dies by unwinding,
            # which runs the enclosing with-exits and finally blocks with the file still partial
            handles = {k[1:] for k in env if k.startswith('@')}
            c0 = st.value
            if isinstance(c0.func, ast.Attribute) and c0.func.attr == 'close' and isinstance(c0.func.value, ast.Name) and c0.func.value.id in handles:
                h = '@' + c0.func.value.id
                key = env.pop(h)
                broken = env.pop('!' + h, None)
                nf = fs
                if fs.get(key) == P and not broken:
                    nf = fs.set(key, C)
                self.visit(nf, st, 'close' + (' (after an exception: the content is incomplete)' if broken else ''))
                return {(nf, tuple(sorted(env.items())))}, E, E
            if self.write_exceptions and handles and any(isinstance(x, ast.Name) and x.id in handles for x in ast.walk(st.value)):
                self.effects_seen.add('exception while writing')
                e2 = dict(env)
                for hname in handles:
                    if any(isinstance(x, ast.Name) and x.id == hname for x in ast.walk(st.value)):
                        e2['!@' + hname] = '1'
                return {state}, {(fs, tuple(sorted(e2.items())))}, E
            return {state}, E, E
        if isinstance(st, (ast.Pass, ast.Import, ast.ImportFrom, ast.Global, ast.Nonlocal, ast.Assert)):
            return {state}, E, E
        if isinstance(st, ast.For) and isinstance(st.iter, (ast.Tuple, ast.List)) and isinstance(st.target, ast.Name) \
                and all(self.is_path_expr(x, env) for x in st.iter.elts):
            cur = {state}
            raised: Set = set()
            returned: Set = set()
            for x in st.iter.elts:
                nxt = set()
                for f, e in cur:
                    e2 = dict(e)
                    e2[st.target.id] = self.path_key(x, dict(e))
                    n, r, t = self.block(st.body, {(f, tuple(sorted(e2.items())))})
                    nxt |= n
                    raised |= r
                    returned |= t
                cur = nxt
            return cur, raised, returned
        if isinstance(st, (ast.For, ast.While)):
            if self._has_fs_call(st):
                # body zero or one time; repetition is covered by the restart closure
                n, r, t = self.block(st.body, {state})
                return n | {state}, r, t
            return {state}, E, E
        if self._has_fs_call(st):
            raise Unsupported(st, 'statement with file-system effect not understood')
        return {state}, E, E


def explore(fn, module, flags, fresh=False, **kw):
    """closure of {name=complete} (fresh=True: of the empty directory — the first checkpoint of a run) under call + crash + restart."""
    interp = Interp(fn, module, flags, **kw)
    init = FS({}.items()) if fresh else FS({'': C}.items())
    seen: Set[FS] = set()
    work = [init]
    origin: Dict[FS, Tuple[FS, str, int]] = {}
    transitions = 0
    while work:
        s = work.pop()
        if s in seen:
            continue
        seen.add(s)
        if len(seen) > 5000:
            raise Unsupported(fn, 'abstract state space exceeds 5000 states')
        interp.visited = {}
        interp.run(s)
        for s2, (what, line) in interp.visited.items():
            transitions += 1
            if s2 not in seen:
                origin.setdefault(s2, (s, what, line))
                work.append(s2)
    return seen, origin, transitions, interp


def history(origin, s) -> List[str]:
    out = []
    guard = 0
    while s in origin and guard < 50:
        p, what, line = origin[s]
        out.append(f"{what} (line {line}) from {p!r}")
        s = p
        guard += 1
    return list(reversed(out))


# ---------------------------------------------------------------------------
# call sites
# ---------------------------------------------------------------------------

def callers_of(ctx, encl, m):
    """call sites of the function `encl` of module m: `self.<f>(...)` is resolved through the class table
    (the receiver's class must resolve <f> to this very method); other receivers match by name."""
    cls = enclosing_class(encl)
    cls_info = ctx.classes.find(f"{m.name}.{cls.name}") if cls is not None else None
    callers = []
    for m2 in ctx.prog.modules.values():
        for node in ast.walk(m2.tree):
            if not isinstance(node, ast.Call):
                continue
            if isinstance(node.func, ast.Attribute) and node.func.attr == encl.name:
                recv = node.func.value
                if isinstance(recv, ast.Name) and recv.id == 'self':
                    c2 = enclosing_class(node)
                    ci = ctx.classes.find(f"{m2.name}.{c2.name}") if c2 is not None else None
                    if ci is not None and cls_info is not None:
                        r = ci.resolve(encl.name)
                        if r is None or r[1] is not encl:
                            continue
                callers.append((m2, node))
            elif isinstance(node.func, ast.Name) and node.func.id == encl.name and cls is None:
                callers.append((m2, node))
    return callers


def own_flag_combos(ctx, encl, m, skip) -> List[Dict[str, object]]:
    """constant values of the parameters of `encl` at its own call sites (defaults when it has none)."""
    cls = enclosing_class(encl)
    names = [a.arg for a in encl.args.args + encl.args.kwonlyargs if a.arg not in skip and a.arg != 'self']
    d = defaults_of(encl)
    combos = []
    callers = callers_of(ctx, encl, m)
    if not callers:
        return [{f: (const_of(d[f]) if f in d else None) for f in names}]
    for m2, c2 in callers:
        b = bind_args(encl, c2, skip_self=cls is not None)
        vals = {}
        for f in names:
            e = b.get(f, d.get(f))
            vals[f] = const_of(e) if e is not None else None
        if vals not in combos:
            combos.append(vals)
    return combos


def flag_values(ctx, fn, flag_names, m, call, depth=0) -> List[Tuple[Dict[str, object], str]]:
    """possible constant values of the flags at this call site; a flag forwarded from a
    parameter of the enclosing function is resolved through that function's own call
    sites (self.<f>(...) inside the same class hierarchy), depth ≤ 2."""
    bound = bind_args(fn, call)
    dfl = defaults_of(fn)
    encl = enclosing_function(call)
    site = f"{m.relpath}:{call.lineno}"
    fixed: Dict[str, object] = {}
    forwarded: Dict[str, str] = {}
    for f in flag_names:
        e = bound.get(f, dfl.get(f))
        if e is None:
            fixed[f] = None
            continue
        c = const_of(e)
        if c is not None:
            fixed[f] = c
        elif isinstance(e, ast.Name) and encl is not None and e.id in [a.arg for a in encl.args.args + encl.args.kwonlyargs]:
            forwarded[f] = e.id
        else:
            fixed[f] = None
    if not forwarded:
        return [(fixed, site)]
    if depth >= 2:
        for f in forwarded:
            fixed[f] = None
        return [(fixed, site)]
    # callers of the enclosing function: `self.<f>(...)` is resolved through the class table
    # (the receiver's class must resolve <f> to this very method); other receivers match by name
    out = []
    cls = enclosing_class(encl)
    callers = callers_of(ctx, encl, m)
    if not callers:
        # public wrapper without in-package callers: defaults of the wrapper
        d2 = defaults_of(encl)
        vals = dict(fixed)
        for f, pname in forwarded.items():
            vals[f] = const_of(d2[pname]) if pname in d2 else None
        return [(vals, site + ' (wrapper defaults)')]
    d2 = defaults_of(encl)
    for m2, c2 in callers:
        b2 = bind_args(encl, c2, skip_self=cls is not None)
        vals = dict(fixed)
        for f, pname in forwarded.items():
            e = b2.get(pname, d2.get(pname))
            vals[f] = const_of(e) if e is not None else None
        out.append((vals, f"{site} via {m2.relpath}:{c2.lineno}"))
    return out


def check_reader_side(ctx, rep):
    """C18.R — resuming only reads: the code that loads a checkpoint never renames, removes or rewrites the checkpoint files (a '.new' left by a crash may be partial)"""
    m = ctx.prog.module('torchtree.torchtree')
    fn = m.functions.get('main')
    if fn is None:
        raise AnalysisError('torchtree.main not found')
    # names derived from arg.checkpoint
    derived = set()
    changed = True
    while changed:
        changed = False
        for st in ast.walk(fn):
            tgts = []
            src = None
            if isinstance(st, ast.For):
                tgts, src = [st.target], st.iter
            elif isinstance(st, ast.Assign):
                tgts, src = st.targets, st.value
            if src is None:
                continue
            from_ck = any((isinstance(x, ast.Attribute) and x.attr == 'checkpoint') or (isinstance(x, ast.Name) and x.id in derived) for x in ast.walk(src))
            if from_ck:
                for t in tgts:
                    for x in ast.walk(t):
                        if isinstance(x, ast.Name) and x.id not in derived:
                            derived.add(x.id)
                            changed = True
    offenders = []
    for c in ast.walk(fn):
        if not isinstance(c, ast.Call):
            continue
        dn = dotted_name(c.func) or ''
        touches = any(isinstance(x, ast.Name) and x.id in derived for a in c.args for x in ast.walk(a))
        if not touches:
            continue
        if dn in RENAME_CALLS | REMOVE_CALLS | {'os.link', 'os.truncate', 'shutil.copy', 'shutil.copyfile', 'shutil.copy2'}:
            offenders.append(c)
        if dn in ('open', 'io.open'):
            mode = c.args[1].value if len(c.args) > 1 and isinstance(c.args[1], ast.Constant) else next((k.value.value for k in c.keywords if k.arg == 'mode' and isinstance(k.value, ast.Constant)), 'r')
            if any(ch in str(mode) for ch in 'wax+'):
                offenders.append(c)
    rep.check('C18.R', 'main::resuming-only-reads-the-checkpoint-files', not offenders, where(m, offenders[0] if offenders else fn), {'derived_names': sorted(derived)},
              f"main() changes the checkpoint files while resuming (`{norm_text(offenders[0])[:70] if offenders else ''}`): a '.new' left behind by a killed write may be partial, "
              f"and promoting or deleting files here can destroy the last complete checkpoint")


def run(ctx, rep):
    rep.explanation = (
        "File typestate analysis of the checkpoint writer: its body is abstractly interpreted over "
        "{name, name.new, name.old, ...} -> {absent, complete, partial}; every intermediate state is a crash "
        "point; the reachable set is closed under restart-after-crash, starting from 'a complete checkpoint "
        "exists under name'.  Flag arguments come from the resolved call sites (wrappers followed)."
    )
    rep.rule('C18.I1', "at every reachable crash state some of name/name.old/name.new holds a complete file")
    rep.rule('C18.I2', "at every reachable crash state the checkpoint name itself is not a partial (truncated) file")
    rep.rule('C18.X', "every reachable call completes: no file-system operation raises on a state the protocol itself can produce")
    rep.rule('C18.R', "the resume path only reads the checkpoint files")
    rep.rule('C18.W', "an attribute that supplies the writer's path (self.checkpoint) is never opened for writing directly in any class")
    rep.assumptions += [
        "os.rename/os.replace atomically replace an existing target and raise when the source is absent (POSIX)",
        "open(p,'w') truncates p at once; the file is complete only when the with-block exits normally",
        "the process dying = crash at any instant; durability against power loss (fsync) is not considered",
    ]
    rep.not_decided += ["durability without fsync on power loss", "content of the file (that json.dump emits the new state)"]
    global _PROG
    _PROG = ctx.prog
    m = ctx.prog.module(WRITER)
    if WRITER_FN not in m.functions:
        raise AnalysisError(f"{WRITER}.{WRITER_FN} not found")
    fn = m.functions[WRITER_FN]
    flag_names = [a.arg for a in fn.args.args[2:]] + [a.arg for a in fn.args.kwonlyargs]
    sites = find_calls(ctx, WRITER, WRITER_FN)
    if not sites:
        raise AnalysisError("no call site of the checkpoint writer found")
    # who may write the checkpoint file: an attribute that supplies the writer's path somewhere
    # (self.checkpoint) must not be opened for writing directly anywhere in the package
    attrs = set()

    def self_attrs(e):
        return {n.attr for n in ast.walk(e) if isinstance(n, ast.Attribute)
                and isinstance(n.value, ast.Name) and n.value.id == 'self'}

    for m2, call in sites:
        if not call.args:
            continue
        attrs |= self_attrs(call.args[0])
        encl = enclosing_function(call)
        cls = enclosing_class(call)
        if isinstance(call.args[0], ast.Name) and encl is not None and cls is not None:
            for node in ast.walk(cls):
                if isinstance(node, ast.Call) and isinstance(node.func, ast.Attribute) and node.func.attr == encl.name:
                    for a in node.args[:1]:
                        attrs |= self_attrs(a)
    if not attrs:
        raise AnalysisError('no path attribute found at the writer call sites')
    # callers that perform file-system operations of their own around the writer call are analysed as a
    # whole (the writer is inlined): e.g. write to a temporary file, then move it onto the checkpoint
    caller_sites = []
    plain_sites = []
    probe = Interp(fn, m, {})
    for m2, call in sites:
        encl = enclosing_function(call)
        other = False
        if encl is not None:
            for n in ast.walk(encl):
                if isinstance(n, ast.Call) and n is not call and not (dotted_name(n.func) or '').endswith(WRITER_FN):
                    dn = dotted_name(n.func) or ''
                    if dn.split('.')[0] in ('shutil', 'tempfile') or dn in RENAME_CALLS | REMOVE_CALLS or \
                            (dn in ('open', 'io.open') and len(n.args) > 1 and isinstance(n.args[1], ast.Constant) and any(ch in str(n.args[1].value) for ch in 'wax+')):
                        other = True
        (caller_sites if other else plain_sites).append((m2, call))
    for m2, call in caller_sites:
        encl = enclosing_function(call)
        cls = enclosing_class(call)
        ckey = f"caller::{m2.name}.{cls.name + '.' if cls is not None else ''}{encl.name}"
        try:
            # a parameter of the caller that is handed to the writer as its path IS the checkpoint name
            binding = {}
            own = {a.arg for a in encl.args.args + encl.args.kwonlyargs}
            for n in ast.walk(encl):
                if isinstance(n, ast.Call) and (dotted_name(n.func) or '').split('.')[-1] == fn.name:
                    pa = bind_args(fn, n).get(fn.args.args[0].arg)
                    names = {x.id for x in ast.walk(pa) if isinstance(x, ast.Name)} if pa is not None else set()
                    grew = True
                    while grew:      # through local names: tmp = checkpoint.replace(…); writer(tmp, …)
                        grew = False
                        for a_ in ast.walk(encl):
                            if isinstance(a_, ast.Assign) and any(isinstance(t_, ast.Name) and t_.id in names for t_ in a_.targets):
                                more = {x.id for x in ast.walk(a_.value) if isinstance(x, ast.Name)} - names
                                if more:
                                    names |= more
                                    grew = True
                    for nm in names & own:
                        binding[nm] = ''
            runs = []
            for own_flags in own_flag_combos(ctx, encl, m2, set(binding)):
                seen, origin, trans, interp = explore(encl, m2, own_flags, root_attrs=attrs, writer=(m, fn), path_binding=binding or None)
                runs.append((own_flags, seen, origin, interp))
        except Unsupported as u:
            for r in ('C18.I1', 'C18.I2'):
                rep.undecided(r, ckey, where(m2, u.node), str(u))
            continue
        facts = {'caller': ckey, 'flag_combinations': [r_[0] for r_ in runs], 'states': sum(len(r_[1]) for r_ in runs),
                 'effects': sorted(set().union(*[r_[3].effects_seen for r_ in runs])),
                 'reachable': [s_.show() for s_ in sorted({s_ for r_ in runs for s_ in r_[1]}, key=repr)][:30]}
        for rule, pred, msg in (('C18.I1', lambda s_: not any(s_.get(k) == C for k in SIBLINGS), 'no complete checkpoint under name/.old/.new'),
                                ('C18.I2', lambda s_: s_.get('') == P, 'checkpoint name is a truncated file')):
            hit = None
            for own_flags, seen, origin, interp in runs:
                bad = [s_ for s_ in seen if pred(s_)]
                if bad:
                    hit = (own_flags, sorted(bad, key=repr)[0], origin)
                    break
            if hit:
                own_flags, s_, origin = hit
                rep.bad(rule, ckey, where(m2, call), {**facts, 'flags': own_flags, 'state': s_.show(), 'history': history(origin, s_)},
                        f"{msg} in state {s_!r} (called with {own_flags}); reached by: {' ; '.join(history(origin, s_))}")
            else:
                rep.ok(rule, ckey, where(m2, call), facts)
    sites_for_flags = plain_sites
    combos: Dict[tuple, List[str]] = {}
    for m2, call in sites_for_flags:
        try:
            for vals, site in flag_values(ctx, fn, flag_names, m2, call):
                combos.setdefault(tuple(sorted(vals.items())), []).append(site)
        except Unsupported as u:
            rep.undecided('C18.I1', f"callsite::{m2.relpath}", where(m2, call), str(u))
    total_states = 0
    total_trans = 0
    samples = []
    for combo, csites in sorted(combos.items(), key=str):
        flags = dict(combo)
        ftxt = ','.join(f"{k}={v}" for k, v in sorted(flags.items()))
        try:
            seen, origin, trans, interp = explore(fn, m, flags)
        except Unsupported as u:
            for r in ('C18.I1', 'C18.I2', 'C18.X'):
                rep.undecided(r, f"{ftxt}", where(m, u.node), str(u))
            continue
        total_states += len(seen)
        total_trans += trans
        if flags.get('safely', True) is not False and not any(e_.startswith('open(') or e_.startswith('os.fdopen') or e_.startswith('os.open') for e_ in interp.effects_seen):
            rep.incomplete('C18.I1', f"{ftxt}::writer-effects", where(m, fn), f"no write to a file was recognised in the writer (effects seen: {sorted(interp.effects_seen)}): the protocol "
                           f"was not analysed")
        bad1 = [s for s in seen if not any(s.get(k) == C for k in SIBLINGS)]
        bad2 = [s for s in seen if s.get('') == P]
        facts = {
            'flags': flags,
            'call_sites': csites,
            'states': len(seen),
            'transitions': trans,
            'effects': sorted(interp.effects_seen),
            'reachable': [s.show() for s in sorted(seen, key=repr)],
        }
        samples.append(facts)
        if bad1:
            s = sorted(bad1, key=repr)[0]
            rep.bad('C18.I1', ftxt, where(m, fn), {**facts, 'state': s.show(), 'history': history(origin, s)},
                    f"no complete checkpoint in state {s!r}; reached by: {' ; '.join(history(origin, s))}; callers {csites}")
        else:
            rep.ok('C18.I1', ftxt, where(m, fn), facts)
        if bad2:
            s = sorted(bad2, key=repr)[0]
            rep.bad('C18.I2', ftxt, where(m, fn), {**facts, 'state': s.show(), 'history': history(origin, s)},
                    f"checkpoint name is a truncated file in state {s!r}; reached by: {' ; '.join(history(origin, s))}; callers {csites}")
        else:
            rep.ok('C18.I2', ftxt, where(m, fn), facts)
        # C18.X: from every reachable state, a run without crash must end normally
        stuck = []
        for s in sorted(seen, key=repr):
            it = Interp(fn, m, flags)
            it.write_exceptions = False      # C18.X is about the protocol itself: a run in which nothing fails must complete
            it.visit(s, fn, 'entry')
            n, r, t = it.block(fn.body, {(s, ())})
            if r:
                stuck.append(s)
        if stuck:
            s = stuck[0]
            rep.bad('C18.X', ftxt, where(m, fn), {**facts, 'state': s.show(), 'history': history(origin, s)},
                    f"restarting from crash state {s!r} a file-system operation raises (checkpointing can never succeed again); "
                    f"reached by: {' ; '.join(history(origin, s))}")
        else:
            rep.ok('C18.X', ftxt, where(m, fn), {'flags': flags, 'states_checked': len(seen)})
    # one writer at a time: the protocol above is decided for sequential calls.  The writer (or save_full_state) handed to a thread / executor / timer as a callable can run while
    # the previous call is still between `open(name.new)` and `replace`: both write the same name.new, and the first replace installs a file the second is still writing
    conc = []
    for m2 in ctx.prog.modules.values():
        for node in ast.walk(m2.tree):
            if isinstance(node, ast.Call):
                for a in list(node.args) + [k.value for k in node.keywords]:
                    nm = a.id if isinstance(a, ast.Name) else (a.attr if isinstance(a, ast.Attribute) else None)
                    if nm in (WRITER_FN, 'save_full_state'):
                        conc.append((m2, node, nm))
    for m2, node, nm in conc:
        fn2 = enclosing_function(node)
        rep.bad('C18.W', f"{m2.name}.{fn2.name if fn2 else '?'}::{nm}-is-called-not-handed-over", where(m2, node), {'call': norm_text(node)[:80]},
                f"`{norm_text(node)[:70]}` hands `{nm}` to another component as a callable (a thread, an executor, a timer): checkpoints can then be written concurrently, two writers share "
                f"`name.new`, and the replace of the first installs under the checkpoint name a file the second is still writing")
    rep.ok('C18.W', 'writer::runs-in-the-calling-thread', '', {'callable_handovers': len(conc)})
    # the checkpoint is ONE file, written by the atomic writer: a method that calls the writer (or save_full_state) and ALSO writes run state to another file by its own
    # means (torch.save, pickle, numpy, an open(…, 'w')) produces a second file that is not covered by the protocol — a crash between the two leaves an old checkpoint that
    # refers to a truncated side file, or new moments next to old parameters
    SIDE_WRITERS = {'torch.save', 'pickle.dump', 'np.save', 'numpy.save', 'np.savez', 'numpy.savez', 'shutil.copyfile', 'shutil.copy'}
    nw = 0
    for m2 in ctx.prog.modules.values():
        if '.cli' in m2.name:
            continue
        for fn2 in [f for f in ast.walk(m2.tree) if isinstance(f, ast.FunctionDef)]:
            calls_writer = any(isinstance(c, ast.Call) and (dotted_name(c.func) or '').split('.')[-1] in (WRITER_FN, 'save_full_state') for c in ast.walk(fn2))
            if not calls_writer or fn2.name == WRITER_FN:
                continue
            nw += 1
            side = [c for c in ast.walk(fn2) if isinstance(c, ast.Call) and ((dotted_name(c.func) or '') in SIDE_WRITERS
                    or ((dotted_name(c.func) or '') == 'open' and len(c.args) >= 2 and isinstance(c.args[1], ast.Constant) and any(ch in str(c.args[1].value) for ch in 'wax+')))]
            cl2 = getattr(fn2, '_parent', None)
            scope2 = f"{cl2.name}.{fn2.name}" if isinstance(cl2, ast.ClassDef) else fn2.name
            rep.check('C18.W', f"{m2.name}.{scope2}::run-state-goes-through-the-atomic-writer-only", not side, where(m2, side[0] if side else fn2), {'side_writes': [norm_text(c)[:60] for c in side]},
                      f"{scope2} calls the atomic writer and also writes `{norm_text(side[0])[:60] if side else ''}` itself: that file is written in place, outside the protocol — a crash "
                      f"while it is written (or between the two writes) leaves a checkpoint whose parts do not belong together, or refers to a truncated file")
    if nw < 3:
        rep.incomplete('C18.W', 'side-writers', '', f"only {nw} functions calling the atomic writer found")
    # who may receive the checkpoint path: the atomic writer (directly or through the class's own save_full_state), path queries, string methods, reads.  A component that is
    # handed the path and writes it its own way (a Dumper, a logger, a thread body …) bypasses the protocol decided above
    ALLOWED = {WRITER_FN, 'save_full_state', 'print', 'str', 'len', 'repr', 'format', 'isinstance', 'join', 'exists', 'lexists', 'isfile', 'isdir', 'dirname', 'basename', 'abspath',
               'fspath', 'splitext', 'getsize', 'getmtime', 'Path', 'replace', 'endswith', 'startswith'}
    for ci in sorted(ctx.classes.classes.values(), key=lambda c: c.qualname):
        for node in ast.walk(ci.node):
            if not isinstance(node, ast.Call):
                continue
            handed = [a for a in list(node.args) + [k.value for k in node.keywords] if self_attrs(a) & attrs and isinstance(a, ast.Attribute)]
            if not handed:
                continue
            callee = (dotted_name(node.func) or (node.func.attr if isinstance(node.func, ast.Attribute) else '')).split('.')[-1]
            if callee in ('open', 'io.open'):
                continue        # decided below (mode)
            fn2 = enclosing_function(node)
            rep.check('C18.W', f"{ci.qualname}.{fn2.name if fn2 else '?'}::checkpoint-path-goes-to-the-atomic-writer-only::{callee}", callee in ALLOWED, where(ci.module, node),
                      {'callee': callee, 'argument': ast.unparse(handed[0])},
                      f"{ci.name}.{fn2.name if fn2 else '?'} hands the checkpoint path to `{callee}(…)`, which is not the atomic writer: whatever writes the file there (in place, from "
                      f"another thread, without the .new / replace steps) is outside the protocol — a crash can leave the name truncated with no complete copy next to it")
    for ci in sorted(ctx.classes.classes.values(), key=lambda c: c.qualname):
        used = {n.attr for n in ast.walk(ci.node) if isinstance(n, ast.Attribute) and n.attr in attrs}
        if not used:
            continue
        offenders = []
        for node in ast.walk(ci.node):
            if isinstance(node, ast.Call) and dotted_name(node.func) in ('open', 'io.open') and node.args:
                # local aliases of the attribute inside the same function
                fn2 = enclosing_function(node)
                alias = set()
                if fn2 is not None:
                    for st in ast.walk(fn2):
                        if isinstance(st, ast.Assign) and len(st.targets) == 1 and isinstance(st.targets[0], ast.Name) \
                                and self_attrs(st.value) & attrs:
                            alias.add(st.targets[0].id)
                uses = bool(self_attrs(node.args[0]) & attrs) or any(
                    isinstance(n, ast.Name) and n.id in alias for n in ast.walk(node.args[0]))
                mode = node.args[1].value if len(node.args) > 1 and isinstance(node.args[1], ast.Constant) else 'r'
                for kw in node.keywords:
                    if kw.arg == 'mode' and isinstance(kw.value, ast.Constant):
                        mode = kw.value.value
                if uses and any(ch in str(mode) for ch in 'wax+'):
                    offenders.append(node)
            # removing / renaming away / linking onto the checkpoint name outside the writer opens a window in which the name holds no complete file
            if isinstance(node, ast.Call) and (dotted_name(node.func) or '') in (REMOVE_CALLS | RENAME_CALLS | {'os.link', 'os.symlink', 'os.truncate', 'shutil.copy', 'shutil.copyfile', 'shutil.copy2'}) and node.args:
                fn2 = enclosing_function(node)
                if fn2 is not None and any(isinstance(c2, ast.Call) and (dotted_name(c2.func) or '').split('.')[-1] == WRITER_FN for c2 in ast.walk(fn2)):
                    continue       # analysed as a whole in caller mode above
                alias = set()
                if fn2 is not None:
                    for st in ast.walk(fn2):
                        if isinstance(st, ast.Assign) and len(st.targets) == 1 and isinstance(st.targets[0], ast.Name) and self_attrs(st.value) & attrs \
                                and isinstance(st.value, ast.Attribute):
                            alias.add(st.targets[0].id)
                dn2 = dotted_name(node.func)
                # destructive for the checkpoint name: it is the thing removed / the source of a move / the target of a non-atomic creation
                victims = [node.args[0]] if dn2 in REMOVE_CALLS | RENAME_CALLS | {'os.truncate'} else [node.args[-1]]
                for v_ in victims:
                    direct = isinstance(v_, ast.Attribute) and isinstance(v_.value, ast.Name) and v_.value.id == 'self' and v_.attr in attrs
                    if direct or (isinstance(v_, ast.Name) and v_.id in alias):
                        offenders.append(node)
        rep.check('C18.W', f"{ci.qualname}", not offenders, where(ci.module, offenders[0] if offenders else ci.node),
                  {'path_attributes': sorted(used), 'offending_calls': [norm_text(o)[:60] for o in offenders]},
                  f"the checkpoint path self.{sorted(used)[0]} is written / removed / re-linked directly (`{norm_text(offenders[0])[:60] if offenders else ''}`), bypassing the crash-safe "
                  f"writer: between that call and the next one the checkpoint name holds no complete file")
    check_reader_side(ctx, rep)
    rep.extra['states'] = total_states
    rep.extra['transitions'] = total_trans
    rep.extra['flag_combinations'] = [dict(c) for c in combos]
    rep.extra['exhaustive'] = True
