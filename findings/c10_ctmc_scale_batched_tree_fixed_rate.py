"""C10 (fixed): CTMCScale._sample_shape counted the rate only: with a fixed rate and a batched tree the joint density summed all samples into one number.
Run: PYTHONPATH=<tree> /venv/bin/python findings/c10_ctmc_scale_batched_tree_fixed_rate.py   (exit 1 = defect present)"""
import torch, sys
from torchtree import Parameter
from torchtree.distributions.ctmc_scale import CTMCScale
from torchtree.evolution.tree_model import TimeTreeModel
from torchtree.distributions.joint_distribution import JointDistributionModel
def tree(h):
    return TimeTreeModel.from_json({'id': 't', 'type': 'TimeTreeModel', 'newick': '((A:1,B:1):1,C:2);',
      'internal_heights': {'id': 'h', 'type': 'Parameter', 'tensor': h},
      'taxa': {'id': 'taxa', 'type': 'Taxa', 'taxa': [{'id': n, 'type': 'Taxon', 'attributes': {'date': 0.0}} for n in 'ABC']}}, {})
hs=[[1.0,2.0],[1.5,3.0],[0.5,4.0]]
bad=0
for name,(h,x) in {'tree batched, rate fixed':(hs,[0.01]), 'both batched':(hs,[[0.01],[0.02],[0.03]]), 'rate batched':(hs[0],[[0.01],[0.02],[0.03]])}.items():
    try:
        m=CTMCScale('c', Parameter('x',torch.tensor(x)), tree(h)); j=JointDistributionModel('j',[m])()
        want=[CTMCScale('c', Parameter('x',torch.tensor(x[i] if len(x)==3 else x)), tree(h[i] if h is hs else h))().item() for i in range(3)]
        ok=j.numel()==3 and torch.allclose(j.flatten(), torch.tensor(want), atol=1e-5); bad+=not ok
        print(name,'sample_shape',tuple(m.sample_shape),'joint',tuple(j.shape),[round(t,4) for t in j.flatten().tolist()],'expected',[round(t,4) for t in want],'' if ok else '  <-- wrong')
    except Exception as e:
        print(name,'raises',type(e).__name__,str(e)[:70])
sys.exit(1 if bad else 0)
