"""C13 (fixed): expand_plates replaced a plate inside the list it was enumerating forward: the element after an empty-range plate was skipped (a plate that
follows it is never expanded) and plates nested in the first clone of an expanded plate were never expanded.
Run: PYTHONPATH=<tree> /venv/bin/python findings/c13_expand_plates_skips.py   (exit 1 = defect present)"""
import sys, json
from torchtree.core.utils import expand_plates

def plate(rng, obj, var=None):
    d = {"id": "p", "type": "torchtree.Plate", "range": rng, "object": obj}
    if var:
        d["var"] = var
    return d

bad = 0
# (a) an empty plate followed by another plate
spec = [plate("0:0", {"id": "x.*", "type": "Parameter", "tensor": [0.0]}), plate("0:2", {"id": "y.*", "type": "Parameter", "tensor": [1.0]})]
expand_plates(spec)
ids = [o.get("id") for o in spec]
ok = ids == ["y.0", "y.1"]
print("(a) empty plate then plate ->", ids, "OK" if ok else "WRONG (a plate survived / was skipped)")
bad += not ok
# (b) a plate nested in the clones of a plate
inner = plate("0:2", {"id": "z.${i}.${j}", "type": "Parameter", "tensor": [1.0]}, var="j")
outer = plate("0:2", {"id": "g.${i}", "type": "JointDistributionModel", "distributions": [inner]}, var="i")
spec = [outer]
expand_plates(spec)
left = [o for g in spec for o in g["distributions"] if str(o.get("type", "")).endswith("Plate")]
ids = [[o.get("id") for o in g["distributions"]] for g in spec]
ok = not left and ids == [["z.0.0", "z.0.1"], ["z.1.0", "z.1.1"]]
print("(b) nested plates ->", ids, "OK" if ok else "WRONG (a nested plate was not expanded)")
bad += not ok
sys.exit(1 if bad else 0)
