from sa.selftest import Mut

NUC = 'torchtree/evolution/substitution_model/nucleotide.py'
MODEL = 'torchtree/core/model.py'
TREE = 'torchtree/evolution/tree_model.py'
SITE = 'torchtree/evolution/site_model.py'
PAR = 'torchtree/core/parameter.py'
OPS = 'torchtree/inference/mcmc/operator.py'
OPT = 'torchtree/optim/optimizer.py'
PRIOR = 'torchtree/distributions/tree_prior.py'
CODON = 'torchtree/evolution/substitution_model/codon.py'
JOINT = 'torchtree/distributions/joint_distribution.py'

CORPUS = [
    Mut('c11-hky-no-fire', NUC, 'HKY.handle_parameter_changed', 'self.fire_model_changed()', 'pass',
        expect=[('C11.H', 'HKY::handle_parameter_changed')]),
    Mut('c11-gtr-conditional-fire', NUC, 'GTR.handle_parameter_changed', 'self.fire_model_changed()',
        'if index is not None:\n    self.fire_model_changed()', expect=[('C11.H', 'GTR::handle_parameter_changed')]),
    Mut('c11-callable-no-dirty', MODEL, 'CallableModel.handle_parameter_changed', 'self.lp_needs_update = True', 'pass',
        expect=[('C11.H', 'GMRF::handle_parameter_changed'), ('C11.H', 'ConstantCoalescentModel::handle_parameter_changed')]),
    Mut('c11-callable-model-no-dirty', MODEL, 'CallableModel.handle_model_changed', 'self.lp_needs_update = True', 'pass',
        expect=[('C11.H', 'TreeLikelihoodModel::handle_model_changed'), ('C11.H', 'JointDistributionModel::handle_model_changed')]),
    Mut('c11-timetree-heights-flag', TREE, 'TimeTreeModel.handle_parameter_changed', 'self.heights_need_update = True', 'pass',
        expect=[('C11.H', 'TimeTreeModel::handle_parameter_changed')]),
    Mut('c11-timetree-bl-flag', TREE, 'TimeTreeModel.handle_parameter_changed', 'self.branch_lengths_need_update = True', 'pass',
        expect=[('C11.H', 'TimeTreeModel::handle_parameter_changed')]),
    Mut('c11-reparam-model-flag', TREE, 'ReparameterizedTimeTreeModel.handle_parameter_changed', 'self.heights_need_update = True', 'pass',
        expect=[('C11.H', 'ReparameterizedTimeTreeModel::handle_parameter_changed')]),
    Mut('c11-site-flag', SITE, 'SiteModel.handle_parameter_changed', 'self.needs_update = True', 'pass',
        expect=[('C11.H', 'WeibullSiteModel::handle_parameter_changed'), ('C11.H', 'InvariantSiteModel::handle_parameter_changed')]),
    Mut('c11-site-flag-wrong-value', SITE, 'SiteModel.handle_parameter_changed', 'self.needs_update = True', 'self.needs_update = False',
        expect=[('C11.H', 'WeibullSiteModel::handle_parameter_changed')]),
    Mut('c11-parameter-setter-silent', PAR, 'Parameter', 'self.fire_parameter_changed()', 'pass', nth=0,
        expect=[('C11.W', 'Parameter::tensor.setter')]),
    Mut('c11-view-setter-silent', PAR, 'ViewParameter', 'self.parameter.fire_parameter_changed()', 'pass',
        expect=[('C11.W', 'ViewParameter::tensor.setter')]),
    Mut('c11-transformed-flag', PAR, 'TransformedParameter.handle_parameter_changed', 'self.need_update = True', 'pass',
        expect=[('C11.H', 'TransformedParameter::handle_parameter_changed')]),
    Mut('c11-transformed-no-fire', PAR, 'TransformedParameter.handle_parameter_changed', 'self.fire_parameter_changed()', 'pass',
        expect=[('C11.H', 'TransformedParameter::handle_parameter_changed')]),
    Mut('c11-cat-flag', PAR, 'CatParameter.handle_parameter_changed', 'self._need_update = True', 'pass',
        expect=[('C11.H', 'CatParameter::handle_parameter_changed')]),
    Mut('c11-scaler-inplace-silent', OPS, 'ScalerOperator._step', 'self.parameters[index].tensor = p', 'pass',
        expect=[('C11.W', 'ScalerOperator._step')]),
    Mut('c11-sliding-inplace-direct', OPS, 'SlidingWindowOperator._step', 'self.parameters[index].tensor = p', 'pass',
        expect=[('C11.W', 'SlidingWindowOperator._step')]),
    Mut('c11-optimizer-no-notify', OPT, 'Optimizer._run', 'for p in self.parameters:\n    p.fire_parameter_changed()', 'pass', nth=2,
        expect=[('C11.O', 'Optimizer._run::')]),
    Mut('c11-lbfgs-no-notify', OPT, 'Optimizer._run_closure', 'for p in self.parameters:\n    p.fire_parameter_changed()', 'pass', nth=1,
        expect=[('C11.O', 'Optimizer._run_closure::')]),
    Mut('c11-prior-pass-again', PRIOR, 'CompoundGammaDirichletPrior', 'def _sample_shape(self) -> torch.Size:\n    return self.tree_model.sample_shape',
        'def _sample_shape(self) -> torch.Size:\n    return self.tree_model.sample_shape\n\ndef handle_parameter_changed(self, variable, index, event) -> None:\n    pass',
        expect=[('C11.H', 'CompoundGammaDirichletPrior::handle_parameter_changed')]),
    Mut('c11-mg94-again', CODON, 'MG94.handle_parameter_changed', 'self.fire_model_changed()', 'self.fire_parameter_changed()',
        expect=[('C11.R', 'MG94::handle_parameter_changed'), ('C11.H', 'MG94::handle_parameter_changed')]),
    Mut('c11-joint-ignores-models', JOINT, 'JointDistributionModel', 'def handle_parameter_changed(…',
        'def handle_parameter_changed(self, variable, index, event) -> None:\n    pass\n\ndef handle_model_changed(self, model, obj, index) -> None:\n    pass',
        expect=[('C11.H', 'JointDistributionModel::handle_model_changed')]),
    Mut('c11-unrooted-typo', TREE, 'UnRootedTreeModel.handle_parameter_changed', 'self.fire_model_changed()', 'self.fire_model_change()',
        expect=[('C11.R', 'UnRootedTreeModel::handle_parameter_changed'), ('C11.H', 'UnRootedTreeModel::handle_parameter_changed')]),
    # benign twins
    Mut('c11-benign-helper', TREE, 'TimeTreeModel', 'def handle_parameter_changed(self, variable, index, event):…',
        'def _invalidate(self):\n    self.heights_need_update = True\n    self.branch_lengths_need_update = True\n\n'
        'def handle_parameter_changed(self, variable, index, event):\n    self._invalidate()\n    self.fire_model_changed(self)',
        benign=True),
    Mut('c11-benign-branches', NUC, 'HKY.handle_parameter_changed', 'self.fire_model_changed()',
        'if index is None:\n    self.fire_model_changed()\nelse:\n    self.fire_model_changed(self, index)', benign=True),
    Mut('c11-benign-super', SITE, 'InvariantSiteModel', 'def _sample_shape(self) -> torch.Size:\n    return self._invariant.shape[:-1]',
        'def _sample_shape(self) -> torch.Size:\n    return self._invariant.shape[:-1]\n\n'
        'def handle_parameter_changed(self, variable, index, event):\n    self._rates = None\n    super().handle_parameter_changed(variable, index, event)',
        benign=True),
    Mut('c11-benign-notify-fire', OPS, 'ScalerOperator._step', 'self.parameters[index].tensor = p',
        'self.parameters[index].fire_parameter_changed()', benign=True),
]
