from sa.selftest import Mut

NUC = 'torchtree/evolution/substitution_model/nucleotide.py'
MODEL = 'torchtree/core/model.py'
TREE = 'torchtree/evolution/tree_model.py'
SITE = 'torchtree/evolution/site_model.py'
PAR = 'torchtree/core/parameter.py'
OPS = 'torchtree/inference/mcmc/operator.py'
OPT = 'torchtree/optim/optimizer.py'
PRIOR = 'torchtree/distributions/tree_prior.py'
CODON = 'torchtree/evolution/substitution_model/codon.py'
JOINT = 'torchtree/distributions/joint_distribution.py'

CORPUS = [
    Mut('c11-hky-no-fire', NUC, 'HKY.handle_parameter_changed', 'self.fire_model_changed()', 'pass',
        expect=[('C11.H', 'HKY::handle_parameter_changed')]),
    Mut('c11-gtr-conditional-fire', NUC, 'GTR.handle_parameter_changed', 'self.fire_model_changed()',
        'if index is not None:\n    self.fire_model_changed()', expect=[('C11.H', 'GTR::handle_parameter_changed')]),
    Mut('c11-callable-no-dirty', MODEL, 'CallableModel.handle_parameter_changed', 'self.lp_needs_update = True', 'pass',
        expect=[('C11.H', 'GMRF::handle_parameter_changed'), ('C11.H', 'ConstantCoalescentModel::handle_parameter_changed')]),
    Mut('c11-callable-model-no-dirty', MODEL, 'CallableModel.handle_model_changed', 'self.lp_needs_update = True', 'pass',
        expect=[('C11.H', 'TreeLikelihoodModel::handle_model_changed'), ('C11.H', 'JointDistributionModel::handle_model_changed')]),
    Mut('c11-timetree-heights-flag', TREE, 'TimeTreeModel.handle_parameter_changed', 'self.heights_need_update = True', 'pass',
        expect=[('C11.H', 'TimeTreeModel::handle_parameter_changed')]),
    Mut('c11-timetree-bl-flag', TREE, 'TimeTreeModel.handle_parameter_changed', 'self.branch_lengths_need_update = True', 'pass',
        expect=[('C11.H', 'TimeTreeModel::handle_parameter_changed')]),
    Mut('c11-reparam-model-flag', TREE, 'ReparameterizedTimeTreeModel.handle_parameter_changed', 'self.heights_need_update = True', 'pass',
        expect=[('C11.H', 'ReparameterizedTimeTreeModel::handle_parameter_changed')]),
    Mut('c11-site-flag', SITE, 'SiteModel.handle_parameter_changed', 'self.needs_update = True', 'pass',
        expect=[('C11.H', 'WeibullSiteModel::handle_parameter_changed'), ('C11.H', 'InvariantSiteModel::handle_parameter_changed')]),
    Mut('c11-site-flag-wrong-value', SITE, 'SiteModel.handle_parameter_changed', 'self.needs_update = True', 'self.needs_update = False',
        expect=[('C11.H', 'WeibullSiteModel::handle_parameter_changed')]),
    Mut('c11-parameter-setter-silent', PAR, 'Parameter', 'self.fire_parameter_changed()', 'pass', nth=0,
        expect=[('C11.W', 'Parameter::tensor.setter')]),
    Mut('c11-view-setter-silent', PAR, 'ViewParameter', 'self.parameter.fire_parameter_changed()', 'pass',
        expect=[('C11.W', 'ViewParameter::tensor.setter')]),
    Mut('c11-transformed-flag', PAR, 'TransformedParameter.handle_parameter_changed', 'self.need_update = True', 'pass',
        expect=[('C11.H', 'TransformedParameter::handle_parameter_changed')]),
    Mut('c11-transformed-no-fire', PAR, 'TransformedParameter.handle_parameter_changed', 'self.fire_parameter_changed()', 'pass',
        expect=[('C11.H', 'TransformedParameter::handle_parameter_changed')]),
    Mut('c11-cat-flag', PAR, 'CatParameter.handle_parameter_changed', 'self._need_update = True', 'pass',
        expect=[('C11.H', 'CatParameter::handle_parameter_changed')]),
    Mut('c11-scaler-inplace-silent', OPS, 'ScalerOperator._step', 'self.parameters[index].tensor = p', 'pass',
        expect=[('C11.W', 'ScalerOperator._step')]),
    Mut('c11-sliding-inplace-direct', OPS, 'SlidingWindowOperator._step', 'self.parameters[index].tensor = p', 'pass',
        expect=[('C11.W', 'SlidingWindowOperator._step')]),
    Mut('c11-optimizer-no-notify', OPT, 'Optimizer._run', 'for p in self.parameters:\n    p.fire_parameter_changed()', 'pass', nth=2,
        expect=[('C11.O', 'Optimizer._run::')]),
    Mut('c11-lbfgs-no-notify', OPT, 'Optimizer._run_closure', 'for p in self.parameters:\n    p.fire_parameter_changed()', 'pass', nth=1,
        expect=[('C11.O', 'Optimizer._run_closure::')]),
    Mut('c11-prior-pass-again', PRIOR, 'CompoundGammaDirichletPrior', 'def _sample_shape(self) -> torch.Size:\n    return self.tree_model.sample_shape',
        'def _sample_shape(self) -> torch.Size:\n    return self.tree_model.sample_shape\n\ndef handle_parameter_changed(self, variable, index, event) -> None:\n    pass',
        expect=[('C11.H', 'CompoundGammaDirichletPrior::handle_parameter_changed')]),
    Mut('c11-mg94-again', CODON, 'MG94.handle_parameter_changed', 'self.fire_model_changed()', 'self.fire_parameter_changed()',
        expect=[('C11.R', 'MG94::handle_parameter_changed'), ('C11.H', 'MG94::handle_parameter_changed')]),
    Mut('c11-joint-ignores-models', JOINT, 'JointDistributionModel', 'def handle_parameter_changed(…',
        'def handle_parameter_changed(self, variable, index, event) -> None:\n    pass\n\ndef handle_model_changed(self, model, obj, index) -> None:\n    pass',
        expect=[('C11.H', 'JointDistributionModel::handle_model_changed')]),
    Mut('c11-unrooted-typo', TREE, 'UnRootedTreeModel.handle_parameter_changed', 'self.fire_model_changed()', 'self.fire_model_change()',
        expect=[('C11.R', 'UnRootedTreeModel::handle_parameter_changed'), ('C11.H', 'UnRootedTreeModel::handle_parameter_changed')]),
    # benign twins
    Mut('c11-benign-helper', TREE, 'TimeTreeModel', 'def handle_parameter_changed(self, variable, index, event):…',
        'def _invalidate(self):\n    self.heights_need_update = True\n    self.branch_lengths_need_update = True\n\n'
        'def handle_parameter_changed(self, variable, index, event):\n    self._invalidate()\n    self.fire_model_changed(self)',
        benign=True),
    Mut('c11-benign-branches', NUC, 'HKY.handle_parameter_changed', 'self.fire_model_changed()',
        'if index is None:\n    self.fire_model_changed()\nelse:\n    self.fire_model_changed(self, index)', benign=True),
    Mut('c11-benign-super', SITE, 'InvariantSiteModel', 'def _sample_shape(self) -> torch.Size:\n    return self._invariant.shape[:-1]',
        'def _sample_shape(self) -> torch.Size:\n    return self._invariant.shape[:-1]\n\n'
        'def handle_parameter_changed(self, variable, index, event):\n    self._rates = None\n    super().handle_parameter_changed(variable, index, event)',
        benign=True),
    Mut('c11-benign-notify-fire', OPS, 'ScalerOperator._step', 'self.parameters[index].tensor = p',
        'self.parameters[index].fire_parameter_changed()', benign=True),
    Mut('c11-benign-inplace-followed-by-notification', 'torchtree/inference/hmc/operator.py', '', "        self._mass_matrix.tensor = m.tensor\n", "        self._mass_matrix.tensor.copy_(m.tensor)\n        self._mass_matrix.fire_parameter_changed()\n", benign=True, mode='text'),
    Mut('c11-inplace-copy-without-notification', 'torchtree/inference/hmc/operator.py', '', "        self._mass_matrix.tensor = m.tensor\n", "        self._mass_matrix.tensor.copy_(m.tensor)\n", expect=[('C11.W', 'HMCOperator._load_state_dict')], mode='text'),
    Mut('c11-transform-cache-on', 'torchtree/evolution/tree_model.py', '', "            self.transform = GeneralNodeHeightTransform(self)\n        else:", "            self.transform = GeneralNodeHeightTransform(self, cache_size=1)\n        else:", expect=[('C11.X', 'GeneralNodeHeightTransform(self, cache_size=1)')], mode='text'),
    Mut('c11-benign-transform-cache-explicitly-off', 'torchtree/evolution/tree_model.py', '', "            self.transform = GeneralNodeHeightTransform(self)\n        else:", "            self.transform = GeneralNodeHeightTransform(self, cache_size=0)\n        else:", benign=True, mode='text'),
    Mut('c11-flag-cleared-without-refresh', 'torchtree/evolution/site_model.py', '', "    def probabilities(self) -> torch.Tensor:\n        if self.needs_update:\n            self.update_rates(self._parameter.tensor, self.invariant)\n            self.needs_update = False",
        "    def probabilities(self) -> torch.Tensor:\n        if self.needs_update:\n            if self._rates is None:\n                self.update_rates(self._parameter.tensor, self.invariant)\n            self.needs_update = False", expect=[('C11.F', 'UnivariateDiscretizedSiteModel.probabilities')], mode='text'),
    Mut('c11-benign-extra-conditional-work-in-refresh', 'torchtree/evolution/site_model.py', '', "    def probabilities(self) -> torch.Tensor:\n        if self.needs_update:\n            self.update_rates(self._parameter.tensor, self.invariant)\n            self.needs_update = False",
        "    def probabilities(self) -> torch.Tensor:\n        if self.needs_update:\n            self.update_rates(self._parameter.tensor, self.invariant)\n            if self._mu is not None:\n                self._last_mu = self._mu.tensor\n            self.needs_update = False", benign=True, mode='text'),
    Mut('c11-memo-key-misses-argument', 'torchtree/evolution/site_pattern.py', '', "    def compute_tips_partials(self, use_ambiguities=False):\n        return compress_alignment(self.alignment, self.indices, use_ambiguities)",
        "    def compute_tips_partials(self, use_ambiguities=False):\n        if self._cache is None:\n            self._cache = compress_alignment(self.alignment, self.indices, use_ambiguities)\n        return self._cache", expect=[('C11.M', 'SitePattern.compute_tips_partials')], mode='text',
        more=[dict(scope='', old="        self.indices = indices\n", new="        self.indices = indices\n        self._cache = None\n", mode='text')]),
    Mut('c11-benign-memo-keyed-by-argument', 'torchtree/evolution/site_pattern.py', '', "    def compute_tips_partials(self, use_ambiguities=False):\n        return compress_alignment(self.alignment, self.indices, use_ambiguities)",
        "    def compute_tips_partials(self, use_ambiguities=False):\n        if use_ambiguities not in self._cache:\n            self._cache[use_ambiguities] = compress_alignment(self.alignment, self.indices, use_ambiguities)\n        return self._cache[use_ambiguities]", benign=True, mode='text',
        more=[dict(scope='', old="        self.indices = indices\n", new="        self.indices = indices\n        self._cache = {}\n", mode='text')]),
    Mut('c11-logger-reads-cached-value', 'torchtree/core/logger.py', '', "                log_p = obj()\n                if len(log_p.shape) == 0 or log_p.shape[-1] <= 1:\n                    row.append(log_p.item())\n                else:\n                    row.append(log_p.sum(-1).item())\n        self.writer.writerow(row)",
        "                log_p = obj.lp\n                if len(log_p.shape) == 0 or log_p.shape[-1] <= 1:\n                    row.append(log_p.item())\n                else:\n                    row.append(log_p.sum(-1).item())\n        self.writer.writerow(row)", expect=[('C11.B', 'Logger.log')], mode='text'),
    Mut('c11-requires-grad-setter-silent', 'torchtree/core/parameter.py', '', "        self._tensor.requires_grad = requires_grad\n        self.fire_parameter_changed()\n", "        self._tensor.requires_grad = requires_grad\n", expect=[('C11.W', 'Parameter::requires_grad.setter')], mode='text'),
]
