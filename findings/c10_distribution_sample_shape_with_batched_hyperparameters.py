"""C10 (fixed): Distribution._sample_shape returned [] when x and the distribution's parameters carry the same sample dimensions (x [S, N] with loc/scale [S, 1]: the
usual sampled-hyperparameter case); JointDistributionModel then summed the log-densities of all samples into one number.
Run: PYTHONPATH=<tree> /venv/bin/python findings/c10_distribution_sample_shape_with_batched_hyperparameters.py   (exit 1 = defect present)"""
import sys, torch
from torchtree import Parameter
from torchtree.distributions.distributions import Distribution
from torchtree.distributions.joint_distribution import JointDistributionModel

bad = 0
for shape_x, shape_p in (((3, 4), (3, 1)), ((3, 1), (3, 1)), ((3, 4), (3, 4)), ((2, 3, 4), (2, 3, 1))):
    x = Parameter('x', torch.arange(float(torch.Size(shape_x).numel())).reshape(shape_x) / 10)
    loc = Parameter('loc', torch.arange(float(torch.Size(shape_p).numel())).reshape(shape_p) / 7)
    scale = Parameter('scale', 1.0 + torch.arange(float(torch.Size(shape_p).numel())).reshape(shape_p) / 5)
    d = Distribution('d', torch.distributions.Normal, x, {'loc': loc, 'scale': scale})
    want = torch.distributions.Normal(loc.tensor, scale.tensor).log_prob(x.tensor).sum(-1)
    try:
        got = JointDistributionModel('j', [d])()
    except Exception as e:
        print(f"x {shape_x} parameters {shape_p}: raises {type(e).__name__} (allowed)")
        continue
    ok = got.shape == want.shape and torch.allclose(got, want)
    bad += not ok
    print(f"x {shape_x} parameters {shape_p}: sample_shape {tuple(d.sample_shape)} joint {tuple(got.shape)} expected one value per sample {tuple(want.shape)}{'' if ok else '   <-- samples pooled'}")
print('DEFECT present' if bad else 'OK')
sys.exit(1 if bad else 0)
