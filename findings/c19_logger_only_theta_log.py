"""C19 (fixed): `advi --iter 0 --samples 0` (logger only) always logged 'coalescent.theta.log', which only exists for piecewise coalescents.
Run: PYTHONPATH=<tree> /venv/bin/python findings/c19_logger_only_theta_log.py   (exit 1 = defect present)"""
import io, sys, json, contextlib, importlib
from torchtree.cli.cli import main
from torchtree.core.utils import process_objects, package_contents, remove_comments, expand_plates, JSONParseError
for module in package_contents('torchtree'):
    importlib.import_module(module)
bad = 0
for extra in ([], ['--clock', 'strict', '--coalescent', 'constant'], ['--clock', 'strict', '--coalescent', 'skyride']):
    sys.argv = ['torchtree-cli', 'advi', '-i', '/repo/data/fluA.fa', '-t', '/repo/data/fluA.tree', '--iter', '0', '--samples', '0'] + extra
    buf = io.StringIO()
    with contextlib.redirect_stdout(buf):
        main()
    data = json.loads(buf.getvalue())
    remove_comments(data); expand_plates(data)
    dic = {}
    try:
        with contextlib.redirect_stdout(io.StringIO()):
            for e in data:
                process_objects(e, dic)
        print(' '.join(extra) or '(default)', ': loaded,', len(dic), 'objects')
    except JSONParseError as e:
        root = e
        while root.__context__ is not None:
            root = root.__context__
        print(' '.join(extra) or '(default)', ': REJECTED:', root)
        bad += 1
sys.exit(1 if bad else 0)
