from sa.selftest import Mut

TL = 'torchtree/evolution/tree_likelihood.py'
DT = 'torchtree/evolution/datatype.py'

def T(id, file, old, new, expect=None, benign=False):
    return Mut(id, file, '', old, new, expect=expect, benign=benign, mode='text')

K1 = 'calculate_treelikelihood_discrete'
CORPUS = [
    Mut('c01-wrong-child-index', TL, 'calculate_treelikelihood_discrete_rescaled', 'partial = mats[..., left, :, :, :] @ partials[left] * (mats[..., right, :, :, :] @ partials[right])',
        'partial = mats[..., left, :, :, :] @ partials[right] * (mats[..., right, :, :, :] @ partials[right])',
        expect=[('C01.K', 'calculate_treelikelihood_discrete_rescaled::first-factor::matmul::matrix-and-partial-of-the-same-child')]),
    Mut('c01-same-child-twice', TL, 'calculate_treelikelihood_discrete_safe', 'partial = mats[..., left, :, :, :] @ partials[left] * (mats[..., right, :, :, :] @ partials[right])',
        'partial = mats[..., left, :, :, :] @ partials[left] * (mats[..., left, :, :, :] @ partials[left])',
        expect=[('C01.K', 'calculate_treelikelihood_discrete_safe::one-factor-per-child')]),
    Mut('c01-transposed', TL, K1, 'partials[node] = mats[..., left, :, :, :] @ partials[left] * (mats[..., right, :, :, :] @ partials[right])',
        'partials[node] = mats[..., left, :, :, :].transpose(-1, -2) @ partials[left] * (mats[..., right, :, :, :] @ partials[right])',
        expect=[('C01.K', 'calculate_treelikelihood_discrete::first-factor::matmul::orientation')]),
    Mut('c01-tipstate-wrong-child', TL, 'calculate_treelikelihood_tip_states_discrete', 'p_right = mat_tips[..., right, :, :, partials[right]]',
        'p_right = mat_tips[..., right, :, :, partials[left]]', expect=[('C01.K', 'calculate_treelikelihood_tip_states_discrete::second-factor::gather::matrix-and-partial')]),
    Mut('c01-tipstate-row-gather', TL, 'calculate_treelikelihood_tip_states_discrete_rescaled', 'p_left = mat_tips[..., left, :, :, partials[left]]',
        'p_left = mat_tips[..., left, :, partials[left], :]', expect=[('C01.K', 'calculate_treelikelihood_tip_states_discrete_rescaled::first-factor::gather::gathers')]),
    Mut('c01-tipstate-guard', TL, 'calculate_treelikelihood_tip_states_discrete', 'if right < tip_count:…', None),
    T('c01-category-axis', TL, "        torch.log(freqs @ torch.sum(props * partials[post_indexing[-1][0]], -3))\n        * weights,\n        -1,\n    )\n\n\ndef calculate_treelikelihood_tip_states_discrete(",
      "        torch.log(freqs @ torch.sum(props * partials[post_indexing[-1][0]], -2))\n        * weights,\n        -1,\n    )\n\n\ndef calculate_treelikelihood_tip_states_discrete(",
      expect=[('C01.K', 'calculate_treelikelihood_discrete::categories-summed-before-log'), ('C01.K', 'kernels::siblings-agree')]),
    T('c01-root-index', TL, "            torch.log(freqs @ torch.sum(props * partials[post_indexing[-1][0]], dim=-3))\n            + torch.cat(scalers, -2).log().sum(dim=-2).unsqueeze(-2)\n        )\n        * weights,\n        dim=-1,\n    )\n\n\ndef calculate_treelikelihood_tip_states_discrete_rescaled(",
      "            torch.log(freqs @ torch.sum(props * partials[post_indexing[-1][1]], dim=-3))\n            + torch.cat(scalers, -2).log().sum(dim=-2).unsqueeze(-2)\n        )\n        * weights,\n        dim=-1,\n    )\n\n\ndef calculate_treelikelihood_tip_states_discrete_rescaled(",
      expect=[('C01.K', 'calculate_treelikelihood_discrete_rescaled::root-partial')]),
    T('c01-nuc-B-without-T', DT, "        (0.0, 1.0, 1.0, 1.0),  # B", "        (0.0, 1.0, 1.0, 0.0),  # B", expect=[('C01.T', 'nucleotide::66:B'), ('C01.T', 'nucleotide::98:b')]),
    T('c01-nuc-U-to-4', DT, "                         16, 16, 5, 9, 3, 3, 14, 8, 16, 6, 16, 17, 17, 17, 17, 17,\n                         # A  B  C  D  e  f  G  H  i  j  K  l  M  N  o   96-111",
      "                         16, 16, 5, 9, 3, 10, 14, 8, 16, 6, 16, 17, 17, 17, 17, 17,\n                         # A  B  C  D  e  f  G  H  i  j  K  l  M  N  o   96-111",
      expect=[('C01.T', 'nucleotide::85:U')]),
    T('c01-nuc-R-Y-swapped', DT, "        (1.0, 0.0, 1.0, 0.0),  # R\n        (0.0, 1.0, 0.0, 1.0),  # Y", "        (0.0, 1.0, 0.0, 1.0),  # R\n        (1.0, 0.0, 1.0, 0.0),  # Y",
      expect=[('C01.T', 'nucleotide::82:R')]),
    T('c01-aa-Z-wrong', DT, "    AMINO_ACIDS_AMBIGUITY_STATES[21][AMINO_ACIDS_STATES[ord('Q')]] = 1.0", "    AMINO_ACIDS_AMBIGUITY_STATES[21][AMINO_ACIDS_STATES[ord('G')]] = 1.0",
      expect=[('C01.T', 'aminoacid::90:Z')]),
    T('c01-codon-count', DT, "    NUMBER_OF_CODONS = (61, 60, 62, 62, 62, 62, 63, 62, 62, 61, 61, 62, 63, 62, 64)", "    NUMBER_OF_CODONS = (61, 60, 62, 62, 62, 62, 63, 62, 62, 61, 62, 62, 63, 62, 64)",
      expect=[('C01.T', 'codon::table[Alternative Yeast]')]),
    # benign
    Mut('c01-benign-rename', TL, K1, 'partials[node] = mats[..., left, :, :, :] @ partials[left] * (mats[..., right, :, :, :] @ partials[right])',
        'p_l = mats[..., left, :, :, :] @ partials[left]\np_r = mats[..., right, :, :, :] @ partials[right]\npartials[node] = p_r * p_l', benign=True),
    Mut('c01-root-zero-inserted-in-the-middle', 'torchtree/evolution/tree_likelihood.py', '', "                    branch_lengths,\n                    torch.zeros(\n                        sample_shape + (1,),\n                        dtype=branch_lengths.dtype,\n                        device=branch_lengths.device,\n                    ),\n                ),",
        "                    branch_lengths[..., :-1],\n                    torch.zeros(\n                        sample_shape + (1,),\n                        dtype=branch_lengths.dtype,\n                        device=branch_lengths.device,\n                    ),\n                    branch_lengths[..., -1:],\n                ),",
        expect=[('C01.B', 'unrooted::branch-vector-is-lengths-then-one-zero')], mode='text'),
    Mut('c01-benign-zeros-like-slice', 'torchtree/evolution/tree_likelihood.py', '', "                    torch.zeros(\n                        sample_shape + (1,),\n                        dtype=branch_lengths.dtype,\n                        device=branch_lengths.device,\n                    ),\n                ),",
        "                    torch.zeros(\n                        sample_shape + (1,),\n                        dtype=branch_lengths.dtype,\n                    ),\n                ),", benign=True, mode='text'),
    Mut('c01-patterns-filtered', 'torchtree/evolution/site_pattern.py', '', "    pattern_ordering = sorted(list(count_dict.keys()))", "    count_dict = {k: v for k, v in count_dict.items() if len(set(k)) > 1}\n    pattern_ordering = sorted(list(count_dict.keys()))",
        expect=[('C01.W', 'compress::every-distinct-column-is-kept-with-its-count')], mode='text'),
    Mut('c01-clock-rate-added-not-multiplied', 'torchtree/evolution/tree_likelihood.py', '', "                bls = self.clock_model.rates * branch_lengths\n", "                bls = self.clock_model.rates + branch_lengths\n", expect=[('C01.B', 'clock::rate-times-time-per-branch')], mode='text'),
    Mut('c01-scalers-escape-the-pattern-weights', 'torchtree/evolution/tree_likelihood.py', '', "    return torch.sum(\n        (\n            torch.log(freqs @ torch.sum(props * partials[post_indexing[-1][0]], dim=-3))\n            + torch.cat(scalers, -2).log().sum(dim=-2).unsqueeze(-2)\n        )\n        * weights,\n        dim=-1,\n    )\n", "    site_log_p = torch.log(freqs @ torch.sum(props * partials[post_indexing[-1][0]], dim=-3))\n    log_scalers = torch.cat(scalers, -2).log().sum(dim=-2).unsqueeze(-2)\n    return torch.sum(site_log_p * weights + log_scalers, dim=-1)\n", expect=[('C01.K', 'log-scalers-are-per-site-terms')], mode='text', nth=1),
    Mut('c01-benign-return-through-locals', 'torchtree/evolution/tree_likelihood.py', '', "    return torch.sum(\n        (\n            torch.log(freqs @ torch.sum(props * partials[post_indexing[-1][0]], dim=-3))\n            + torch.cat(scalers, -2).log().sum(dim=-2).unsqueeze(-2)\n        )\n        * weights,\n        dim=-1,\n    )\n", "    site_log_p = torch.log(freqs @ torch.sum(props * partials[post_indexing[-1][0]], dim=-3))\n    log_scalers = torch.cat(scalers, -2).log().sum(dim=-2).unsqueeze(-2)\n    return torch.sum((site_log_p + log_scalers) * weights, dim=-1)\n", benign=True, mode='text', nth=1),
]
for m in CORPUS:
    if m.id == 'c01-tipstate-guard':
        m.mode = 'text'
        m.old = "        if right < tip_count:\n            p_right = mat_tips[..., right, :, :, partials[right]]\n        else:\n            p_right = mats[..., right, :, :, :] @ partials[right]\n\n        partials[node] = p_left * p_right"
        m.new = "        if left < tip_count:\n            p_right = mat_tips[..., right, :, :, partials[right]]\n        else:\n            p_right = mats[..., right, :, :, :] @ partials[right]\n\n        partials[node] = p_left * p_right"
        m.expect = [('C01.K', 'calculate_treelikelihood_tip_states_discrete::second-factor')]
CORPUS += [
    Mut('c01-site-likelihoods-clamped-before-the-log', 'torchtree/evolution/tree_likelihood.py', 'calculate_treelikelihood_discrete', 'return torch.sum(…',
        'site_likelihoods = freqs @ torch.sum(props * partials[post_indexing[-1][0]], -3)\nsite_likelihoods = site_likelihoods.clamp(min=torch.finfo(site_likelihoods.dtype).tiny)\nreturn torch.sum(torch.log(site_likelihoods) * weights, -1)',
        expect=[('C01.K', 'calculate_treelikelihood_discrete::log-of-the-site-likelihood-itself')]),
    Mut('c01-benign-site-likelihoods-through-a-local', 'torchtree/evolution/tree_likelihood.py', 'calculate_treelikelihood_discrete', 'return torch.sum(…',
        'site_likelihoods = freqs @ torch.sum(props * partials[post_indexing[-1][0]], -3)\nreturn torch.sum(torch.log(site_likelihoods) * weights, -1)', benign=True),
    Mut('c01-branch-lengths-floored-in-the-accessor', 'torchtree/evolution/tree_model.py', 'UnRootedTreeModel.branch_lengths', 'return self._branch_lengths.tensor',
        'return self._branch_lengths.tensor.clamp(min=1e-06)', expect=[('C01.B', 'UnRootedTreeModel.branch_lengths::returns-the-parameter-values')]),
    Mut('c01-benign-branch-lengths-returned-contiguous', 'torchtree/evolution/tree_model.py', 'UnRootedTreeModel.branch_lengths', 'return self._branch_lengths.tensor',
        'return self._branch_lengths.tensor.contiguous()', benign=True),
]
CORPUS += [
    Mut('c01-strict-clock-keeps-the-rate-view-of-construction', 'torchtree/evolution/branch_model.py', '', "        self.branch_count = tree.taxa_count * 2 - 2\n\n    @property\n    def rates(self) -> torch.Tensor:\n        return self._rates.tensor.expand(",
        "        self.branch_count = tree.taxa_count * 2 - 2\n        self._view = self._rates.tensor.expand([-1] * (self._rates.tensor.dim() - 1) + [self.branch_count])\n\n    @property\n    def cached_rates(self) -> torch.Tensor:\n        return self._view\n\n    @property\n    def rates(self) -> torch.Tensor:\n        return self._rates.tensor.expand(",
        mode='text', expect=[('C01.H', 'StrictClockModel.__init__::self._view-is-not-a-snapshot-of-a-parameter')]),
]
CORPUS += [
    Mut('c01-tip-states-clamped-at-the-last-real-state', 'torchtree/evolution/site_pattern.py', '', "    partials = []\n\n    for taxon in alignment.taxa:\n        partials.append(\n            torch.clamp(\n",
        "    partials = []\n    max_state = alignment.data_type.state_count - 1\n\n    for taxon in alignment.taxa:\n        partials.append(\n            torch.clamp(\n",
        mode='text', more=[{'old': "                max=alignment.data_type.state_count,\n            )\n        )\n    return partials, weights", 'new': "                max=max_state,\n            )\n        )\n    return partials, weights", 'mode': 'text'}],
        expect=[('C01.W', 'tip-states::compress_alignment_states::clamped-at-state-count')]),
    Mut('c01-benign-tip-state-bound-through-a-local-name', 'torchtree/evolution/site_pattern.py', '', "    partials = []\n\n    for taxon in alignment.taxa:\n        partials.append(\n            torch.clamp(\n",
        "    partials = []\n    unknown = alignment.data_type.state_count\n\n    for taxon in alignment.taxa:\n        partials.append(\n            torch.clamp(\n",
        mode='text', more=[{'old': "                max=alignment.data_type.state_count,\n            )\n        )\n    return partials, weights", 'new': "                max=unknown,\n            )\n        )\n    return partials, weights", 'mode': 'text'}],
        benign=True),
]
