"""C13 — in a model specification every id denotes exactly one shared object."""
from __future__ import annotations

import ast
from typing import Dict, List, Optional, Set

from sa.cfg import CFG, own_nodes
from sa.jsonkeys import PROCESS_FUNCS, all_from_json, const_key, reader_info
from sa.loader import AnalysisError, Unsupported, dotted_name, norm_text
from sa.report import where
from sa.members import self_attr
from sa.util import enclosing_function

UTILS = 'torchtree.core.utils'

# direct `X.from_json(nested, …)` inside a from_json bypasses registration and duplicate
# detection.  Frozen exceptions, one reason each (confirmed by reading):
DIRECT_FROM_JSON_OK = {
    ('torchtree.optim.optimizer.Optimizer', 'scheduler'): "scheduler specifications carry no id and are owned by the optimizer (never referenced)",
    ('torchtree.optim.optimizer.Optimizer', 'convergence'): "convergence specifications carry no id and are owned by the optimizer (never referenced)",
}


def names_in(e) -> Set[str]:
    return {n.id for n in ast.walk(e) if isinstance(n, ast.Name)}


def raises_parse_error(stmts) -> bool:
    for st in stmts:
        for n in ast.walk(st):
            if isinstance(n, ast.Raise) and n.exc is not None:
                f = n.exc.func if isinstance(n.exc, ast.Call) else n.exc
                if (dotted_name(f) or '').split('.')[-1] == 'JSONParseError':
                    return True
    return False


def check_process_object(ctx, rep):
    m = ctx.prog.module(UTILS)
    fn = m.functions.get('process_object')
    if fn is None:
        raise AnalysisError('core.utils.process_object not found')
    params = [a.arg for a in fn.args.args]
    if len(params) < 2:
        raise AnalysisError('process_object signature not understood')
    data, dic = params[0], params[1]
    cfg = CFG(fn)
    W = where(m, fn)
    construct, register, dup, lookups = [], [], [], []
    for node in cfg.stmt_nodes():
        st = node.stmt
        if node.kind == 'with_exit':
            continue
        for n in own_nodes(st):
            if isinstance(n, ast.Call) and isinstance(n.func, ast.Attribute) and n.func.attr in ('from_json_safe', 'from_json'):
                construct.append(node)
            if isinstance(n, ast.Subscript) and isinstance(n.value, ast.Name) and n.value.id == dic:
                if isinstance(n.ctx, ast.Store):
                    register.append((node, n))
                elif isinstance(n.ctx, ast.Load):
                    lookups.append((node, n))
        if isinstance(st, ast.If) and node.kind == 'test':
            t = st.test
            if isinstance(t, ast.Compare) and len(t.ops) == 1 and isinstance(t.ops[0], ast.In) \
                    and isinstance(t.comparators[0], ast.Name) and t.comparators[0].id == dic and raises_parse_error(st.body):
                dup.append((node, t.left))
    if not construct:
        raise AnalysisError('process_object: construction call (from_json_safe) not found')
    cnode = construct[0]
    # P1 duplicate test dominates construction, on the same id expression that is registered
    ok_dup = bool(dup) and any(cfg.dominates(d, cnode) for d, _ in dup)
    rep.check('C13.P', 'process_object::duplicate-check-dominates-construction', ok_dup, W,
              {'duplicate_tests': [norm_text(d.stmt.test) for d, _ in dup]},
              "an object specification can be constructed without `if id_ in dic: raise JSONParseError` having been passed: "
              "defining an id twice is silently accepted (the second object replaces or shadows the first)")
    # P1b the id is still free when the object is registered: the construction may have registered a nested specification with the same id, so a duplicate
    # test must also lie between the construction and the store (or the id be reserved before the construction)
    after = [d for d, _ in dup if d.id in cfg.reachable_after(cnode, set())]
    reserved = any(cfg.dominates(rn, cnode) for rn, _ in register)
    ok_after = reserved or (bool(register) and all(cfg.must_pass(cnode, rn, after) for rn, _ in register if rn.id in cfg.reachable_after(cnode, set())) and bool(after))
    rep.check('C13.P', 'process_object::id-still-free-when-registered', ok_after, W, {'tests_after_construction': len(after), 'id_reserved_before': reserved},
              "between constructing an object and registering it under its id nothing checks that the id is still free: a specification nested inside the object "
              "that carries the same id was registered in the meantime and is silently replaced (a duplicate id at another nesting depth is accepted)")
    # the call is from_json_safe (error wrapping)
    safe = any(isinstance(n, ast.Call) and isinstance(n.func, ast.Attribute) and n.func.attr == 'from_json_safe'
               for n in own_nodes(cnode.stmt))
    rep.check('C13.P', 'process_object::constructs-through-from_json_safe', safe, where(m, cnode.stmt), None,
              "objects are constructed with from_json instead of from_json_safe: a missing key surfaces as KeyError, not as a parse error")
    # P2 registration post-dominates construction, key is the tested id, value is the constructed object
    ok_reg = False
    reg_facts = {}
    for rnode, sub in register:
        st = rnode.stmt
        if not cfg.postdominates(rnode, cnode):
            continue
        key_names = names_in(sub.slice)
        dup_names = set().union(*[names_in(l) for _, l in dup]) if dup else set()
        val_names = names_in(st.value) if isinstance(st, ast.Assign) else set()
        built = set()
        if isinstance(cnode.stmt, ast.Assign):
            for t in cnode.stmt.targets:
                built |= names_in(t)
        reg_facts = {'key': sorted(key_names), 'duplicate_test_on': sorted(dup_names), 'value': sorted(val_names), 'constructed': sorted(built)}
        if key_names and key_names <= dup_names and val_names & built:
            ok_reg = True
    rep.check('C13.P', 'process_object::registration-postdominates-construction', ok_reg, W, reg_facts,
              "a constructed object is not stored as dic[id_] on every normal path (or under a different key / a different value): "
              "later references to its id fail or resolve to another object")
    # the id tested / registered is data['id']
    id_defs = [st for st in ast.walk(fn) if isinstance(st, ast.Assign) and isinstance(st.value, ast.Subscript)
               and isinstance(st.value.value, ast.Name) and st.value.value.id == data
               and isinstance(st.value.slice, ast.Constant) and st.value.slice.value == 'id']
    id_names = set().union(*[names_in(t) for st in id_defs for t in st.targets]) if id_defs else set()
    rep.check('C13.P', 'process_object::id-is-data-id', bool(id_names) and bool(dup) and all(names_in(l) <= id_names for _, l in dup), W,
              {'id_variables': sorted(id_names)}, "the duplicate test is not made on data['id']")
    # P3 string branch: every lookup is inside a try whose KeyError handler raises JSONParseError
    bad_lookup = []
    for lnode, sub in lookups:
        p = sub
        guarded = False
        while p is not None and p is not fn:
            par = getattr(p, '_parent', None)
            if isinstance(par, ast.Try) and p in par.body:
                for h in par.handlers:
                    names = []
                    if h.type is not None:
                        names = [(dotted_name(x) or '').split('.')[-1] for x in (h.type.elts if isinstance(h.type, ast.Tuple) else [h.type])]
                    if (h.type is None or 'KeyError' in names or 'Exception' in names) and raises_parse_error(h.body):
                        guarded = True
            p = par
        if not guarded:
            bad_lookup.append(sub.lineno)
    rep.check('C13.P', 'process_object::dangling-reference-is-parse-error', bool(lookups) and not bad_lookup, W,
              {'lookups': [s.lineno for _, s in lookups]},
              f"registry lookup at line {bad_lookup[:1]} is not guarded by `except KeyError: raise JSONParseError`: a dangling reference is not reported as a parse error")
    # P4 every normal return went through a lookup or a registration (anything else raises)
    through = [n for n, _ in lookups] + [n for n, _ in register]
    # a loop whose body performs the lookup (reference ranges `stem{a:b}`) counts as the lookup
    for node in cfg.stmt_nodes():
        if node.kind == 'for' and any(isinstance(x, ast.Subscript) and isinstance(x.value, ast.Name) and x.value.id == dic
                                      for s in node.stmt.body for x in ast.walk(s)):
            through.append(node)
    rep.check('C13.P', 'process_object::no-other-way-to-return', cfg.must_pass(cfg.entry, cfg.exit, through), W, None,
              "process_object can return without having looked the id up or registered a new object (e.g. a value that is neither str nor dict is accepted)")
    # string lookups use the same registry that dict specs register into
    rep.check('C13.P', 'process_object::one-registry', all(s.value.id == dic for _, s in lookups + register), W, None, "lookups and registration use different dictionaries")


def check_range_references_look_every_member_up(ctx, rep):
    """C13.P (addition) — a range reference `stem.{a:b}` names b − a ids; a specification is well formed only if every one of them is defined.  Wherever the `{`-form is
    taken apart (a test `"{" in <reference>`), the members are looked up in the registry one by one — a loop over range(…) with a registry subscript inside, under the
    KeyError → JSONParseError guard.  Resolving only the last id accepts a range with a hole."""
    um = ctx.prog.module(UTILS)
    sites = []
    for fn in [f for f in ast.walk(um.tree) if isinstance(f, ast.FunctionDef)]:
        for t in ast.walk(fn):
            if isinstance(t, ast.If) and any(isinstance(c, ast.Compare) and isinstance(c.left, ast.Constant) and c.left.value == '{' and isinstance(c.ops[0], (ast.In, ast.NotIn)) for c in ast.walk(t.test)):
                sites.append((fn, t))
    if not sites:
        rep.undecided('C13.P', 'process_object::range-references', where(um, um.functions.get('process_object') or um.tree), 'no test for the `{`-form of a reference found in core/utils.py')
        return
    for fn, t in sites:
        params = {a.arg for a in fn.args.args}
        loops = [lp for lp in ast.walk(fn) if isinstance(lp, ast.For) and isinstance(lp.iter, ast.Call) and isinstance(lp.iter.func, ast.Name) and lp.iter.func.id == 'range']
        looked = [lp for lp in loops if any(isinstance(x, ast.Subscript) and isinstance(x.value, ast.Name) and x.value.id in params and isinstance(x.ctx, ast.Load) for x in ast.walk(lp))]
        rep.check('C13.P', f"{fn.name}::range-reference-looks-every-member-up", bool(looked), where(um, t), {'loops_over_the_range': len(loops), 'with_a_registry_lookup': len(looked)},
                  f"{fn.name} takes a range reference apart without looking every id of the range up in the registry: a specification whose range has an undefined member (a dangling "
                  f"reference) is accepted as long as the last id exists")


def check_factories_hand_over_the_shared_object(ctx, rep):
    """C13.U (addition) — what a from_json obtains from process_object is THE object of that id; it is handed on as it is.  Its `.tensor` read at load time is the value of
    that moment: handed to a constructor (or put into the argument list of one) it is a copy that later updates of the parameter do not reach.  Accepted reads: the layout
    (`*_like`, `.shape`, `.size`, `.dtype`), and a value written back through the same parameter's own setter."""
    n = 0
    for mname, m in sorted(ctx.prog.modules.items()):
        if not mname.startswith('torchtree') or '.cli' in mname:
            continue
        for fn in ast.walk(m.tree):
            if not isinstance(fn, ast.FunctionDef) or fn.name in PROCESS_FUNCS:
                continue
            cl = getattr(fn, '_parent', None)
            scope = f"{cl.name}.{fn.name}" if isinstance(cl, ast.ClassDef) else fn.name
            po = {t.id for st in ast.walk(fn) if isinstance(st, ast.Assign) and isinstance(st.value, ast.Call) and (dotted_name(st.value.func) or '').split('.')[-1] in PROCESS_FUNCS
                  for t in st.targets if isinstance(t, ast.Name)}
            for x in ast.walk(fn):
                if not (isinstance(x, ast.Attribute) and x.attr == 'tensor' and isinstance(x.value, ast.Name) and x.value.id in po and isinstance(x.ctx, ast.Load)):
                    continue
                n += 1
                par = getattr(x, '_parent', None)
                layout = (isinstance(par, ast.Attribute) and par.attr in ('shape', 'size', 'dtype', 'device', 'ndim', 'dim')) or \
                    (isinstance(par, ast.Call) and (dotted_name(par.func) or '').split('.')[-1].endswith('_like') and par.args and par.args[0] is x)
                st = x
                while st is not None and not isinstance(st, ast.stmt):
                    st = getattr(st, '_parent', None)
                written_back = isinstance(st, (ast.Assign, ast.AugAssign)) and any(
                    isinstance(t, ast.Attribute) and t.attr == 'tensor' and isinstance(t.value, ast.Name) and t.value.id == x.value.id for t in (st.targets if isinstance(st, ast.Assign) else [st.target]))
                rep.check('C13.U', f"factories::{mname.replace('torchtree.', '')}::{scope}::{x.value.id}.tensor::the-shared-object-is-handed-on", layout or written_back, where(m, x),
                          {'use': norm_text(st)[:80] if st is not None else None},
                          f"{scope} reads `{x.value.id}.tensor` — the value the referenced parameter has while the file is being loaded — and hands it on (`{norm_text(st)[:60] if st is not None else ''}`): "
                          f"the object that is built holds a copy, so an update made through the id (by an optimiser, an operator, another holder) is not observed by it")
    rep.analysed['tensor_reads_of_resolved_references'] = n


def check_constructors_outside_the_protocol(ctx, rep):
    """who-may-call: `X.from_json(spec, registry)` / `X.from_json_safe(spec, registry)` with a registry that is shared (anything but a literal `{}` / `dict()`) is called by
    process_object* (core/utils.py), by from_json_safe itself and by from_json methods on their own data — nowhere else.  A helper that builds a specification "on the spot"
    hands back an object that was never checked against the ids already defined and is never registered, so the same id can denote two objects."""
    allowed_fn = set(PROCESS_FUNCS) | {'from_json', 'from_json_safe', '_from_json'}
    n = 0
    for mname, m in sorted(ctx.prog.modules.items()):
        if not mname.startswith('torchtree') or '.cli' in mname:
            continue
        for fn in ast.walk(m.tree):
            if not isinstance(fn, ast.FunctionDef) or fn.name in allowed_fn:
                continue
            cl = getattr(fn, '_parent', None)
            scope = f"{cl.name}.{fn.name}" if isinstance(cl, ast.ClassDef) else fn.name
            for c in ast.walk(fn):
                if not (isinstance(c, ast.Call) and isinstance(c.func, ast.Attribute) and c.func.attr in ('from_json', 'from_json_safe') and len(c.args) >= 2):
                    continue
                if any(c is y for sub in ast.walk(fn) if isinstance(sub, ast.FunctionDef) and sub is not fn for y in ast.walk(sub)):
                    continue
                n += 1
                reg = c.args[1]
                private = (isinstance(reg, ast.Dict) and not reg.keys) or (isinstance(reg, ast.Call) and isinstance(reg.func, ast.Name) and reg.func.id == 'dict' and not reg.args)
                rep.check('C13.W', f"{mname.replace('torchtree.', '')}::{scope}::{norm_text(c)[:50]}::built-through-process_object", private, where(m, c), {'registry': norm_text(reg)[:40]},
                          f"{scope} builds a specification with `{norm_text(c)[:60]}` against the shared registry `{norm_text(reg)[:20]}` outside process_object: the object is not "
                          f"checked against the ids already defined and is not registered — a second definition of its id is accepted silently and a later reference to it does not "
                          f"resolve")
    rep.analysed['constructor_calls_outside_from_json'] = n


def check_from_json_sites(ctx, rep):
    fjs = all_from_json(ctx)
    if len(fjs) < 80:
        raise AnalysisError(f"only {len(fjs)} from_json methods found")
    rep.analysed['from_json'] = len(fjs)
    n_calls = 0
    for ci, fn in fjs:
        params = [a.arg for a in fn.args.args]
        if len(params) < 3:
            continue
        data, dic = params[1], params[2]
        key = ci.qualname
        W = where(ci.module, fn)
        # D: registry argument of process_object* is the from_json's own dic
        bad_d = []
        for n in ast.walk(fn):
            if isinstance(n, ast.Call) and (dotted_name(n.func) or '').split('.')[-1] in PROCESS_FUNCS:
                fname = (dotted_name(n.func) or '').split('.')[-1]
                idx = 2 if fname == 'process_object_with_key' else 1
                arg = n.args[idx] if len(n.args) > idx else next((kw.value for kw in n.keywords if kw.arg == 'dic'), None)
                n_calls += 1
                if not (isinstance(arg, ast.Name) and arg.id == dic):
                    bad_d.append((n.lineno, ast.unparse(arg) if arg is not None else '<missing>'))
        if any(isinstance(n, ast.Call) and (dotted_name(n.func) or '').split('.')[-1] in PROCESS_FUNCS for n in ast.walk(fn)):
            rep.check('C13.D', key, not bad_d, W, {'registry_param': dic},
                      f"{ci.name}.from_json passes {bad_d[:1]} instead of its registry `{dic}` to process_object*: "
                      f"nested objects are registered in / looked up from another dictionary, so ids are no longer shared")
        # dic must not be re-bound or copied
        rebinds = [n for n in ast.walk(fn) if isinstance(n, ast.Assign) and any(isinstance(t, ast.Name) and t.id == dic for t in n.targets)]
        if rebinds:
            rep.bad('C13.D', key + '::rebind', where(ci.module, rebinds[0]), None, f"{ci.name}.from_json re-binds its registry parameter `{dic}`")
        # W1: direct X.from_json / from_json_safe on nested data
        for n in ast.walk(fn):
            if isinstance(n, ast.Call) and isinstance(n.func, ast.Attribute) and n.func.attr in ('from_json', 'from_json_safe'):
                recv = n.func.value
                if isinstance(recv, ast.Call) and isinstance(recv.func, ast.Name) and recv.func.id == 'super':
                    continue  # delegation to the base class on the same data
                if isinstance(recv, ast.Name) and recv.id == 'cls':
                    continue
                nested_key = None
                for a in n.args[:1]:
                    for s in ast.walk(a):
                        if isinstance(s, ast.Subscript) and isinstance(s.value, ast.Name) and s.value.id == data:
                            nested_key = const_key(ctx, ci.module, s.slice)
                    if isinstance(a, ast.Name) and a.id == data:
                        nested_key = '<same data>'
                if nested_key == '<same data>':
                    continue
                k2 = f"{ci.qualname}::{nested_key}"
                if (ci.qualname, nested_key) in DIRECT_FROM_JSON_OK:
                    rep.excluded('C13.W', k2, where(ci.module, n), DIRECT_FROM_JSON_OK[(ci.qualname, nested_key)])
                else:
                    rep.bad('C13.W', k2, where(ci.module, n), {'call': norm_text(n)[:100]},
                            f"{ci.name}.from_json builds the nested specification data['{nested_key}'] with a direct "
                            f"{ast.unparse(n.func)}(...) call: the object is never registered and a duplicate id is not detected")
        # W4: a parse error raised while resolving a nested specification must propagate: a handler that swallows it turns a dangling reference or a
        # duplicate id into a silently substituted default
        for t in ast.walk(fn):
            if not isinstance(t, ast.Try):
                continue
            guarded = [c for b in t.body for c in ast.walk(b) if isinstance(c, ast.Call) and (dotted_name(c.func) or '').split('.')[-1] in PROCESS_FUNCS]
            if not guarded:
                continue
            for h in t.handlers:
                names = [] if h.type is None else [x.id if isinstance(x, ast.Name) else (x.attr if isinstance(x, ast.Attribute) else '') for x in ast.walk(h.type) if isinstance(x, (ast.Name, ast.Attribute))]
                catches = h.type is None or any(n_ in ('JSONParseError', 'Exception', 'BaseException', 'KeyError') for n_ in names)
                reraises = any(isinstance(x, ast.Raise) for b in h.body for x in ast.walk(b))
                if catches:
                    rep.check('C13.W', f"{ci.qualname}::parse-errors-of-nested-specifications-propagate::{norm_text(guarded[0])[:40]}", reraises, where(ci.module, h),
                              {'handler': ast.unparse(h.type) if h.type is not None else 'bare except'},
                              f"{ci.name}.from_json catches {ast.unparse(h.type) if h.type is not None else 'every exception'} around `{norm_text(guarded[0])[:50]}` and carries on: "
                              f"a reference to an undefined id (or a duplicate definition) there is silently replaced instead of being rejected")
        # W3: a registered object must reach the constructor itself, not a private copy built from its id / tensor
        reg_names = set()
        reg_subs = set()
        for st in ast.walk(fn):
            if isinstance(st, ast.Assign) and len(st.targets) == 1:
                v = st.value
                from_reg = any(isinstance(c, ast.Call) and (dotted_name(c.func) or '').split('.')[-1] in PROCESS_FUNCS for c in ast.walk(v)) or \
                    any(isinstance(x, ast.Subscript) and isinstance(x.value, ast.Name) and x.value.id == dic and isinstance(x.ctx, ast.Load) for x in ast.walk(v))
                if from_reg:
                    t = st.targets[0]
                    if isinstance(t, ast.Name):
                        reg_names.add(t.id)
                    elif isinstance(t, ast.Subscript) and isinstance(t.value, ast.Name):
                        reg_subs.add(t.value.id)
        for c in ast.walk(fn):
            if not isinstance(c, ast.Call):
                continue
            tcls = ctx.classes.resolve_class_expr(ci.module, c.func)
            if tcls is None or not tcls.has_base('torchtree.core.abstractparameter.AbstractParameter'):
                continue
            for a in list(c.args) + [kw.value for kw in c.keywords]:
                for x in ast.walk(a):
                    if isinstance(x, ast.Attribute) and x.attr in ('tensor', 'id'):
                        base = x.value
                        hit = (isinstance(base, ast.Name) and base.id in reg_names) or \
                              (isinstance(base, ast.Subscript) and isinstance(base.value, ast.Name) and base.value.id in reg_subs)
                        if hit:
                            rep.bad('C13.W', f"{ci.qualname}::private-copy@{norm_text(base)}", where(ci.module, c), {'call': norm_text(c)[:120]},
                                    f"{ci.name}.from_json builds a new {tcls.name} from `{norm_text(base)}`, an object it obtained from the registry: the model "
                                    f"holds a private copy, so an update made through the registered object (another holder, an operator, a prior) is not seen")
        # W2: silent registry lookups (dic.get / `in dic` fallback) and unguarded direct stores
        cfg = None
        for n in ast.walk(fn):
            if isinstance(n, ast.Call) and isinstance(n.func, ast.Attribute) and isinstance(n.func.value, ast.Name) \
                    and n.func.value.id == dic and n.func.attr in ('get', 'setdefault', 'pop', 'update'):
                rep.bad('C13.W', f"{ci.qualname}::dic.{n.func.attr}", where(ci.module, n), None,
                        f"{ci.name}.from_json uses {dic}.{n.func.attr}(…): an undefined id is silently accepted / an existing id silently replaced")
            if isinstance(n, ast.Subscript) and isinstance(n.value, ast.Name) and n.value.id == dic and isinstance(n.ctx, ast.Store):
                cfg = cfg or CFG(fn)
                st = n
                while not isinstance(st, ast.stmt):
                    st = st._parent
                node = cfg.node_of(st)
                key_names = names_in(n.slice)
                guards = []
                for g in cfg.stmt_nodes():
                    if g.kind == 'test' and isinstance(g.stmt, ast.If):
                        t = g.stmt.test
                        if isinstance(t, ast.Compare) and len(t.ops) == 1 and isinstance(t.ops[0], ast.In) \
                                and isinstance(t.comparators[0], ast.Name) and t.comparators[0].id == dic \
                                and names_in(t.left) == key_names and raises_parse_error(g.stmt.body):
                            guards.append(g)
                ok = any(cfg.dominates(g, node) for g in guards)
                rep.check('C13.W', f"{ci.qualname}::self-registration", ok, where(ci.module, n), {'key': sorted(key_names)},
                          f"{ci.name}.from_json stores into the registry directly without a dominating duplicate test on the same id")
            if isinstance(n, ast.Subscript) and isinstance(n.value, ast.Name) and n.value.id == dic and isinstance(n.ctx, ast.Load):
                # direct lookup: KeyError is converted by from_json_safe unless swallowed here
                p = n
                swallowed = False
                while p is not None and p is not fn:
                    par = getattr(p, '_parent', None)
                    if isinstance(par, ast.Try) and p in par.body:
                        for h in par.handlers:
                            names = [(dotted_name(x) or '').split('.')[-1] for x in
                                     ((h.type.elts if isinstance(h.type, ast.Tuple) else [h.type]) if h.type is not None else [])]
                            if (h.type is None or set(names) & {'KeyError', 'Exception', 'LookupError'}) and not any(
                                    isinstance(x, ast.Raise) for s in h.body for x in ast.walk(s)):
                                swallowed = True
                    p = par
                rep.check('C13.W', f"{ci.qualname}::direct-lookup@{norm_text(n)}", not swallowed, where(ci.module, n), None,
                          f"{ci.name}.from_json swallows the KeyError of a direct registry lookup: a dangling reference is silently accepted")
    rep.analysed['process_object_calls_in_from_json'] = n_calls
    if n_calls < 150:
        raise AnalysisError(f"only {n_calls} process_object* calls found in from_json methods")


def check_from_json_safe(ctx, rep):
    ci = ctx.classes.get('torchtree.core.serializable.JSONSerializable')
    r = ci.resolve('from_json_safe')
    if r is None:
        raise AnalysisError('JSONSerializable.from_json_safe not found')
    fn = r[1]
    W = where(ci.module, fn)
    tries = [n for n in ast.walk(fn) if isinstance(n, ast.Try)]
    ok_call = any(isinstance(n, ast.Call) and isinstance(n.func, ast.Attribute) and n.func.attr == 'from_json'
                  and isinstance(n.func.value, ast.Name) and n.func.value.id == 'cls'
                  for t in tries for s in t.body for n in ast.walk(s))
    rep.check('C13.P', 'from_json_safe::wraps-from_json', ok_call, W, None, "from_json_safe does not call cls.from_json inside a try")
    handlers = {}
    for t in tries:
        for h in t.handlers:
            for x in ((h.type.elts if isinstance(h.type, ast.Tuple) else [h.type]) if h.type is not None else []):
                handlers[(dotted_name(x) or '').split('.')[-1]] = h
    for exc in ('KeyError', 'JSONParseError'):
        h = handlers.get(exc)
        ok = h is not None
        if ok:
            hcfg_ok = raises_parse_error(h.body)
            # every path through the handler raises
            tmp = ast.FunctionDef(name='h', args=ast.arguments(posonlyargs=[], args=[], kwonlyargs=[], kw_defaults=[], defaults=[]),
                                  body=h.body, decorator_list=[], lineno=h.lineno, col_offset=0)
            c = CFG(tmp)
            ok = hcfg_ok and c.exit.id not in c.reachable(c.entry)
        rep.check('C13.P', f"from_json_safe::{exc}-becomes-parse-error", ok, W, None,
                  f"a {exc} raised while constructing an object does not always leave from_json_safe as JSONParseError "
                  f"(missing key / nested error silently accepted or reported as a crash)")


def check_main(ctx, rep):
    m = ctx.prog.module('torchtree.torchtree')
    fn = m.functions.get('main')
    if fn is None:
        raise AnalysisError('torchtree.main not found')
    cfg = CFG(fn)

    def nodes_calling(name):
        out = []
        for node in cfg.stmt_nodes():
            if node.kind == 'with_exit':
                continue
            for n in own_nodes(node.stmt):
                if isinstance(n, ast.Call) and (dotted_name(n.func) or '').split('.')[-1] == name:
                    out.append((node, n))
        return out

    po = nodes_calling('process_objects') + nodes_calling('process_object')
    if not po:
        raise AnalysisError('main(): process_objects call not found')
    first = po[0][0]
    load = nodes_calling('load')
    data_var = None
    for node, call in load:
        if isinstance(node.stmt, ast.Assign) and (dotted_name(call.func) or '') == 'json.load':
            data_var = node.stmt.targets[0].id if isinstance(node.stmt.targets[0], ast.Name) else None
            break
    for name in ('remove_comments', 'expand_plates'):
        calls = nodes_calling(name)
        ok = bool(calls) and any(cfg.dominates(c, first) and call.args and isinstance(call.args[0], ast.Name) and call.args[0].id == data_var
                                 for c, call in calls)
        rep.check('C13.M', f"main::{name}-before-construction", ok, where(m, fn), {'specification_variable': data_var},
                  f"main() does not apply {name}() to the loaded specification on every path before the first process_objects: "
                  + ("keys starting with '_' / ignored objects take effect" if name == 'remove_comments' else "plates are not expanded"))
    rc, ep = nodes_calling('remove_comments'), nodes_calling('expand_plates')
    if rc and ep:
        rep.check('C13.M', 'main::comments-removed-before-plates', cfg.dominates(rc[0][0], ep[0][0]), where(m, fn), None,
                  "plates are expanded before comments are removed: an ignored plate is expanded")
    up = nodes_calling('update_parameters')
    if up:
        ok = all(first.id not in cfg.reachable(first, forward=False) or not (u.id in cfg.reachable_after(first)) for u, _ in up)
        rep.check('C13.M', 'main::checkpoint-injection-before-construction', ok, where(m, fn), None,
                  "update_parameters can run after objects have been constructed")
    # the loop constructs every element with the same registry
    regs = set()
    for node, call in po:
        if len(call.args) > 1:
            regs.add(ast.unparse(call.args[1]))
    rep.check('C13.M', 'main::one-registry', len(regs) == 1, where(m, fn), {'registry': sorted(regs)},
              "main() constructs top-level objects with different registries")
    if len(regs) == 1:
        name = list(regs)[0]
        defs = [n for n in ast.walk(fn) if isinstance(n, ast.Assign) and any(isinstance(t, ast.Name) and t.id == name for t in n.targets)]
        in_loop = [d for d in defs if any(isinstance(p, (ast.For, ast.While)) for p in _parents(d, fn))]
        rep.check('C13.M', 'main::registry-created-once', len(defs) == 1 and not in_loop, where(m, fn), None,
                  "the registry is re-created between top-level elements: ids defined by one element are invisible to the next")
    # only JSONParseError is swallowed
    swallowed = []
    for t in [n for n in ast.walk(fn) if isinstance(n, ast.Try)]:
        for h in t.handlers:
            names = [(dotted_name(x) or '').split('.')[-1] for x in
                     ((h.type.elts if isinstance(h.type, ast.Tuple) else [h.type]) if h.type is not None else ['<bare>'])]
            if not any(isinstance(x, ast.Raise) for s in h.body for x in ast.walk(s)):
                swallowed += names
    rep.check('C13.M', 'main::only-parse-errors-swallowed', set(swallowed) <= {'JSONParseError'}, where(m, fn), {'swallowed': swallowed},
              f"main() swallows {swallowed}: construction errors other than parse errors are hidden")
    # an ill-formed specification is REJECTED: once a parse error has been caught, nothing further is constructed and nothing runs (the handler leads to the exit only)
    after_error = []
    handlers = [nd for nd in cfg.nodes if nd.kind == 'handler' and nd.stmt is not None and any(
        (dotted_name(x) or '').split('.')[-1] == 'JSONParseError' for x in ((nd.stmt.type.elts if isinstance(nd.stmt.type, ast.Tuple) else [nd.stmt.type]) if nd.stmt.type is not None else []))]
    runs = nodes_calling('run')
    for h in handlers:
        reach = cfg.reachable_after(h)
        for node, call in po + runs:
            if node.id in reach:
                after_error.append(norm_text(call)[:40])
    if handlers:
        rep.check('C13.M', 'main::nothing-is-built-or-run-after-a-parse-error', not after_error, where(m, handlers[0].stmt), {'reachable_after_the_handler': sorted(set(after_error))},
                  f"after main() has caught a JSONParseError it can still reach {sorted(set(after_error))}: the ill-formed element is skipped and the rest of the file is constructed "
                  f"and run, so a specification with a dangling reference / duplicate id is executed in part instead of being rejected")
    else:
        rep.undecided('C13.M', 'main::nothing-is-built-or-run-after-a-parse-error', where(m, fn), 'no handler of JSONParseError found in main()')


def _parents(n, stop):
    p = getattr(n, '_parent', None)
    while p is not None and p is not stop:
        yield p
        p = getattr(p, '_parent', None)


def check_remove_comments(ctx, rep):
    """remove_comments: recursion reaches every nested dict/list; deletes '_' keys and ignore:true dicts."""
    m = ctx.prog.module(UTILS)
    fn = m.functions.get('remove_comments')
    if fn is None:
        raise AnalysisError('remove_comments not found')
    W = where(m, fn)
    src = fn
    has_underscore = any(isinstance(n, ast.Call) and isinstance(n.func, ast.Attribute) and n.func.attr == 'startswith'
                         and n.args and isinstance(n.args[0], ast.Constant) and n.args[0].value == '_' for n in ast.walk(src))
    dels = [n for n in ast.walk(src) if isinstance(n, ast.Delete)]
    rec = [n for n in ast.walk(src) if isinstance(n, ast.Call) and isinstance(n.func, ast.Name) and n.func.id == fn.name]
    isinst = {(dotted_name(n.args[1]) or '') for n in ast.walk(src) if isinstance(n, ast.Call) and isinstance(n.func, ast.Name)
              and n.func.id == 'isinstance' and len(n.args) == 2}
    ignore = any(isinstance(n, ast.Constant) and n.value == 'ignore' for n in ast.walk(src))
    rep.check('C13.M', 'remove_comments::shape', has_underscore and len(dels) >= 2 and len(rec) >= 2 and {'list', 'dict'} <= isinst and ignore, W,
              {'deletes': len(dels), 'recursive_calls': len(rec), 'handles': sorted(isinst)},
              "remove_comments no longer deletes '_'-prefixed keys and ignore:true objects at every nesting level (dict values and list items)")
    # deleting from the container being iterated: only over a reversed index range or over a copy
    bad_del = []
    for lp in [n for n in ast.walk(src) if isinstance(n, ast.For)]:
        dels_in = [d for d in ast.walk(lp) if isinstance(d, ast.Delete)]
        if not dels_in:
            continue
        it = lp.iter
        txt = ast.unparse(it)
        reverse_range = isinstance(it, ast.Call) and isinstance(it.func, ast.Name) and it.func.id == 'range' and len(it.args) == 3 \
            and isinstance(it.args[2], ast.UnaryOp) and isinstance(it.args[2].op, ast.USub)
        is_copy = isinstance(it, ast.Call) and ((isinstance(it.func, ast.Name) and it.func.id in ('list', 'tuple', 'sorted', 'reversed'))
                                                or (isinstance(it.func, ast.Attribute) and it.func.attr == 'copy'))
        if not (reverse_range or is_copy):
            bad_del.append((lp.lineno, txt))
    rep.check('C13.M', 'remove_comments::no-deletion-while-iterating-forward', not bad_del, W, {'loops': bad_del},
              f"remove_comments deletes from the container it iterates over in forward order ({bad_del[:1]}): the element after a deleted one is skipped, "
              f"so an ignored object / comment key that follows another one survives")
    # the recursion on dict values happens for kept keys, deletion for the others: the If that tests startswith has both branches
    ok = False
    for n in ast.walk(src):
        if isinstance(n, ast.If) and any(isinstance(x, ast.Attribute) and x.attr == 'startswith' for x in ast.walk(n.test)):
            b = any(isinstance(x, ast.Delete) for s in n.body for x in ast.walk(s))
            o = any(isinstance(x, ast.Delete) for s in n.orelse for x in ast.walk(s))
            rb = any(isinstance(x, ast.Call) and isinstance(x.func, ast.Name) and x.func.id == fn.name for s in n.body for x in ast.walk(s))
            ro = any(isinstance(x, ast.Call) and isinstance(x.func, ast.Name) and x.func.id == fn.name for s in n.orelse for x in ast.walk(s))
            neg = isinstance(n.test, ast.BoolOp) or isinstance(n.test, ast.UnaryOp)
            ok = (b != o) and (rb != ro) and (b != rb)
    rep.check('C13.M', 'remove_comments::delete-xor-recurse', ok, W, None,
              "remove_comments: the branch that keeps a key must recurse into it and the other branch must delete it")


def check_expand_plates(ctx, rep):
    """expand_plates replaces a plate by its objects inside its parent list (callee does the surgery through the (parent, idx) it was handed): the traversal that hands
    them out must not be a forward enumeration of that same list, and the new objects must be expanded themselves"""
    m = ctx.prog.module(UTILS)
    fn = m.functions.get('expand_plates')
    if fn is None:
        raise AnalysisError('expand_plates not found')
    W = where(m, fn)
    params = [a.arg for a in fn.args.args]
    if len(params) < 3:
        raise Unsupported(fn, 'expand_plates(obj, parent, idx) signature expected')
    obj, parent, idx = params[:3]
    surgery = [st for st in ast.walk(fn) if (isinstance(st, ast.Delete) and any(isinstance(t, ast.Subscript) and isinstance(t.value, ast.Name) and t.value.id == parent for t in st.targets))
               or (isinstance(st, ast.Assign) and any(isinstance(t, ast.Subscript) and isinstance(t.value, ast.Name) and t.value.id == parent for t in st.targets))]
    loops = []
    for lp in [n for n in ast.walk(fn) if isinstance(n, ast.For)]:
        calls = [c for c in ast.walk(lp) if isinstance(c, ast.Call) and isinstance(c.func, ast.Name) and c.func.id == fn.name and len(c.args) >= 3
                 and isinstance(c.args[1], ast.Name) and c.args[1].id == obj and not (isinstance(c.args[2], ast.Constant) and c.args[2].value is None)]
        if calls:
            loops.append(lp)
    if not surgery or not loops:
        raise Unsupported(fn, 'list surgery / traversal of expand_plates not recognised')
    bad = []
    for lp in loops:
        it = lp.iter
        txt = ast.unparse(it)
        backwards = (isinstance(it, ast.Call) and isinstance(it.func, ast.Name) and it.func.id == 'reversed') or \
            (isinstance(it, ast.Call) and isinstance(it.func, ast.Name) and it.func.id == 'range' and len(it.args) == 3 and isinstance(it.args[2], ast.UnaryOp))
        if not backwards:
            bad.append(txt)
    rep.check('C13.M', 'expand_plates::no-list-surgery-under-forward-enumeration', not bad, W, {'traversals': [ast.unparse(l.iter) for l in loops], 'surgery': [norm_text(s_)[:40] for s_ in surgery]},
              f"expand_plates enumerates a list forward ({bad[:1]}) while the callee deletes / inserts at the position it was handed: the element after an empty-range plate is "
              f"skipped and the first object of an expanded plate is never visited, so a plate in that position or nested there survives as an object of type Plate")
    # the objects of a plate take its place in the order of the plate's range: `parent.insert(i, clone)` with a position that does not move inside the loop puts every clone
    # BEFORE the previous one (reverse order) — ids and registry are the same, but a list-valued x / parameter list / flow layers are evaluated in another order
    rev = []
    for lp in [n for n in ast.walk(fn) if isinstance(n, (ast.For, ast.While))]:
        for c in ast.walk(lp):
            if isinstance(c, ast.Call) and isinstance(c.func, ast.Attribute) and c.func.attr == 'insert' and isinstance(c.func.value, ast.Name) and c.func.value.id == parent and len(c.args) == 2:
                pos = c.args[0]
                names = {x.id for x in ast.walk(pos) if isinstance(x, ast.Name)}
                moved = any(isinstance(st, (ast.AugAssign, ast.Assign)) and any(isinstance(x, ast.Name) and x.id in names for t in (st.targets if isinstance(st, ast.Assign) else [st.target])
                                                                                 for x in ast.walk(t)) for st in ast.walk(lp))
                moved = moved or any(isinstance(x, ast.Call) and isinstance(x.func, ast.Attribute) and isinstance(x.func.value, ast.Name) and x.func.value.id in names
                                     and x.func.attr in ('append', 'extend', 'insert', 'pop', 'remove', 'add') for x in ast.walk(lp))
                loopvars = {x.id for x in ast.walk(lp.target) if isinstance(x, ast.Name)} if isinstance(lp, ast.For) else set()
                if not moved and not (names & loopvars):
                    rev.append(c)
    rep.check('C13.M', 'expand_plates::objects-of-a-plate-keep-the-order-of-its-range', not rev, where(m, rev[0]) if rev else W, {'insertions_at_a_fixed_position': [norm_text(c)[:50] for c in rev]},
              f"expand_plates inserts every object of a plate at the same position (`{norm_text(rev[0])[:50] if rev else ''}`) inside the loop over the plate's range: the objects end "
              f"up in reverse order, so anything that takes them as an ordered list (x of a distribution, CatParameter, flow layers) is evaluated with its components permuted")
    # the objects that replace a plate are expanded themselves
    built = [st.targets[0].id for st in ast.walk(fn) if isinstance(st, ast.Assign) and isinstance(st.targets[0], ast.Name) and isinstance(st.value, ast.List) and not st.value.elts]
    nested = any(isinstance(c, ast.Call) and isinstance(c.func, ast.Name) and c.func.id == fn.name and c.args and isinstance(c.args[0], ast.Name) and c.args[0].id in built + ['clone']
                 for c in ast.walk(fn))
    revisit = not bad and False
    rep.check('C13.M', 'expand_plates::objects-of-a-plate-are-expanded-too', nested or revisit, W, None,
              "the objects that replace a plate are inserted without being traversed: a plate nested in them is never expanded")


def factory_keys(fn: ast.FunctionDef):
    """(may-written keys, type constant, open?) of a json_factory."""
    may: Set[str] = set()
    types: Set[str] = set()
    open_ = False
    ret_vars = {n.value.id for n in ast.walk(fn) if isinstance(n, ast.Return) and isinstance(n.value, ast.Name)}
    for n in ast.walk(fn):
        if isinstance(n, ast.Dict):
            par = getattr(n, '_parent', None)
            top = (isinstance(par, ast.Return)) or (isinstance(par, ast.Assign) and any(isinstance(t, ast.Name) and t.id in ret_vars for t in par.targets))
            if not top:
                continue
            for k, v in zip(n.keys, n.values):
                if k is None:
                    open_ = True
                elif isinstance(k, ast.Constant):
                    may.add(k.value)
                    if k.value == 'type' and isinstance(v, ast.Constant):
                        types.add(v.value)
                elif isinstance(k, ast.Attribute) and k.attr == 'tag':
                    may.add(('tag', ast.unparse(k)))
                else:
                    open_ = True
        if isinstance(n, ast.Assign):
            for t in n.targets:
                if isinstance(t, ast.Subscript) and isinstance(t.value, ast.Name) and t.value.id in ret_vars:
                    if isinstance(t.slice, ast.Constant):
                        may.add(t.slice.value)
                    elif isinstance(t.slice, ast.Attribute) and t.slice.attr == 'tag':
                        may.add(('tag', ast.unparse(t.slice)))
                    else:
                        open_ = True
        if isinstance(n, ast.Call) and isinstance(n.func, ast.Attribute) and n.func.attr == 'update' \
                and isinstance(n.func.value, ast.Name) and n.func.value.id in ret_vars:
            open_ = True
    return may, types, open_


def flag_reads(ctx):
    """key -> {'presence': [(ci, fn, node)], 'value': [(ci, fn, node)]} over all from_json: how optional keys are consulted."""
    out: Dict[str, Dict[str, list]] = {}
    for ci, fn in all_from_json(ctx):
        params = [a.arg for a in fn.args.args]
        if len(params) < 2:
            continue
        data = params[1]
        value_keys = set()
        for n in ast.walk(fn):
            if isinstance(n, ast.Subscript) and isinstance(n.value, ast.Name) and n.value.id == data and isinstance(n.ctx, ast.Load):
                k = const_key(ctx, ci.module, n.slice)
                if k:
                    value_keys.add(k)
            if isinstance(n, ast.Call) and isinstance(n.func, ast.Attribute) and n.func.attr in ('get', 'pop') and isinstance(n.func.value, ast.Name) \
                    and n.func.value.id == data and n.args:
                k = const_key(ctx, ci.module, n.args[0])
                if k:
                    value_keys.add(k)
                    if len(n.args) > 1 and isinstance(n.args[1], ast.Constant) and isinstance(n.args[1].value, bool):
                        out.setdefault(k, {'presence': [], 'value': []})['value'].append((ci, fn, n))
            if isinstance(n, ast.Call) and (dotted_name(n.func) or '').split('.')[-1] in ('process_objects', 'process_object_with_key'):
                for kw in n.keywords:
                    if kw.arg == 'key':
                        k = const_key(ctx, ci.module, kw.value)
                        if k:
                            value_keys.add(k)
                if (dotted_name(n.func) or '').endswith('process_object_with_key') and n.args:
                    k = const_key(ctx, ci.module, n.args[0])
                    if k:
                        value_keys.add(k)
        for n in ast.walk(fn):
            if isinstance(n, ast.Compare) and len(n.ops) == 1 and isinstance(n.ops[0], ast.In) and isinstance(n.comparators[0], ast.Name) \
                    and n.comparators[0].id == data:
                k = const_key(ctx, ci.module, n.left)
                if k and k not in value_keys:
                    out.setdefault(k, {'presence': [], 'value': []})['presence'].append((ci, fn, n))
    return out


def check_flag_semantics(ctx, rep):
    """An optional key that one reader consults only by presence (`'k' in data`) while sibling readers consult the same key by its
    boolean value is a deviant: `"k": false` then switches the behaviour on."""
    reads = flag_reads(ctx)
    n = 0
    for k, d in sorted(reads.items()):
        if not d['value']:
            continue
        for ci, fn, node in d['presence']:
            n += 1
            rep.bad('C13.F', f"{ci.qualname}::flag:{k}", where(ci.module, node),
                    {'key': k, 'read_by_value_in': sorted({c.name for c, _, _ in d['value']})},
                    f"{ci.name}.from_json only tests whether '{k}' is present, while {sorted({c.name for c, _, _ in d['value']})} read the same option by its "
                    f"boolean value: a specification (or json_factory) giving \"{k}\": false switches the behaviour on")
        for ci, fn, node in d['value']:
            rep.ok('C13.F', f"{ci.qualname}::flag:{k}", where(ci.module, node), {'key': k})
    return reads


def reader_companions(fn, data_name, may):
    """{g: keys dereferenced on every path of the branch `if '<g>' in data:`} — the keys that must accompany g in a specification the reader accepts; nested presence tests of
    keys the factory never writes are taken as false"""
    def key_of_test(t):
        if isinstance(t, ast.Compare) and len(t.ops) == 1 and isinstance(t.ops[0], ast.In) and isinstance(t.left, ast.Constant) and isinstance(t.comparators[0], ast.Name) \
                and t.comparators[0].id == data_name:
            return t.left.value
        return None

    def derefs(node):
        return {x.slice.value for x in ast.walk(node) if isinstance(x, ast.Subscript) and isinstance(x.value, ast.Name) and x.value.id == data_name
                and isinstance(x.slice, ast.Constant) and isinstance(x.ctx, ast.Load)}

    def must(stmts):
        out = set()
        for st in stmts:
            if isinstance(st, ast.If):
                k = key_of_test(st.test)
                if k is not None and k not in may:
                    out |= must(st.orelse)
                else:
                    out |= derefs(st.test) | (must(st.body) & must(st.orelse))
            elif isinstance(st, (ast.For, ast.While, ast.With, ast.Try)):
                pass
            else:
                out |= derefs(st)
        return out
    comp = {}

    def walk(stmts):
        for st in stmts:
            if isinstance(st, ast.If):
                k = key_of_test(st.test)
                if k is not None:
                    comp[k] = comp.get(k, set()) | (must(st.body) - {k})
                walk(st.body)
                walk(st.orelse)
    walk(fn.body)
    return {k: v for k, v in comp.items() if v}


def factory_written_with(fac):
    """({g: keys always written in the same block as g}, dynamic?) for the dictionary a json_factory returns"""
    ret_vars = {n.value.id for n in ast.walk(fac) if isinstance(n, ast.Return) and isinstance(n.value, ast.Name)}
    dynamic = False
    top = set()
    for st in fac.body:
        if isinstance(st, ast.Assign):
            if isinstance(st.value, ast.Dict) and any(isinstance(t, ast.Name) and t.id in ret_vars for t in st.targets):
                top |= {k.value for k in st.value.keys if isinstance(k, ast.Constant)}
            for t in st.targets:
                if isinstance(t, ast.Subscript) and isinstance(t.value, ast.Name) and t.value.id in ret_vars and isinstance(t.slice, ast.Constant):
                    top.add(t.slice.value)
    with_ = {}

    def block(stmts):
        nonlocal dynamic
        keys_here = set()
        for st in stmts:
            if isinstance(st, ast.Assign):
                for t in st.targets:
                    if isinstance(t, ast.Subscript) and isinstance(t.value, ast.Name) and t.value.id in ret_vars:
                        if isinstance(t.slice, ast.Constant):
                            keys_here.add(t.slice.value)
                        else:
                            dynamic = True
        for g in keys_here:
            sib = (keys_here | top) - {g}
            with_[g] = sib if g not in with_ else (with_[g] & sib)
        for st in stmts:
            for fld in ('body', 'orelse', 'finalbody'):
                sub = getattr(st, fld, None)
                if isinstance(sub, list) and sub and isinstance(sub[0], ast.stmt):
                    block(sub)
    block(fac.body)
    return with_, dynamic


def check_factories(ctx, rep):
    registered = ctx.classes.registered()
    reads = check_flag_semantics(ctx, rep)
    n = 0
    for ci in sorted(ctx.classes.classes.values(), key=lambda c: c.qualname):
        fac = ci.methods.get('json_factory')
        if fac is None:
            continue
        r = ci.resolve('from_json')
        if r is None:
            continue
        n += 1
        key = ci.qualname
        W = where(ci.module, fac)
        may, types, open_ = factory_keys(fac)
        resolved = set()
        for k in may:
            if isinstance(k, tuple):
                e = ast.parse(k[1], mode='eval').body
                v = const_key(ctx, ci.module, e)
                resolved.add(v if v is not None else k[1])
            else:
                resolved.add(k)
        try:
            info = reader_info(ctx, ci, r[1], r[0].module)
        except Unsupported as u:
            rep.undecided('C13.F', key, W, str(u))
            continue
        missing = sorted(info.mandatory - resolved)
        facts = {'factory_may_write': sorted(map(str, resolved)), 'reader_mandatory': sorted(info.mandatory), 'type': sorted(types)}
        if open_ and missing:
            rep.undecided('C13.F', key, W, f"factory builds keys dynamically; cannot confirm {missing}", facts)
        else:
            rep.check('C13.F', key, not missing, W, facts,
                      f"{ci.name}.from_json dereferences {missing} on every path but {ci.name}.json_factory never writes "
                      f"{'them' if len(missing) > 1 else 'it'}: specifications produced by the factory do not load")
        # keys that must come together: where the reader, having found key g, dereferences key k on every path, the factory writes k wherever it writes g
        try:
            dn_ = r[1].args.args[1].arg if len(r[1].args.args) > 1 else 'data'
            comp = reader_companions(r[1], dn_, {k for k in resolved if isinstance(k, str)})
            with_, dyn = factory_written_with(fac)
        except Exception:
            comp, with_, dyn = {}, {}, False
        for g, ks in sorted(comp.items()):
            ckey = f"{key}::'{g}'-is-written-together-with-{sorted(ks)}"
            if g in with_:
                lack = sorted(ks - with_[g])
                rep.check('C13.F', ckey, not lack, W, {'reader_needs': sorted(ks), 'factory_writes_with_it': sorted(with_[g])},
                          f"{ci.name}.from_json, when '{g}' is present, dereferences {lack} on every path, but {ci.name}.json_factory writes '{g}' without "
                          f"{'them' if len(lack) > 1 else 'it'}: the specification it produces does not load (or loads as something else)")
            elif dyn:
                rep.undecided('C13.F', ckey, W, f"the factory writes its keys dynamically: cannot confirm that '{g}' is written together with {sorted(ks)}")
        # a key the reader consults only by presence must be written by the factory only conditionally
        pres = {k for k, d in reads.items() for c2, f2, nd in d['presence'] if f2 is r[1]}
        uncond = set()
        for nn in ast.walk(fac):
            if isinstance(nn, ast.Dict):
                par = getattr(nn, '_parent', None)
                if isinstance(par, (ast.Return, ast.Assign)) and not any(isinstance(p, (ast.If, ast.For)) for p in _parents(nn, fac)):
                    uncond |= {kk.value for kk in nn.keys if isinstance(kk, ast.Constant)}
        for k in sorted(pres & uncond):
            rep.bad('C13.F', f"{key}::factory-always-writes-{k}", W, {'key': k},
                    f"{ci.name}.json_factory always writes '{k}' but {ci.name}.from_json switches on its mere presence: factory-built specifications "
                    f"behave as if the option were set")
        # the type written resolves to this class (or a subclass-compatible registered name)
        for t in sorted(types):
            short = t.split('.')[-1]
            target = registered.get(short)
            ok = target is not None and (target is ci or target.has_base(ci.qualname) or ci.has_base(target.qualname))
            if '.' in t and t.split('.')[0] == ctx.prog.package:
                rr = ctx.prog.resolve(t)
                ok = ok or (rr is not None and rr[0] == 'class')
            rep.check('C13.F', f"{key}::type={t}", ok, W, {'type': t},
                      f"{ci.name}.json_factory writes type '{t}', which does not resolve to {ci.name}")
    # a factory that is INHERITED still has to describe the class it is called on: `Sub.json_factory(...)` that writes the type of a sibling loads into that sibling
    ni = 0
    for ci in sorted(ctx.classes.classes.values(), key=lambda c: c.qualname):
        if 'json_factory' in ci.methods or ci.is_abstract() or registered.get(ci.name) is not ci:
            continue
        r = ci.resolve('json_factory')
        if r is None:
            continue
        may, types, open_ = factory_keys(r[1])
        for t in sorted(types):
            ni += 1
            short = t.split('.')[-1]
            rep.check('C13.F', f"{ci.qualname}::inherited-factory-type={t}", registered.get(short) is ci, where(r[0].module, r[1]), {'type': t, 'defined_in': r[0].qualname},
                      f"{ci.name} inherits json_factory from {r[0].name}, which writes the fixed type '{t}': a specification made by {ci.name}.json_factory loads into a "
                      f"{short}, not into the class it was asked from")
    rep.analysed['inherited_factories'] = ni
    if n < 10:
        raise AnalysisError(f"only {n} json_factory/from_json pairs found")


# ---------------------------------------------------------------------------
# C13.G — the type registry is written at import time only;  C13.U — an update made through one holder reaches every holder
# ---------------------------------------------------------------------------
def check_type_registry(ctx, rep):
    """A short type name in a specification ("Normal", "Distribution") is resolved through REGISTERED_CLASSES, which the @register_class decorators fill while the package is
    imported.  If anything writes that table while specifications are being loaded (a call of register_class inside a function, a direct store), what a short name denotes
    depends on what was loaded before: the same specification then builds different objects (or drops nested definitions a foreign class does not know) depending on history."""
    n = 0
    for mname, m in sorted(ctx.prog.modules.items()):
        for c in ast.walk(m.tree):
            if isinstance(c, ast.Call) and ((isinstance(c.func, ast.Name) and c.func.id == 'register_class') or (isinstance(c.func, ast.Attribute) and c.func.attr == 'register_class')):
                fn = getattr(c, '_parent', None)
                while fn is not None and not isinstance(fn, (ast.FunctionDef, ast.AsyncFunctionDef)):
                    fn = getattr(fn, '_parent', None)
                n += 1
                rep.check('C13.G', f"{mname.replace('torchtree.', '')}::register_class-call#{c.lineno}", fn is None, where(m, c), {'inside': fn.name if fn is not None else None},
                          f"{fn.name if fn is not None else ''}() calls register_class at run time: the short-name table is changed while specifications are loaded, so the class a short "
                          f"type name denotes (and which nested definitions get built and registered) depends on what was loaded earlier in the same process")
            if isinstance(c, (ast.Assign, ast.AugAssign, ast.Delete)):
                tg = c.targets if isinstance(c, (ast.Assign, ast.Delete)) else [c.target]
                for t in tg:
                    if isinstance(t, ast.Subscript) and isinstance(t.value, ast.Name) and t.value.id == 'REGISTERED_CLASSES':
                        fn = getattr(c, '_parent', None)
                        while fn is not None and not isinstance(fn, ast.FunctionDef):
                            fn = getattr(fn, '_parent', None)
                        n += 1
                        rep.check('C13.G', f"{mname.replace('torchtree.', '')}::registry-store#{c.lineno}", fn is not None and fn.name == 'register_class', where(m, c),
                                  {'inside': fn.name if fn is not None else None}, "REGISTERED_CLASSES is written outside register_class")
    decorated = sum(1 for ci in ctx.classes.classes.values() for d in ci.node.decorator_list if (dotted_name(d) or '').split('.')[-1] == 'register_class')
    rep.ok('C13.G', 'registry::filled-by-decorators', '', {'decorated_classes': decorated, 'other_writers_examined': n})
    if decorated < 80:
        rep.incomplete('C13.G', 'registry::decorated-classes', '', f"only {decorated} classes registered by decorator")


def check_forwards_unconditionally(fn, cls=None, depth=0) -> bool:
    """on every path through the handler the value is marked outdated (`self.lp_needs_update = True`) and `self.fire_model_changed(...)` is called; a handler that only
    delegates to another method of the class is decided on that method"""
    body = [b for b in fn.body if not (isinstance(b, ast.Expr) and isinstance(b.value, ast.Constant))]
    if cls is not None and depth < 2 and len(body) == 1 and isinstance(body[0], ast.Expr) and isinstance(body[0].value, ast.Call) and self_attr(body[0].value.func):
        r = cls.resolve(body[0].value.func.attr)
        if r is not None:
            return check_forwards_unconditionally(r[1], cls, depth + 1)
    cfg = CFG(fn)
    sets = [n for n in cfg.stmt_nodes() if isinstance(n.stmt, ast.Assign) and any(self_attr(t) == 'lp_needs_update' for t in n.stmt.targets)
            and isinstance(n.stmt.value, ast.Constant) and n.stmt.value.value is True]
    fires = [n for n in cfg.stmt_nodes() if isinstance(n.stmt, ast.Expr) and isinstance(n.stmt.value, ast.Call) and self_attr(n.stmt.value.func) == 'fire_model_changed']
    return bool(sets) and bool(fires) and cfg.must_pass(cfg.entry, cfg.exit, sets) and cfg.must_pass(cfg.entry, cfg.exit, fires)


def check_updates_reach_every_holder(ctx, rep):
    """"an update made through one holder is observed by every other holder": holders of a shared parameter are notified by the parameter they hold.  The setter of every
    parameter class that writes *into another parameter* (views, concatenations, transformed parameters) ends in a notification of that underlying parameter (C11.W), and a
    dirty flag shared by several caches of a tree model is cleared only where all of them are refreshed (C11.S)."""
    from props import c11
    from sa.report import RuleProxy
    n = 0
    for cls in sorted(ctx.classes.subclasses('torchtree.core.abstractparameter.AbstractParameter'), key=lambda c: c.qualname):
        c11.check_setters(ctx, RuleProxy(rep, 'C13.U', 'setters::'), cls)
        n += 1
    # an in-place write into the tensor of the *underlying* parameter is followed by that parameter's own notification (its holders listen to it, not to the view)
    c11.check_inplace(ctx, RuleProxy(rep, 'C13.U', 'in-place::'), rule='C11.W', only=lambda m, fn: m.name == 'torchtree.core.parameter')
    # a holder that is given a list holds every entry of it (C14.C rule on Container)
    from props import c14 as _c14
    _c14.check_container_keeps_every_component(ctx, rep, rule='C13.U', prefix='holders::')
    # the MCMC operators are holders too: a value they restore or propose is written through the notifying setter (or followed by the notification)
    c11.check_inplace(ctx, RuleProxy(rep, 'C13.U', 'operators::'), rule='C11.W', only=lambda m, fn: m.name.startswith('torchtree.inference.mcmc'))
    tree_base = ctx.classes.get('torchtree.evolution.tree_model.TimeTreeModel')
    c11.check_shared_flags(ctx, RuleProxy(rep, 'C13.U', 'flags::'), only=lambda c: c is tree_base or c.has_base(tree_base.qualname))
    # the base classes every holder inherits its forwarding from (CallableModel, the parameter kinds of core/parameter.py): an event that is swallowed there never reaches the
    # holders further up
    from sa.members import Kinds
    kinds_ = Kinds(ctx.classes)
    for cls in sorted(ctx.classes.classes.values(), key=lambda c: c.qualname):
        if cls.module.name.startswith('torchtree.core.') and (cls.has_base('torchtree.core.parametric.Parametric') or cls.has_base('torchtree.core.abstractparameter.AbstractParameter')):
            c11.check_handlers(ctx, RuleProxy(rep, 'C13.U', 'handlers::'), kinds_, cls)
    # a value kept across calls must not outlive the update of what it was computed from (C11.M rules, package-wide)
    c11.check_memo_keys(ctx, RuleProxy(rep, 'C13.U', 'memo::'))
    for q in ('torchtree.core.model.CallableModel',):
        base = ctx.classes.get(q)
        for meth in ('handle_parameter_changed', 'handle_model_changed'):
            r = base.resolve(meth)
            ok = r is not None and check_forwards_unconditionally(r[1], base)
            rep.check('C13.U', f"handlers::{q}::{meth}::forwards-every-event", ok, where(base.module, r[1]) if r else '', None,
                      f"CallableModel.{meth} does not mark the value outdated and call fire_model_changed on every path: a holder whose own value was already outdated swallows "
                      f"the event, and the holders above it keep a value computed from the old one")
    if n < 5:
        rep.incomplete('C13.U', '*', '', f"only {n} parameter classes examined")


def run(ctx, rep):
    rep.explanation = (
        "Registry protocol of process_object decided on its CFG (duplicate test dominates construction; registration "
        "post-dominates it under the tested id; every lookup is inside a KeyError→JSONParseError guard; no other normal "
        "return); who-may-construct / who-may-look-up rules over all from_json methods (nested specifications only through "
        "process_object*, always with the method's own registry); main()'s pipeline order by dominance; error wrapping in "
        "from_json_safe; json_factory vs from_json key agreement with path-sensitive mandatory keys."
    )
    rep.rule('C13.P', "process_object / from_json_safe protocol: duplicate test dominates construction, registration post-dominates it, dangling references and missing keys become JSONParseError")
    rep.rule('C13.W', "inside every from_json nested specifications are built only through process_object*; no silent registry access; direct stores are guarded by a duplicate test")
    rep.rule('C13.D', "every process_object* call inside a from_json passes that from_json's own registry parameter")
    rep.rule('C13.M', "main(): comments removed and plates expanded before construction, one registry created once, only parse errors swallowed")
    rep.rule('C13.F', "every key a from_json dereferences on all paths is written by the class' json_factory; the type it writes resolves to the class")
    rep.assumptions += ["from_json methods are reached only through process_object (which calls from_json_safe)"]
    rep.not_decided += ["behaviour on arbitrary ill-formed DAGs at run time", "value equality of factory-built and directly built objects"]
    check_process_object(ctx, rep)
    check_from_json_safe(ctx, rep)
    check_from_json_sites(ctx, rep)
    check_constructors_outside_the_protocol(ctx, rep)
    check_factories_hand_over_the_shared_object(ctx, rep)
    check_range_references_look_every_member_up(ctx, rep)
    check_main(ctx, rep)
    check_remove_comments(ctx, rep)
    try:
        check_expand_plates(ctx, rep)
    except Unsupported as u:
        rep.undecided('C13.M', 'expand_plates', '', str(u))
    check_factories(ctx, rep)
    # a from_json must not change a registered (possibly already shared) object behind the back of its other holders
    from props import c11
    c11.check_inplace(ctx, rep, rule='C13.W', only=lambda m, fn: fn.name in ('from_json', '_from_json', 'from_json_safe'))
    rep.rule('C13.G', "the short-name type registry is written by the @register_class decorators at import time only (no run-time registration, no other store)")
    rep.rule('C13.U', "an update made through one holder reaches every holder: setters of parameters that write into another parameter notify that parameter; shared dirty flags of tree models")
    check_type_registry(ctx, rep)
    check_updates_reach_every_holder(ctx, rep)
    # C13.S — what a specification leaves behind: no factory classmethod changes state that hangs off the class (a default parsed from one specification would become the
    # default of every object built later in the same process)
    from sa import purity
    rep.rule('C13.S', "no from_json / factory classmethod of the package changes class-level state")
    ncs = purity.check_class_state(ctx, rep, 'C13.S')
    if ncs < 80:
        rep.incomplete('C13.S', '*', '', f"only {ncs} classmethods scanned")
    # C13.F (defaults): an object built from a specification that does not mention an option is configured like one built directly — the literal default a from_json uses
    # for `data.get(key, default)` is the default of the constructor parameter it feeds
    from sa import callbind
    njd = callbind.check_json_defaults(ctx, rep, 'C13.F')
    if njd < 10:
        rep.incomplete('C13.F', 'defaults', '', f"only {njd} option defaults compared")
