"""C13 (fixed): an object that inlines a child carrying its *own* id was accepted; the parent silently replaced the child in the registry.
Run: PYTHONPATH=<tree> /venv/bin/python findings/c13_nested_duplicate_id.py   (exit 1 = defect present)"""
import sys, importlib
from torchtree.core.utils import process_object, package_contents, JSONParseError
for module in package_contents('torchtree'):
    importlib.import_module(module)
spec = {"id": "a", "type": "TransformedParameter", "transform": "torch.distributions.ExpTransform",
        "x": {"id": "a", "type": "Parameter", "tensor": [0.0, 1.0]}}
dic = {}
try:
    obj = process_object(spec, dic)
except JSONParseError as e:
    print('OK: rejected:', e)
    sys.exit(0)
print('DEFECT: accepted; registry now maps id "a" to', type(dic['a']).__name__, '(the inlined Parameter with the same id is unreachable)')
sys.exit(1)
