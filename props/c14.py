"""C14 — variational objectives are exact at the true posterior.

C14.S  every evaluation request draws first, then evaluates p and q at that same draw (CFG).
C14.T  tightness by abstract interpretation: with log p − log q ≡ c (the log marginal likelihood)
       for every draw, the value returned by the objective must be exactly c.
"""
from __future__ import annotations

import ast
from fractions import Fraction
from typing import Dict, List, Optional

from sa.cfg import CFG, own_nodes
from sa.loader import AnalysisError, Unsupported, dotted_name, norm_text
from sa.members import self_attr
from sa.poly import Rat, ToRat, p_const
from sa.report import where, RuleProxy

OBJECTIVES = {
    'torchtree.variational.kl.ELBO': [['S'], ['S', 'K']],
    'torchtree.variational.kl.KLpq': [['S']],
    'torchtree.variational.renyi.VR': [['S'], ['S', 'K']],
    'torchtree.variational.chi.CUBO': [['S'], ['S', 'K']],
}
REPORTED_ONLY = {
    'torchtree.variational.kl.SELBO': "mixture of components: a draw per component by design; exact only as a weighted sum",
    'torchtree.variational.kl.KLpqImportance': "surrogate whose value is not the bound (only its gradient is meaningful)",
}
C = Rat.sym('c')


def method_name(call: ast.Call) -> str:
    return (dotted_name(call.func) or (call.func.attr if isinstance(call.func, ast.Attribute) else '')).split('.')[-1]


class Val:
    """tensor whose every element equals  qcoef·Q_s + const  (Q_s = log q at sample s), with symbolic dims"""

    def __init__(self, qcoef: Rat, const: Rat, dims: List[str]):
        self.q = qcoef
        self.c = const
        self.dims = list(dims)

    def uniform(self):
        return self.q.is_zero()

    def __repr__(self):
        return f"<{self.q}*logq + {self.c} over {self.dims}>"


def dim_sym(d):
    return Rat.sym(d)


def log_sym(d):
    return Rat.sym('log' + d)


def exp_rat(r: Rat) -> Rat:
    """exp of a rational expression that is an integer combination of log-dimension symbols"""
    if r.is_zero():
        return Rat.const(1)
    out = Rat.const(1)
    rest = r
    for d in ('S', 'K'):
        coef = rest.diff('log' + d)
        if not coef.symbols() and not coef.is_zero():
            k = coef.num.get((), 0) / coef.den.get((), 1)
            if k.denominator != 1:
                raise Unsupported(None, 'exp of a fractional multiple of a log-dimension')
            out = out * (dim_sym(d) ** int(k))
            rest = rest - coef * log_sym(d)
    if not rest.is_zero():
        return out * Rat.sym(f"exp({rest!r})")  # opaque: can only cancel against itself
    return out


def log_rat(r: Rat) -> Rat:
    """log of a product of dimension powers"""
    if r.equals(1):
        return Rat.const(0)
    for a in range(-3, 4):
        for b in range(-3, 4):
            if r.equals((dim_sym('S') ** a) * (dim_sym('K') ** b)):
                return log_sym('S') * a + log_sym('K') * b
    return Rat.sym(f"log({r!r})")  # opaque


class Interp:
    def __init__(self, fn: ast.FunctionDef, dims: List[str], flags: Dict[str, bool], init=None, helpers=None, assume_one=()):
        self.fn = fn
        self.init = init
        self.dims = dims
        self.flags = flags
        self.env: Dict[str, object] = {}
        self.ret: Optional[object] = None
        self.unshifted_exp: list = []   # exp(...) whose argument still contains the log marginal likelihood c
        self.helpers = helpers or {}    # module-level functions of the objective's module(s), inlined at their call sites
        self.assume_one = set(assume_one)   # sample dimensions assumed to have size one in this run (a single inner / outer draw)
        self.size_tests: list = []      # tests `x.shape[-1] == 1` on a value whose last axis is a sample axis
        self.mixes: list = []           # element-wise operations that broadcast a sample axis of size one against another sample axis

    def scalar_atom(self, e):
        a = self_attr(e)
        if a in ('alpha', 'n'):
            return Rat.sym(a)
        return None

    def shape_last(self, e) -> Optional[Rat]:
        """float(x.shape[-1]) / x.shape[-1] -> size symbol of the last dim of x"""
        if isinstance(e, ast.Call) and method_name(e) in ('float', 'int') and e.args:
            return self.shape_last(e.args[0])
        if isinstance(e, ast.Subscript) and isinstance(e.value, ast.Attribute) and e.value.attr == 'shape' and isinstance(e.value.value, ast.Name):
            v = self.env.get(e.value.value.id)
            idx = e.slice
            if isinstance(v, Val) and isinstance(idx, ast.UnaryOp) and isinstance(idx.operand, ast.Constant) and idx.operand.value == 1 and v.dims:
                return dim_sym(v.dims[-1])
        return None

    def config_attr(self, name: str):
        init = self.init
        if init is None:
            return None
        for st in ast.walk(init):
            if isinstance(st, ast.Assign) and any(self_attr(t) == name for t in st.targets):
                if any(isinstance(x, ast.Name) and x.id == 'samples' for x in ast.walk(st.value)):
                    return Rat.sym('configured_' + name)
                try:
                    return ToRat(lambda x: None)(st.value)
                except Unsupported:
                    return None
        return None

    def axis(self, call: ast.Call, pos: int) -> Optional[int]:
        a = call.args[pos] if len(call.args) > pos else next((kw.value for kw in call.keywords if kw.arg in ('dim', 'axis')), None)
        if a is None:
            return None
        try:
            return int(ast.literal_eval(a))
        except Exception:
            raise Unsupported(a, 'non-constant axis')

    def reduce(self, v: Val, ax: Optional[int], how: str, node) -> Val:
        if ax is None:
            dims_removed = list(v.dims)
            rest = []
        else:
            if ax != -1 and ax != len(v.dims) - 1:
                raise Unsupported(node, 'reduction over an axis other than the last')
            if not v.dims:
                dims_removed, rest = [], []  # reduction of a 0-d tensor over dim -1 is the identity
            else:
                dims_removed, rest = [v.dims[-1]], v.dims[:-1]
        size = Rat.const(1)
        for d in dims_removed:
            size = size * dim_sym(d)
        logsize = Rat.const(0)
        for d in dims_removed:
            logsize = logsize + log_sym(d)
        if how == 'mean':
            if not v.uniform():
                raise Unsupported(node, 'mean of a value that varies with the draw')
            return Val(Rat.const(0), v.c, rest)
        if how == 'sum':
            if not v.uniform():
                raise Unsupported(node, 'sum of a value that varies with the draw')
            return Val(Rat.const(0), v.c * size, rest)
        if how == 'logsumexp':
            if not v.uniform():
                raise Unsupported(node, 'logsumexp of a value that varies with the draw')
            return Val(Rat.const(0), v.c + logsize, rest)
        if how == 'max':
            if not v.uniform():
                raise Unsupported(node, 'max of a value that varies with the draw')
            return Val(Rat.const(0), v.c, rest)
        raise Unsupported(node, how)

    def value(self, e):
        if isinstance(e, ast.Name):
            v = self.env.get(e.id)
            if v is None:
                raise Unsupported(e, f"{e.id} undefined")
            return v
        s0 = self.shape_last(e)
        if s0 is not None:
            return s0
        if isinstance(e, ast.Attribute) and self_attr(e) and self_attr(e) not in ('alpha', 'n'):
            # an attribute fixed at construction: if it was computed from the configured sample shape it is a
            # configuration-time quantity, independent of the request being evaluated
            cfgv = self.config_attr(self_attr(e))
            if cfgv is not None:
                return cfgv
        if isinstance(e, ast.Constant) and isinstance(e.value, (int, float)):
            return Rat.const(str(e.value)) if not isinstance(e.value, bool) else Rat.const(int(e.value))
        a = self_attr(e)
        if a in ('alpha', 'n'):
            return Rat.sym(a)
        if isinstance(e, ast.UnaryOp) and isinstance(e.op, ast.USub):
            v = self.value(e.operand)
            return Val(-v.q, -v.c, v.dims) if isinstance(v, Val) else -v
        if isinstance(e, ast.Call):
            nm = method_name(e)
            f = e.func
            # self.p() / self.q()
            if self_attr(f) == 'p' and not e.args:
                return Val(Rat.const(1), C, self.dims)
            if self_attr(f) == 'q' and not e.args:
                return Val(Rat.const(1), Rat.const(0), self.dims)
            # a model handed to a helper and called there: q() / p()
            if isinstance(f, ast.Name) and isinstance(self.env.get(f.id), tuple) and self.env[f.id][:1] == ('model',) and not e.args:
                return Val(Rat.const(1), C if self.env[f.id][1] == 'p' else Rat.const(0), self.dims)
            # module-level helper: evaluated in place with its parameters bound
            if isinstance(f, ast.Name) and f.id in self.helpers and not e.keywords and len(e.args) == len(self.helpers[f.id].args.args):
                hf = self.helpers[f.id]
                sub = Interp(hf, self.dims, self.flags, self.init, self.helpers, self.assume_one)
                sub.unshifted_exp, sub.size_tests, sub.mixes = self.unshifted_exp, self.size_tests, self.mixes
                for prm, a in zip(hf.args.args, e.args):
                    if self_attr(a) in ('p', 'q'):
                        sub.env[prm.arg] = ('model', self_attr(a))
                    else:
                        sub.env[prm.arg] = self.value(a)
                out = sub.run()
                if out is None:
                    raise Unsupported(e, f"helper {f.id} returns nothing on this path")
                return out
            # size of the last dim
            if nm == 'log' and isinstance(f, ast.Attribute) and isinstance(f.value, ast.Call) and method_name(f.value) in ('tensor', 'as_tensor') and f.value.args:
                s = self.shape_last(f.value.args[0])
                if s is not None:
                    return log_rat(s)
            if nm == 'log' and dotted_name(f) == 'math.log' and e.args:
                s = self.shape_last(e.args[0])
                if s is not None:
                    return log_rat(s)
                v0 = self.value(e.args[0])
                if isinstance(v0, Rat):
                    return log_rat(v0)
            # method form / function form
            if isinstance(f, ast.Attribute) and dotted_name(f.value) not in ('torch', 'math'):
                recv = self.value(f.value)
                args = e.args
                pos = 0
            else:
                recv = self.value(e.args[0])
                args = e.args[1:]
                pos = 1
            if nm in ('mean', 'sum', 'logsumexp', 'max', 'amax'):
                if not isinstance(recv, Val):
                    raise Unsupported(e, f"{nm} of a scalar")
                ax = self.axis(e, pos)
                how = 'max' if nm == 'amax' else nm
                out = self.reduce(recv, ax, how, e)
                return out
            if nm == 'exp':
                arg_c = recv.c if isinstance(recv, Val) else recv
                if isinstance(arg_c, Rat) and not arg_c.diff('c').is_zero():
                    self.unshifted_exp.append((e, repr(arg_c)))
                if isinstance(recv, Val):
                    if not recv.uniform():
                        raise Unsupported(e, 'exp of a value that varies with the draw')
                    return Val(Rat.const(0), exp_rat(recv.c), recv.dims)
                return exp_rat(recv)
            if nm == 'log':
                if isinstance(recv, Val):
                    if not recv.uniform():
                        raise Unsupported(e, 'log of a value that varies with the draw')
                    return Val(Rat.const(0), log_rat(recv.c), recv.dims)
                return log_rat(recv)
            if nm == 'squeeze' and isinstance(recv, Val) and recv.dims and recv.dims[-1] in self.assume_one and (not args or ast.unparse(args[0]) == '-1'):
                return Val(recv.q, recv.c, recv.dims[:-1])       # the last axis has size one in this run: it is removed
            if nm in ('squeeze', 'unsqueeze', 'clone', 'contiguous'):
                return recv
            raise Unsupported(e, f"call {nm} outside the vocabulary")
        if isinstance(e, ast.BinOp):
            if isinstance(e.op, ast.Pow):
                base = self.value(e.left)
                b = base.c if isinstance(base, Val) else base
                if isinstance(base, Val) and not base.uniform():
                    raise Unsupported(e, 'power of a value that varies with the draw')
                if b.equals(1):
                    return Val(Rat.const(0), Rat.const(1), base.dims) if isinstance(base, Val) else Rat.const(1)
                raise Unsupported(e, 'power of something other than one')
            l, r = self.value(e.left), self.value(e.right)
            if isinstance(e.op, (ast.Add, ast.Sub)):
                sgn = 1 if isinstance(e.op, ast.Add) else -1
                if isinstance(l, Val) and isinstance(r, Val):
                    dims = l.dims if len(l.dims) >= len(r.dims) else r.dims
                    if self.assume_one:
                        for dl, dr in zip(reversed(l.dims), reversed(r.dims)):
                            if dl != dr and (dl in self.assume_one or dr in self.assume_one) and not (l.uniform() and r.uniform()):
                                # [S, K=1] against [S]: the size-one axis is broadcast along the OTHER operand's sample axis — entry (i, j) pairs draw i with draw j
                                self.mixes.append((e, l.dims, r.dims))
                    return Val(l.q + r.q * sgn, l.c + r.c * sgn, dims)
                if isinstance(l, Val):
                    return Val(l.q, l.c + r * sgn, l.dims)
                if isinstance(r, Val):
                    return Val(r.q * sgn, l + r.c * sgn, r.dims)
                return l + r * sgn
            if isinstance(e.op, (ast.Mult, ast.Div)):
                if isinstance(l, Val) and isinstance(r, Val):
                    if not (l.uniform() and r.uniform()):
                        raise Unsupported(e, 'product of values that vary with the draw')
                    dims = l.dims if len(l.dims) >= len(r.dims) else r.dims
                    return Val(Rat.const(0), l.c * r.c if isinstance(e.op, ast.Mult) else l.c / r.c, dims)
                if isinstance(l, Val):
                    return Val(l.q * r, l.c * r, l.dims) if isinstance(e.op, ast.Mult) else Val(l.q / r, l.c / r, l.dims)
                if isinstance(r, Val):
                    if isinstance(e.op, ast.Div):
                        if not r.uniform():
                            raise Unsupported(e, 'division by a value that varies with the draw')
                        return Val(Rat.const(0), l / r.c, r.dims)
                    return Val(r.q * l, r.c * l, r.dims)
                return l * r if isinstance(e.op, ast.Mult) else l / r
        raise Unsupported(e, f"expression {ast.unparse(e)[:50]} outside the vocabulary")

    def test(self, t) -> bool:
        a = self_attr(t)
        if a in self.flags:
            return self.flags[a]
        if isinstance(t, ast.Compare) and len(t.ops) == 1 and isinstance(t.left, ast.Call) and method_name(t.left) == 'len':
            rhs = t.comparators[0]
            if isinstance(rhs, ast.Constant):
                n = len(self.dims)
                return {ast.Eq: n == rhs.value, ast.NotEq: n != rhs.value, ast.Gt: n > rhs.value, ast.Lt: n < rhs.value,
                        ast.GtE: n >= rhs.value, ast.LtE: n <= rhs.value}[type(t.ops[0])]
        if isinstance(t, ast.UnaryOp) and isinstance(t.op, ast.Not):
            return not self.test(t.operand)
        if isinstance(t, ast.BoolOp):
            vals = [self.test(v) for v in t.values]
            return all(vals) if isinstance(t.op, ast.And) else any(vals)
        if isinstance(t, ast.Compare) and len(t.ops) == 1 and isinstance(t.comparators[0], ast.Constant) and isinstance(t.comparators[0].value, int):
            k = t.comparators[0].value
            cmp = {ast.Eq: lambda a: a == k, ast.NotEq: lambda a: a != k, ast.Gt: lambda a: a > k, ast.Lt: lambda a: a < k, ast.GtE: lambda a: a >= k, ast.LtE: lambda a: a <= k}[type(t.ops[0])]
            lhs = t.left
            # x.dim() / x.ndim / len(x.shape): the rank is known
            tgt = None
            if isinstance(lhs, ast.Call) and method_name(lhs) in ('dim', 'ndimension') and isinstance(lhs.func, ast.Attribute):
                tgt = lhs.func.value
            elif isinstance(lhs, ast.Attribute) and lhs.attr == 'ndim':
                tgt = lhs.value
            if tgt is not None:
                v = self.value(tgt)
                if isinstance(v, Val):
                    return cmp(len(v.dims))
            # x.shape[-1] == 1 on a value whose last axis is a sample axis: true exactly in the runs that assume that axis has size one
            if isinstance(lhs, ast.Subscript) and isinstance(lhs.value, ast.Attribute) and lhs.value.attr == 'shape' and ast.unparse(lhs.slice) == '-1' and k == 1 \
                    and isinstance(t.ops[0], (ast.Eq, ast.NotEq)):
                v = self.value(lhs.value.value)
                if isinstance(v, Val):
                    if not v.dims:
                        raise Unsupported(t, 'shape[-1] of a 0-d value raises')
                    self.size_tests.append((t, v.dims[-1]))
                    one = v.dims[-1] in self.assume_one
                    return one if isinstance(t.ops[0], ast.Eq) else not one
        raise Unsupported(t, f"condition {ast.unparse(t)} not understood")

    def run(self):
        self.block(self.fn.body)
        return self.ret

    def block(self, stmts):
        for st in stmts:
            if self.ret is not None:
                return
            if isinstance(st, ast.Return):
                self.ret = self.value(st.value)
                return
            if isinstance(st, ast.If):
                self.block(st.body if self.test(st.test) else st.orelse)
                continue
            if isinstance(st, ast.Assign) and len(st.targets) == 1 and isinstance(st.targets[0], ast.Name):
                v = st.value
                if isinstance(v, ast.Call) and method_name(v) == 'get' and isinstance(v.func, ast.Attribute) and isinstance(v.func.value, ast.Name) and v.func.value.id == 'kwargs':
                    self.env[st.targets[0].id] = ('samples',)
                    continue
                self.env[st.targets[0].id] = self.value(v)
                continue
            if isinstance(st, ast.Expr) and isinstance(st.value, ast.Call) and method_name(st.value) in ('rsample', 'sample'):
                continue
            if isinstance(st, ast.Expr) and isinstance(st.value, ast.Constant):
                continue
            raise Unsupported(st, f"statement {norm_text(st)[:50]} outside the vocabulary")


def check_tightness(ctx, rep):
    for qual, shapes in OBJECTIVES.items():
        cls = ctx.classes.get(qual)
        fn = cls.resolve('_call')[1]
        for dims in shapes:
            key = f"{cls.name}._call::sample-shape=[{','.join(dims)}]"
            try:
                ir = cls.resolve('__init__')
                helpers = {}
                for k_ in cls.internal_mro():
                    for hn, hf in k_.module.functions.items():
                        helpers.setdefault(hn, hf)
                    for imp in k_.module.tree.body:      # helpers imported from a sibling module of the package
                        if isinstance(imp, ast.ImportFrom):
                            for al in imp.names:
                                for m2 in ctx.prog.modules.values():
                                    if m2.name.startswith('torchtree.variational') and al.name in m2.functions:
                                        helpers.setdefault(al.asname or al.name, m2.functions[al.name])
                it = Interp(fn, dims, {'score': False, 'entropy': False}, ir[1] if ir else None, helpers)
                val = it.run()
                # the code asked whether a sample axis has size one: evaluate again for a single inner / outer draw (K = 1, S = 1), where that test is true
                if it.size_tests:
                    for d1 in sorted({d for _, d in it.size_tests}):
                        it1 = Interp(fn, dims, {'score': False, 'entropy': False}, ir[1] if ir else None, helpers, assume_one={d1})
                        try:
                            it1.run()
                        except Unsupported:
                            pass
                        for node, ld, rd in it1.mixes:
                            rep.bad('C14.T', f"{key}::{d1}=1::samples-paired-across-draws::{norm_text(node)[:40]}", where(cls.module, node), {'left_axes': ld, 'right_axes': rd, 'assumed_size_one': d1},
                                    f"{cls.name}: the evaluation tests whether the last axis has size one ({norm_text(it.size_tests[0][0])[:50]}) and that axis can be the sample axis {d1}; "
                                    f"with a single draw along {d1} the test is true, the axis is dropped from one operand only, and `{norm_text(node)[:50]}` broadcasts {ld} against {rd}: "
                                    f"entry (i, j) combines log p of draw i with log q of draw j, so the objective is no longer c at the true posterior")
                        if not it1.mixes:
                            rep.ok('C14.T', f"{key}::{d1}=1::no-pairing-across-draws", where(cls.module, fn))
                # exp is only applied to log-weights from which the common level was removed (− logsumexp / − max): exp(c + …) under- or overflows for a large |log Z|
                for node, shown_arg in it.unshifted_exp:
                    rep.bad('C14.T', f"{key}::exp-of-unshifted-log-weights::{norm_text(node)[:40]}", where(cls.module, node), {'argument_at_true_posterior': shown_arg},
                            f"{cls.name}: `{norm_text(node)[:60]}` exponentiates a log-weight that still contains the log marginal likelihood (argument = {shown_arg}): for "
                            f"|log Z| beyond ~745 (float64; ~88 in float32) the weights under- or overflow and the objective is NaN or ±inf instead of log Z — the normalisation must "
                            f"happen in log space (subtract logsumexp or the maximum first)")
                if not it.unshifted_exp:
                    rep.ok('C14.T', f"{key}::exp-only-of-shifted-log-weights", where(cls.module, fn))
            except Unsupported as u:
                # a value that still varies with the draw is a violation of "for every draw"
                if 'varies with the draw' in str(u):
                    rep.bad('C14.T', key, where(cls.module, u.node or fn), {'why': str(u)},
                            f"{cls.name}: with log p − log q ≡ c the objective still depends on the individual draw ({u.why}): it is not exact at the true posterior")
                else:
                    rep.undecided('C14.T', key, where(cls.module, u.node or fn), str(u))
                continue
            if isinstance(val, Val):
                ok = val.uniform() and val.c.equals(C) and not val.dims
                shown = repr(val)
            else:
                ok = val.equals(C)
                shown = repr(val)
            rep.check('C14.T', key, ok, where(cls.module, fn), {'value_at_true_posterior': shown, 'expected': 'c (log marginal likelihood)'},
                      f"{cls.name} with sample shape [{','.join(dims)}]: when log p − log q ≡ c for every draw the objective evaluates to {shown}, not c: "
                      f"the bound is not tight at the true posterior (wrong sign, normaliser, reduced axis or scaling factor)")
    for qual, why in REPORTED_ONLY.items():
        cls = ctx.classes.find(qual)
        if cls is not None:
            rep.excluded('C14.T', f"{cls.name}._call", where(cls.module, cls.node), why)


def check_sampling_order(ctx, rep):
    for qual in list(OBJECTIVES) + ['torchtree.variational.kl.KLpqImportance']:
        cls = ctx.classes.get(qual)
        fn = cls.resolve('_call')[1]
        cfg = CFG(fn)
        draws, evals = [], []
        for node in cfg.stmt_nodes():
            if node.kind == 'with_exit':
                continue
            for n in own_nodes(node.stmt):
                if isinstance(n, ast.Call) and isinstance(n.func, ast.Attribute):
                    if n.func.attr in ('rsample', 'sample') and self_attr(n.func.value) == 'q':
                        draws.append((node, n))
                    elif self_attr(n.func) in ('p', 'q') and not n.args:
                        evals.append((node, self_attr(n.func)))
        key = f"{cls.name}._call"
        W = where(cls.module, fn)
        if not draws or not evals:
            rep.bad('C14.S', key + '::draws-and-evaluates', W, None, f"{cls.name}._call does not both draw from q and evaluate p and q")
            continue
        dnodes = [d for d, _ in draws]
        ok_dom = all(cfg.must_pass(cfg.entry, en, dnodes) for en, _ in evals)
        rep.check('C14.S', key + '::draw-before-evaluation', ok_dom, W, {'draws': [d.stmt.lineno for d in dnodes], 'evaluations': [(e.stmt.lineno, w) for e, w in evals]},
                  f"{cls.name}._call can evaluate p() or q() without a fresh draw on some path: the request re-uses the previous samples")
        # no second draw between two evaluations on any path
        between = False
        for e1, w1 in evals:
            for e2, w2 in evals:
                if e1 is e2:
                    continue
                for d in dnodes:
                    if d.id in cfg.reachable_after(e1) and e2.id in cfg.reachable_after(d):
                        between = True
        rep.check('C14.S', key + '::same-draw-for-p-and-q', not between, W, None,
                  f"{cls.name}._call draws again between the evaluation of the model density and of the variational density: they are evaluated at different samples")
        # the sample size comes from the request (kwargs) with the configured default
        ok_arg = True
        for d, call in draws:
            a = call.args[0] if call.args else None
            ok_arg = ok_arg and isinstance(a, ast.Name)
            if isinstance(a, ast.Name):
                defs = [st for st in ast.walk(fn) if isinstance(st, ast.Assign) and any(isinstance(t, ast.Name) and t.id == a.id for t in st.targets)]
                ok_arg = ok_arg and len(defs) == 1 and isinstance(defs[0].value, ast.Call) and method_name(defs[0].value) == 'get' \
                    and len(defs[0].value.args) == 2 and self_attr(defs[0].value.args[1]) == 'samples'
        rep.check('C14.S', key + '::sample-shape-from-request', ok_arg, W, None,
                  f"{cls.name}._call must draw kwargs.get('samples', self.samples) samples")
        # reparameterised draw for pathwise objectives
        if qual in ('torchtree.variational.renyi.VR', 'torchtree.variational.chi.CUBO'):
            rep.check('C14.S', key + '::reparameterised-draw', all(c.func.attr == 'rsample' for _, c in draws), W, None,
                      f"{cls.name} differentiates through the samples and must use rsample")


def check_dependencies(ctx, rep):
    """'Each evaluation request draws fresh samples and evaluates both densities at those samples' relies on the draw invalidating the
    cached values of q, p and the objective (C11.H machinery), and — for models written through constraining transforms — on the
    Jacobian term being the one of the current value (C07.C machinery)."""
    from props import c11, c07
    names = list(OBJECTIVES) + ['torchtree.distributions.distributions.Distribution', 'torchtree.distributions.joint_distribution.JointDistributionModel',
                                'torchtree.distributions.multivariate_normal.MultivariateNormal']
    for qual in names:
        cls = ctx.classes.find(qual)
        if cls is None:
            continue
        for handler in ('handle_model_changed', 'handle_parameter_changed'):
            r = cls.resolve(handler)
            if r is None:
                continue
            if handler == 'handle_parameter_changed' and qual in OBJECTIVES:
                continue  # objectives hold no parameters of their own
            if handler == 'handle_parameter_changed' and qual.endswith('JointDistributionModel'):
                continue
            sm = c11.summarize(ctx, cls, r[0], r[1])
            ok = ('lp_needs_update', True) in sm.sets and sm.fires_model
            rep.check('C14.S', f"{cls.name}.{handler}::draw-invalidates-cached-value", ok, where(r[0].module, r[1]),
                      {'sets': sorted(map(str, sm.sets)), 'fires_model_changed': sm.fires_model},
                      f"{cls.name}.{handler} (resolved in {r[0].name}) does not, on every path, mark the cached value stale and notify its listeners: after a "
                      f"new draw (or a parameter update between requests) the objective can return the value of the previous samples")

    class Proxy:
        def __init__(self, rep):
            self._rep = rep

        def __getattr__(self, name):
            return getattr(self._rep, name)

        def check(self, rule, key, cond, *a, **k):
            return self._rep.check('C14.J', key, cond, *a, **k)

        def bad(self, rule, key, *a, **k):
            return self._rep.bad('C14.J', key, *a, **k)

        def undecided(self, rule, key, *a, **k):
            return self._rep.undecided('C14.J', key, *a, **k)
    try:
        c07.check_callers(ctx, Proxy(rep))
    except Unsupported as u:
        rep.undecided('C14.J', 'check_callers', '', str(u))
    # … and that term is the log-Jacobian of the map that was applied: a variational distribution placed directly on the unconstrained variable is exact only if the
    # transform reports Σ log|g'| of its own forward chain (C07.L on the element-wise transforms of distributions/transforms.py)
    try:
        c07.check_generic(ctx, Proxy(rep))
    except Unsupported as u:
        rep.undecided('C14.J', 'check_generic', '', str(u))


def check_joint(ctx, rep):
    """C14.C — the joint density / entropy the objectives are built from: every callable component is kept and summed, entropies are totals"""
    cls = ctx.classes.get('torchtree.distributions.joint_distribution.JointDistributionModel')
    if cls is None:
        raise AnalysisError('JointDistributionModel not found')
    m = cls.module
    init, lp, ent = (cls.resolve(n)[1] for n in ('__init__', 'log_prob', 'entropy'))
    # every component handed to the constructor is kept (transformed parameters contribute their log-Jacobian as callables, not as models)
    arg = init.args.args[2].arg if len(init.args.args) > 2 else None
    stores = [st for st in ast.walk(init) if isinstance(st, ast.Assign) and any(self_attr(t) == '_distributions' for t in st.targets)]
    kept = len(stores) == 1 and isinstance(stores[0].value, ast.Call) and len(stores[0].value.args) >= 2 and isinstance(stores[0].value.args[1], ast.Name) \
        and stores[0].value.args[1].id == arg
    filtered = [norm_text(c)[:50] for c in ast.walk(init) if isinstance(c, ast.Call) and isinstance(c.func, ast.Attribute) and c.func.attr in ('models', 'parameters')]
    verdict = True if kept and not filtered else (False if filtered else None)
    key = 'JointDistributionModel.__init__::every-component-is-kept'
    if verdict is None:
        rep.undecided('C14.C', key, where(m, init), 'construction of the component container not recognised')
    else:
        rep.check('C14.C', key, verdict, where(m, init), {'filters': filtered},
                  f"JointDistributionModel.__init__ rebuilds its components through {filtered}: callables that are not models (the log-Jacobian of a TransformedParameter) are "
                  f"dropped, so a joint of joints loses the Jacobian terms of the inner one")
    iters = [n for n in ast.walk(lp) if isinstance(n, ast.For)]
    over = [norm_text(n.iter) for n in iters]
    rep.check('C14.C', 'JointDistributionModel.log_prob::sums-every-callable-component', any(t.endswith('.callables()') for t in over), where(m, lp), {'iterates': over},
              "the joint log density must add every callable component (models and transformed parameters), i.e. iterate self._distributions.callables()")
    # entropy: total over components; a component's entropy is reduced to one number before / while it is added
    adds = []
    for n in ast.walk(ent):
        if isinstance(n, ast.BinOp) and isinstance(n.op, ast.Add):
            for side in (n.left, n.right):
                if isinstance(side, ast.Call) and isinstance(side.func, ast.Attribute) and side.func.attr == 'entropy':
                    adds.append(norm_text(n)[:60])
        if isinstance(n, ast.AugAssign) and isinstance(n.op, ast.Add) and isinstance(n.value, ast.Call) and isinstance(n.value.func, ast.Attribute) and n.value.func.attr == 'entropy':
            adds.append(norm_text(n)[:60])
    rets = [r for r in ast.walk(ent) if isinstance(r, ast.Return) and r.value is not None]
    total = len(rets) == 1 and isinstance(rets[0].value, ast.Call) and isinstance(rets[0].value.func, ast.Attribute) and rets[0].value.func.attr == 'sum' and not rets[0].value.args
    verdict = False if adds else (True if total else None)
    key = 'JointDistributionModel.entropy::total-of-the-component-entropies'
    if verdict is None:
        rep.undecided('C14.C', key, where(m, ent), 'form of the joint entropy not recognised')
    else:
        rep.check('C14.C', key, verdict, where(m, ent), {'elementwise_additions': adds},
                  f"JointDistributionModel.entropy adds component entropies element-wise ({adds[:1]}): blocks of different batch shape broadcast, and the objective's "
                  f"own `.sum()` then counts the smaller block once per element of the larger one")

    # the container registers every component under a name no other component (parameter *or* model) holds: Parametric.__setattr__ evicts an entry of the other registry
    # stored under the same name, so a model and a transformed parameter that share an id (e.g. None) must not be given the same attribute name
    cont = ctx.classes.get('torchtree.core.container.Container')
    uid = cont.resolve('_unique_id') if cont is not None else None
    if not uid:
        rep.undecided('C14.C', 'Container._unique_id::name-unused-by-any-component', '', 'Container._unique_id not found')
    else:
        f = uid[1]
        loops = [n for n in ast.walk(f) if isinstance(n, ast.While)]
        tests = [norm_text(n.test) for n in loops]
        verdict = None
        if len(loops) == 1:
            t = loops[0].test
            has_attr = any(isinstance(c, ast.Call) and isinstance(c.func, ast.Name) and c.func.id == 'hasattr' and c.args and isinstance(c.args[0], ast.Name) and c.args[0].id == 'self'
                           for c in ast.walk(t))
            names = {self_attr(x) for x in ast.walk(t) if self_attr(x)}
            # follow one local name (`registered = self._parameters if … else self._models`)
            for x in ast.walk(t):
                if isinstance(x, ast.Name):
                    for st in ast.walk(f):
                        if isinstance(st, ast.Assign) and any(isinstance(tt, ast.Name) and tt.id == x.id for tt in st.targets):
                            names |= {self_attr(y) for y in ast.walk(st.value) if self_attr(y)}
            both_on_every_path = {'_parameters', '_models'} <= {self_attr(x) for x in ast.walk(t) if self_attr(x)}
            if has_attr or both_on_every_path:
                verdict = True
            elif names & {'_parameters', '_models'}:
                verdict = False
        if verdict is None:
            rep.undecided('C14.C', 'Container._unique_id::name-unused-by-any-component', where(cont.module, f), f"uniqueness test not recognised: {tests}")
        else:
            rep.check('C14.C', 'Container._unique_id::name-unused-by-any-component', verdict, where(cont.module, f), {'test': tests},
                      f"Container._unique_id accepts a name when `{tests[0] if tests else '?'}` is false, which looks at one registry only: a model and a transformed parameter with "
                      f"the same id get the same attribute name, Parametric.__setattr__ then evicts the earlier one, and a likelihood or Jacobian term silently drops out of the joint")


def check_inverse_gamma_entropy(ctx, rep):
    """C14.C (addition) — the inverse gamma of torchtree is parameterised by concentration α and `rate` β, the SCALE of the inverse gamma (it is the rate of the gamma
    whose reciprocal it is).  If the class provides an analytic entropy (ELBO(entropy=True) adds it), it is H = α + log β + lnΓ(α) − (1 + α)·ψ(α) as a polynomial identity over
    the atoms α, log β, lnΓ(α), ψ(α).  Without an `entropy` of its own the class raises NotImplementedError: nothing to decide."""
    from sa.poly import Rat, ToRat
    m = ctx.prog.modules.get('torchtree.distributions.inverse_gamma')
    cls = m.classes.get('InverseGamma') if m is not None else None
    if cls is None:
        rep.undecided('C14.C', 'InverseGamma::entropy', '', 'torchtree.distributions.inverse_gamma.InverseGamma not found')
        return
    ent = next((b for b in cls.body if isinstance(b, ast.FunctionDef) and b.name == 'entropy'), None)
    if ent is None:
        rep.ok('C14.C', 'InverseGamma::entropy', where(m, cls), {'entropy': 'not provided (TransformedDistribution raises NotImplementedError)'})
        return
    rets = [r.value for r in ast.walk(ent) if isinstance(r, ast.Return) and r.value is not None]

    def atom(e):
        t = ast.unparse(e).replace(' ', '')
        table = {'self.concentration': 'a', 'self.rate.log()': 'logb', 'torch.log(self.rate)': 'logb', 'self.concentration.lgamma()': 'lg', 'torch.lgamma(self.concentration)': 'lg',
                 'self.concentration.digamma()': 'psi', 'torch.digamma(self.concentration)': 'psi'}
        return Rat.sym(table[t]) if t in table else None
    key = 'InverseGamma::entropy'
    if len(rets) != 1:
        rep.undecided('C14.C', key, where(m, ent), f"{len(rets)} return statements")
        return
    try:
        got = ToRat(atom, pre=atom)(rets[0])
    except Unsupported as u:
        rep.undecided('C14.C', key, where(m, ent), f"entropy formula outside the vocabulary: {u}")
        return
    a, logb, lg, psi = (Rat.sym(x) for x in ('a', 'logb', 'lg', 'psi'))
    want = a + logb + lg - (Rat.const(1) + a) * psi
    rep.check('C14.C', key, got.equals(want), where(m, ent), {'returned': repr(got), 'expected': repr(want)},
              f"InverseGamma.entropy returns {got!r}; with `rate` the scale β of the inverse gamma the entropy is α + log β + lnΓ(α) − (1 + α)ψ(α) = {want!r}: with the wrong sign "
              f"of log β the analytic-entropy ELBO is off by 2·log β whenever the posterior scale is not one")


def check_container_keeps_every_component(ctx, rep, rule='C14.C', prefix=''):
    """every object handed to a Container is registered, and every registered callable is handed out: no test of identity / id / membership decides whether a component
    takes part (an object listed twice is listed twice on purpose — a concatenation [a, b, a]; two transformed parameters without an id are two Jacobian terms)"""
    cont = ctx.classes.get('torchtree.core.container.Container')
    if cont is None:
        rep.undecided(rule, prefix + 'Container::components', '', 'Container not found')
        return
    init = cont.methods.get('__init__')
    loops = [n for n in ast.walk(init) if isinstance(n, ast.For)] if init is not None else []
    regs = [c for lp in loops for st in lp.body for c in ast.walk(st) if isinstance(st, ast.Expr) and isinstance(c, ast.Call) and isinstance(c.func, ast.Name) and c.func.id == 'setattr']
    nested = [c for lp in loops for st in lp.body if isinstance(st, (ast.If, ast.Try, ast.While)) for c in ast.walk(st) if isinstance(c, ast.Call) and isinstance(c.func, ast.Name) and c.func.id == 'setattr']
    key = prefix + 'Container.__init__::every-listed-object-is-registered'
    if not regs and not nested:
        rep.undecided(rule, key, where(cont.module, init) if init else '', 'registration loop (`for obj in objects: setattr(self, …, obj)`) not found')
    else:
        rep.check(rule, key, bool(regs) and not nested, where(cont.module, (nested or regs)[0]), {'unconditional': len(regs), 'conditional': len(nested)},
                  "Container.__init__ registers an object only under a condition: a component that is listed again (a concatenation [a, b, a], a distribution used for two blocks) is "
                  "dropped, so the holder has fewer entries than its specification and the joint one term less")
    for meth in ('callables', 'params'):
        f = cont.methods.get(meth)
        if f is None:
            continue
        skips = [n for n in ast.walk(f) if isinstance(n, ast.Continue)] + \
                [n for n in ast.walk(f) if isinstance(n, ast.If) and any(isinstance(y, (ast.Yield, ast.YieldFrom)) for x in n.body for y in ast.walk(x))
                 and not any(isinstance(c, ast.Call) and isinstance(c.func, ast.Name) and c.func.id in ('isinstance', 'callable') for c in ast.walk(n.test))]
        rep.check(rule, prefix + f"Container.{meth}::hands-out-every-component", not skips, where(cont.module, skips[0] if skips else f), {'filters': len(skips)},
                  f"Container.{meth} leaves components out (`{norm_text(skips[0])[:50] if skips else ''}`): a callable that was registered — the Jacobian of a second transformed "
                  f"parameter with the same id, or None — silently drops out of the joint density")


class _W:
    """words over matrix atoms for deciding A·Aᵀ = Σ: a word is a list of (name, inverted, transposed); ('chol:X', …) is the Cholesky factor of the word X"""

    @staticmethod
    def inv(w):
        return [(n, not i, t) for n, i, t in reversed(w)]

    @staticmethod
    def tr(w):
        return [(n, i, not t) for n, i, t in reversed(w)]

    @staticmethod
    def reduce(w, chol):
        w = list(w)
        changed = True
        while changed:
            changed = False
            for k in range(len(w) - 1):
                (n1, i1, t1), (n2, i2, t2) = w[k], w[k + 1]
                if n1 == n2 and t1 == t2 and i1 != i2:                      # X·X⁻¹
                    del w[k:k + 2]
                    changed = True
                    break
                if n1 == n2 and n1 in chol:
                    if (i1, t1, i2, t2) == (False, False, False, True):       # C·Cᵀ = X
                        w[k:k + 2] = chol[n1]
                        changed = True
                        break
                    if (i1, t1, i2, t2) == (True, True, True, False):         # C⁻ᵀ·C⁻¹ = X⁻¹
                        w[k:k + 2] = _W.inv(chol[n1])
                        changed = True
                        break
        return w


def check_mvn_construction(ctx, rep):
    """C14.C — the torch distribution the multivariate-normal family samples from and evaluates has the covariance its parameterisation says: the parameter tensor is passed
    under the keyword named by the parameterisation, or converted to a scale_tril A with A·Aᵀ = Σ (Σ = T·Tᵀ, T or T⁻¹), decided in a word algebra with cholesky / inverse /
    triangular solve / transpose — `inverse(cholesky(P))` is a factor of (LᵀL)⁻¹, not of P⁻¹ = (LLᵀ)⁻¹."""
    cls = ctx.classes.find('torchtree.distributions.multivariate_normal.MultivariateNormal')
    if cls is None:
        rep.undecided('C14.C', 'MultivariateNormal::construction', '', 'class not found')
        return
    m = cls.module
    n = 0
    for fname, fn in sorted(cls.methods.items()):
        for c in ast.walk(fn):
            if not (isinstance(c, ast.Call) and (dotted_name(c.func) or '').endswith('distributions.MultivariateNormal')):
                continue
            n += 1
            key = f"MultivariateNormal.{fname}::covariance-of-the-torch-distribution-is-the-parameterised-one"
            kws = {k.arg: k.value for k in c.keywords}
            if None in kws:
                # **kwargs with kwargs = {self.parameterization: self.parameter.tensor}
                kd = [st.value for st in ast.walk(fn) if isinstance(st, ast.Assign) and isinstance(st.targets[0], ast.Name) and isinstance(kws[None], ast.Name) and st.targets[0].id == kws[None].id]
                ok = len(kd) == 1 and isinstance(kd[0], ast.Dict) and len(kd[0].keys) == 1 and self_attr(kd[0].keys[0]) == 'parameterization' \
                    and norm_text(kd[0].values[0]).replace(' ', '') == 'self.parameter.tensor'
                rep.check('C14.C', key, ok, where(m, c), {'keywords': norm_text(kd[0])[:80] if kd else None},
                          f"MultivariateNormal.{fname} must hand the parameter tensor to torch under the keyword its parameterisation names")
                continue
            if 'scale_tril' not in kws:
                rep.undecided('C14.C', key, where(m, c), 'construction of the torch distribution not recognised')
                continue
            for par in ('scale_tril', 'covariance_matrix', 'precision_matrix'):
                # parameterisations excluded by a test on self.parameterization that encloses the construction
                feasible = True
                node_, par_ = c, getattr(c, '_parent', None)
                while par_ is not None and par_ is not fn:
                    if isinstance(par_, ast.If) and isinstance(par_.test, ast.Compare) and len(par_.test.ops) == 1 and self_attr(par_.test.left) == 'parameterization' \
                            and isinstance(par_.test.comparators[0], ast.Constant) and isinstance(par_.test.ops[0], (ast.Eq, ast.NotEq)):
                        hit = (par_.test.comparators[0].value == par) == isinstance(par_.test.ops[0], ast.Eq)
                        in_body = any(node_ is x or any(node_ is y for y in ast.walk(x)) for x in par_.body)
                        if hit != in_body:
                            feasible = False
                    node_, par_ = par_, getattr(par_, '_parent', None)
                if not feasible:
                    continue
                k2 = f"{key}::{par}"
                chol = {}
                T = [('T', False, False)]

                def word(e, fn_=fn, depth=0):
                    if isinstance(e, ast.Name):
                        ds = [st.value for st in ast.walk(fn_) if isinstance(st, ast.Assign) and len(st.targets) == 1 and isinstance(st.targets[0], ast.Name) and st.targets[0].id == e.id]
                        if len(ds) == 1:
                            return word(ds[0], fn_, depth)
                        raise Unsupported(e, f"name {e.id}")
                    if norm_text(e).replace(' ', '') == 'self.parameter.tensor':
                        return list(T)
                    if isinstance(e, ast.Call) and self_attr(e.func) and not e.args and depth < 3:
                        r_ = cls.resolve(e.func.attr)
                        if r_ is None:
                            raise Unsupported(e, 'helper')
                        return body(r_[1].body, r_[1], depth + 1)
                    if isinstance(e, ast.Call):
                        nm = (dotted_name(e.func) or (e.func.attr if isinstance(e.func, ast.Attribute) else '')).split('.')[-1]
                        torch_like = isinstance(e.func, ast.Attribute) and ast.unparse(e.func.value) in ('torch', 'torch.linalg')
                        operand = (e.args[0] if e.args else None) if torch_like else (e.func.value if isinstance(e.func, ast.Attribute) else None)
                        if nm == 'cholesky' and operand is not None:
                            w = word(operand, fn_, depth)
                            name = 'chol:' + repr(w)
                            chol[name] = w
                            return [(name, False, False)]
                        if nm in ('inverse', 'inv') and operand is not None:
                            return _W.inv(word(operand, fn_, depth))
                        if nm == 'solve_triangular' and torch_like and len(e.args) >= 2:
                            rhs = e.args[1]
                            ident = isinstance(rhs, ast.Name) and any(isinstance(st, ast.Assign) and any(isinstance(t, ast.Name) and t.id == rhs.id for t in st.targets)
                                                                      and isinstance(st.value, ast.Call) and (dotted_name(st.value.func) or '').endswith('eye') for st in ast.walk(fn_))
                            if ident:
                                return _W.inv(word(e.args[0], fn_, depth))
                        if nm in ('transpose', 'mT', 't') and operand is not None:
                            return _W.tr(word(operand, fn_, depth))
                    if isinstance(e, ast.Attribute) and e.attr in ('mT', 'T'):
                        return _W.tr(word(e.value, fn_, depth))
                    raise Unsupported(e, f"matrix expression {norm_text(e)[:40]}")

                def test(tn):
                    if isinstance(tn, ast.Compare) and len(tn.ops) == 1 and isinstance(tn.ops[0], (ast.Eq, ast.NotEq)) and self_attr(tn.left) == 'parameterization' \
                            and isinstance(tn.comparators[0], ast.Constant):
                        hit = tn.comparators[0].value == par
                        return hit if isinstance(tn.ops[0], ast.Eq) else not hit
                    raise Unsupported(tn, 'test')

                def body(stmts, fn_, depth):
                    for st in stmts:
                        if isinstance(st, ast.Expr) and isinstance(st.value, ast.Constant):
                            continue
                        if isinstance(st, ast.Assign):
                            continue
                        if isinstance(st, ast.If):
                            r_ = body(st.body if test(st.test) else st.orelse, fn_, depth)
                            if r_ is not None:
                                return r_
                            continue
                        if isinstance(st, ast.Return) and st.value is not None:
                            return word(st.value, fn_, depth)
                        raise Unsupported(st, 'statement')
                    return None
                try:
                    A = word(kws['scale_tril'])
                    got = _W.reduce(A + _W.tr(A), chol)
                    want = {'scale_tril': _W.reduce(T + _W.tr(T), chol), 'covariance_matrix': list(T), 'precision_matrix': _W.inv(T)}[par]
                    show = lambda w: '·'.join(n_.split(':')[0] + ('⁻' if i_ else '') + ('ᵀ' if t_ else '') for n_, i_, t_ in w) or 'I'
                    rep.check('C14.C', k2, got == want, where(m, c), {'A_times_A_transposed': show(got), 'covariance': show(want)},
                              f"with the {par} parameterisation MultivariateNormal.{fname} hands torch a scale_tril A with A·Aᵀ = {show(got)}, but the covariance is {show(want)} "
                              f"(T the stored matrix, chol its Cholesky factor): draws and densities belong to another Gaussian")
                except Unsupported as u:
                    rep.undecided('C14.C', k2, where(m, c), f"conversion to scale_tril outside the vocabulary: {u}")
    if n < 1:
        rep.incomplete('C14.C', 'MultivariateNormal::construction', '', 'no construction of torch.distributions.MultivariateNormal found')


def check_analytic_entropy_terms(ctx, rep):
    """C14.T / C14.C (addition) — the analytic-entropy variant of the ELBO is E_q[log p] + H[q] with H[q] ONE number, the total over the blocks of q:
    (1) in ELBO._call the entropy term (followed through a module-level helper) is reduced with `.sum()`; an un-summed entropy leaves a vector `E[log p] + H_j`;
    (2) Distribution.entropy returns the entropy of the torch distribution as it is — it is not replicated to the width of x (a multivariate distribution has ONE
    entropy for its d components, expanding it and summing counts it d times)."""
    vm = ctx.prog.module('torchtree.variational.kl')
    elbo = ctx.classes.get('torchtree.variational.kl.ELBO')
    call = elbo.resolve('_call')[1] if elbo is not None and elbo.resolve('_call') else None
    if call is None:
        raise AnalysisError('ELBO._call not found')
    branches = [n for n in ast.walk(call) if isinstance(n, ast.If) and self_attr(n.test) == 'entropy']
    key = 'ELBO._call::analytic-entropy-is-the-total'
    if len(branches) != 1:
        rep.undecided('C14.T', key, where(vm, call), f"{len(branches)} branches on self.entropy")
    else:
        exprs = [st.value for st in branches[0].body if isinstance(st, (ast.Assign, ast.Return)) and st.value is not None]
        # follow a module-level helper once
        extra = []
        for e in exprs:
            for c in ast.walk(e):
                if isinstance(c, ast.Call) and isinstance(c.func, ast.Name) and c.func.id in vm.functions:
                    extra += [r.value for r in ast.walk(vm.functions[c.func.id]) if isinstance(r, ast.Return) and r.value is not None]
        ents, bad = 0, []
        for e in exprs + extra:
            for c in ast.walk(e):
                if isinstance(c, ast.Call) and isinstance(c.func, ast.Attribute) and c.func.attr == 'entropy':
                    ents += 1
                    par = getattr(c, '_parent', None)
                    gp = getattr(par, '_parent', None)
                    summed = isinstance(par, ast.Attribute) and par.attr == 'sum' and isinstance(gp, ast.Call) and gp.func is par and not gp.args and not gp.keywords
                    if not summed:
                        bad.append(c)
        if not ents:
            rep.undecided('C14.T', key, where(vm, branches[0]), 'no entropy() term found in the analytic-entropy branch (nor in a helper of the module it calls)')
        else:
            rep.check('C14.T', key, not bad, where(vm, bad[0] if bad else branches[0]), {'entropy_terms': ents},
                      f"ELBO._call adds `{norm_text(bad[0])[:50] if bad else ''}` without reducing it: q.entropy() has one entry per block / component of q, so the objective is a vector "
                      f"E[log p] + H_j instead of the number E[log p] + Σ_j H_j — with q equal to the posterior it is not log Z")
    dm = ctx.prog.module('torchtree.distributions.distributions')
    dcls = ctx.classes.get('torchtree.distributions.distributions.Distribution')
    ent = dcls.resolve('entropy')[1] if dcls is not None and dcls.resolve('entropy') else None
    key = 'Distribution.entropy::entropy-of-the-distribution-as-it-is'
    if ent is None:
        rep.undecided('C14.C', key, '', 'Distribution.entropy not found')
        return
    from sa.util import backward_slice, local_assignments
    defs = local_assignments(ent)
    rets = [r.value for r in ast.walk(ent) if isinstance(r, ast.Return) and r.value is not None]
    repl = [x for r in rets for e in backward_slice(r, defs) for x in ast.walk(e)
            if isinstance(x, ast.Call) and isinstance(x.func, ast.Attribute) and x.func.attr in ('expand', 'expand_as', 'repeat', 'tile', 'repeat_interleave', 'broadcast_to')]
    has = any(isinstance(x, ast.Call) and isinstance(x.func, ast.Attribute) and x.func.attr == 'entropy' for r in rets for e in backward_slice(r, defs) for x in ast.walk(e))
    if not has:
        rep.undecided('C14.C', key, where(dm, ent), 'the returned value is not derived from <distribution>.entropy()')
    else:
        rep.check('C14.C', key, not repl, where(dm, repl[0] if repl else ent), {'replications': [norm_text(x)[:60] for x in repl]},
                  f"Distribution.entropy replicates the entropy (`{norm_text(repl[0])[:60] if repl else ''}`): the entropy of a multivariate torch distribution is one number for its d "
                  f"components, replicated to the width of x and summed by the objective it is counted d times")


def check_mvn_entropy(ctx, rep):
    """C14.C — the entropy of the multivariate normal variational family (ELBO(entropy=True) adds it instead of −E log q).  Either it is delegated to the torch distribution
    built exactly as log_prob / rsample build it (same keyword dictionary), or it is a closed form: then, for each of the three parameterisations, the returned expression must be
    d/2·(1 + log 2π) + ½ log det Σ, i.e. + Σ log diag(L) for scale_tril, + ½ slogdet for the covariance and − ½ slogdet for the precision matrix."""
    cls = ctx.classes.find('torchtree.distributions.multivariate_normal.MultivariateNormal')
    if cls is None:
        rep.undecided('C14.C', 'MultivariateNormal.entropy', '', 'class not found')
        return
    m = cls.module
    ent, lp = cls.resolve('entropy')[1], cls.resolve('log_prob')[1]

    def torch_ctor(fn):
        for c in ast.walk(fn):
            if isinstance(c, ast.Call) and (dotted_name(c.func) or '').endswith('distributions.MultivariateNormal'):
                return c
        return None

    def kwargs_def(fn):
        return [norm_text(st.value) for st in ast.walk(fn) if isinstance(st, ast.Assign) and isinstance(st.targets[0], ast.Name) and st.targets[0].id == 'kwargs']
    ce, cl = torch_ctor(ent), torch_ctor(lp)
    key = 'MultivariateNormal.entropy::entropy-of-the-distribution-log_prob-evaluates'
    # both delegate to one helper of the class that builds the torch distribution: the same distribution by construction (the helper itself is decided by check_mvn_construction)
    def helper_of(fn, attr):
        rets = [r for r in ast.walk(fn) if isinstance(r, ast.Return) and r.value is not None]
        if len(rets) == 1 and isinstance(rets[0].value, ast.Call) and isinstance(rets[0].value.func, ast.Attribute) and rets[0].value.func.attr == attr:
            inner = rets[0].value.func.value
            if isinstance(inner, ast.Call) and self_attr(inner.func) and not inner.args:
                return self_attr(inner.func)
            if self_attr(inner):
                return self_attr(inner)
        return None
    he, hl = helper_of(ent, 'entropy'), helper_of(lp, 'log_prob')
    if ce is None and he is not None:
        rep.check('C14.C', key, he == hl, where(m, ent), {'entropy_delegates_to': he, 'log_prob_delegates_to': hl},
                  "MultivariateNormal.entropy must return the entropy of the very torch distribution log_prob evaluates")
        return
    if ce is not None:
        rets = [r for r in ast.walk(ent) if isinstance(r, ast.Return) and r.value is not None]
        delegated = len(rets) == 1 and isinstance(rets[0].value, ast.Call) and isinstance(rets[0].value.func, ast.Attribute) and rets[0].value.func.attr == 'entropy' and rets[0].value.func.value is ce
        same = cl is not None and norm_text(ce) == norm_text(cl) and kwargs_def(ent) == kwargs_def(lp)
        rep.check('C14.C', key, delegated and same, where(m, ent), {'entropy_builds': norm_text(ce)[:80], 'log_prob_builds': norm_text(cl)[:80] if cl is not None else None},
                  "MultivariateNormal.entropy must return the entropy of the very torch distribution log_prob evaluates (same location, same parameterisation keyword)")
        return
    # closed form
    HALF = Rat.const(Fraction(1, 2))
    for par, want_extra in (('scale_tril', Rat.sym('LD')), ('covariance_matrix', HALF * Rat.sym('SD')), ('precision_matrix', -HALF * Rat.sym('SD'))):
        k2 = f"{key}::{par}"
        env: Dict[str, Rat] = {}

        def atom(e):
            t = norm_text(e).replace(' ', '')
            if isinstance(e, ast.Name) and e.id in env:
                return env[e.id]
            if t in ('math.log(2.0*math.pi)', 'math.log(2*math.pi)', 'math.log(math.pi*2.0)', 'math.log(2.0*math.pi)'.replace('2.0', '2')):
                return Rat.sym('L2PI')
            if t == 'math.pi':
                return None
            if 'slogdet' in t and t.endswith('[1]') and 'self.parameter.tensor' in t:
                return Rat.sym('SD')
            if t.startswith('torch.logdet(') and 'self.parameter.tensor' in t:
                return Rat.sym('SD')
            if 'diagonal(' in t and '.log()' in t and t.endswith('.sum(-1)') and 'self.parameter.tensor' in t:
                return Rat.sym('LD')
            if t in ('self.loc.shape[-1]', 'self.loc.tensor.shape[-1]', 'self.event_shape'):
                return Rat.sym('d')
            return None

        def test(tn):
            if isinstance(tn, ast.Compare) and len(tn.ops) == 1 and isinstance(tn.ops[0], (ast.Eq, ast.NotEq, ast.In, ast.NotIn)) and self_attr(tn.left) == 'parameterization':
                c = tn.comparators[0]
                vals = [c.value] if isinstance(c, ast.Constant) else [x.value for x in c.elts if isinstance(x, ast.Constant)] if isinstance(c, (ast.Tuple, ast.List, ast.Set)) else None
                if vals is None:
                    raise Unsupported(tn, 'test')
                hit = par in vals
                return hit if isinstance(tn.ops[0], (ast.Eq, ast.In)) else not hit
            raise Unsupported(tn, f"test {norm_text(tn)[:40]}")

        def block(stmts):
            for st in stmts:
                if isinstance(st, ast.Expr) and isinstance(st.value, ast.Constant):
                    continue
                if isinstance(st, ast.Assign) and len(st.targets) == 1 and isinstance(st.targets[0], ast.Name):
                    env[st.targets[0].id] = ToRat(atom)(st.value)
                elif isinstance(st, ast.If):
                    r = block(st.body if test(st.test) else st.orelse)
                    if r is not None:
                        return r
                elif isinstance(st, ast.Return):
                    return ToRat(atom)(st.value)
                else:
                    raise Unsupported(st, f"statement {norm_text(st)[:40]}")
            return None
        try:
            got = block(ent.body)
        except Unsupported as u:
            rep.undecided('C14.C', k2, where(m, ent), f"closed-form entropy outside the vocabulary: {u}")
            continue
        want = HALF * Rat.sym('d') * (Rat.const(1) + Rat.sym('L2PI')) + want_extra
        rep.check('C14.C', k2, got is not None and got.equals(want), where(m, ent), {'returned': repr(got), 'expected': repr(want)},
                  f"MultivariateNormal.entropy with the {par} parameterisation returns {got!r}; the entropy is d/2·(1 + log 2π) + ½ log det Σ = {want!r} "
                  f"(LD = Σ log diag L, SD = log det of the stored matrix; the precision matrix is the inverse covariance, its log-determinant enters with a minus sign)")


def run(ctx, rep):
    from sa import callbind
    callbind.run_for(ctx, rep, 'C14', 11)
    rep.rule('C14.J', "the Jacobian term a transformed parameter contributes is that of its current value (C07.C rules): models expressed through constraining transforms")
    rep.explanation = (
        "C14.T: the _call of ELBO, KLpq, VR and CUBO is abstractly interpreted with log p = log q + c for every draw (c = log marginal "
        "likelihood) over symbolic sample shapes [S] (and [S,K] for ELBO); values are 'qcoef·log q_s + const' with const a rational function "
        "of c, alpha, n, S, K, log S, log K; logsumexp/mean/sum/max/exp/log/pow have exact transfer functions on draw-independent values.  The "
        "returned abstract value must be exactly c.  C14.S: on the CFG, a draw from q dominates every evaluation of p() and q() and no second "
        "draw lies between two evaluations; the sample size is kwargs.get('samples', self.samples)."
    )
    rep.rule('C14.T', "with log p − log q ≡ c for every draw the objective evaluates to exactly c (sign, −log K normaliser, reduced axis, 1/(1−α), 1/n, max shift)")
    rep.rule('C14.C', "the joint the objectives are built from keeps and sums every callable component; the joint entropy is the total of the component entropies")
    rep.rule('C14.O', "JSON options of the objectives (entropy, score, …) land on the constructor parameter of the same name")
    rep.rule('C14.S', "each evaluation request draws fresh samples first and evaluates p() and q() at that same draw")
    rep.assumptions += ["Distribution.rsample/sample write the draw into the shared parameters and fire change events (C11.W)",
                        "at the true posterior log p(z,x) − log q(z) is the same constant for every z"]
    rep.not_decided += ["sample shape [S,K] for KLpq (raises for S != K)", "entropy and score variants (exact only in expectation / surrogate)",
                        "conjugate models numerically", "Jacobian bookkeeping of transformed models (C19.J)"]
    check_tightness(ctx, rep)
    check_sampling_order(ctx, rep)
    check_dependencies(ctx, rep)
    try:
        check_joint(ctx, rep)
    except Unsupported as u:
        rep.undecided('C14.C', 'check_joint', '', str(u))
    try:
        check_mvn_entropy(ctx, rep)
    except Unsupported as u:
        rep.undecided('C14.C', 'check_mvn_entropy', '', str(u))
    check_mvn_construction(ctx, rep)
    check_analytic_entropy_terms(ctx, rep)
    check_container_keeps_every_component(ctx, rep)
    check_inverse_gamma_entropy(ctx, rep)
    # log p and log q are one number per SAMPLE only if every block reports the right sample shape (C10.S: Distribution._sample_shape over the abstract shape cases, matrix-
    # valued blocks included)
    from props import c10 as _c10s
    from sa.report import RuleProxy as _RPs
    _c10s.check_distribution_sample_shape(ctx, _RPs(rep, 'C14.C', 'sample-shape::'))
    # options of the objectives reach the constructor parameter of their own name
    from props import c09
    c09.check_positional_options(ctx, rep, rule='C14.O', only=lambda ci: ci.module.name.startswith('torchtree.variational'))
    # C14.S (what the assumption above rests on, decided here for the classes the objectives use): a draw written through a parameter kind reaches every model term
    # (setters notify, nobody writes another object's storage), and nothing derived from the parameters of a distribution is served from a cache keyed by less than their values
    from props import c11
    from sa.report import RuleProxy
    from sa.members import PARAM_BASE
    for cls in sorted(ctx.classes.classes.values(), key=lambda c: c.qualname):
        if cls.module.name == 'torchtree.core.parameter' and cls.has_base(PARAM_BASE):
            c11.check_setters(ctx, RuleProxy(rep, 'C14.S', 'draw-reaches-the-model::'), cls)
    c11.check_foreign_private_stores(ctx, RuleProxy(rep, 'C14.S', 'draw-reaches-the-model::'), rule='C14.S')
    c11.check_memo_keys(ctx, RuleProxy(rep, 'C14.S', 'memo::'), only=lambda m: m.name.startswith('torchtree.distributions') or m.name.startswith('torchtree.variational'))
    # the draws are STORED where the model reads them: through the setter of x (x may be a concatenation or a transformed parameter whose getter returns a cache)
    c11.check_inplace(ctx, RuleProxy(rep, 'C14.S', 'draw-reaches-the-model::'), rule='C11.W',
                      only=lambda m, fn: m.name.startswith('torchtree.distributions') or m.name.startswith('torchtree.variational'))
    # C14.C (shapes): the joint adds the components of ONE draw — no whole-tensor reduction and no axis counted from the front in JointDistributionModel (C10.D / C10.P / C10.J rules);
    # with [S, K] a `flatten(1)` adds the K inner draws of a row and every objective returns K·log Z
    from props import c10
    jm = 'torchtree.distributions.joint_distribution'
    c10.check_whole_reductions(ctx, RuleProxy(rep, 'C14.C', 'joint-shapes::'), only=lambda mname: mname == jm)
    nfa = c10.check_front_axes(ctx, RuleProxy(rep, 'C14.C', 'joint-shapes::'), only=lambda mname: mname == jm)
    try:
        c10.check_joint(ctx, RuleProxy(rep, 'C14.C', 'joint-shapes::'))
    except (AnalysisError, Unsupported) as u:
        rep.undecided('C14.C', 'joint-shapes::check_joint', '', str(u))
    rep.ok('C14.C', 'joint-shapes::scanned', '', {'axis_operations': nfa})
