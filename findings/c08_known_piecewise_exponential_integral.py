"""C08 (known): PiecewiseExponentialCoalescentGrid — the interval integral divides by the population size at time 0
(theta) and uses exp(g_i·t) instead of the piece's starting size and exp(g_i·(t − grid_i)): with growth rates that
differ between pieces the log density is not the Kingman density of the N(t) whose log it adds at coalescent events.
Run: PYTHONPATH=/repo /venv/bin/python findings/c08_known_piecewise_exponential_integral.py   (exit 1 = defect present)"""
import sys, math, torch
from torchtree.evolution.coalescent import PiecewiseExponentialCoalescentGrid
torch.set_default_dtype(torch.float64)

def N(t, theta, growth, grid):
    g0 = [0.0] + list(grid)
    logn = math.log(theta)
    for i in range(len(g0)):
        end = g0[i + 1] if i + 1 < len(g0) else float('inf')
        if t <= end:
            return math.exp(logn - growth[i] * (t - g0[i]))
        logn -= growth[i] * (end - g0[i])

def reference(sampling, internal, theta, growth, grid, steps=40000):
    events = sorted([(t, +1) for t in sampling] + [(t, -1) for t in internal] + [(t, 0) for t in grid])
    logp, k, prev = 0.0, 0, 0.0
    for t, kind in events:
        if t > prev and k > 1:
            n = max(10, int(steps * (t - prev)))
            dt = (t - prev) / n
            logp -= k * (k - 1) / 2 * sum(dt / N(prev + (i + 0.5) * dt, theta, growth, grid) for i in range(n))
        if kind == -1:
            logp -= math.log(N(t, theta, growth, grid))
        k += kind
        prev = t
    return logp

sampling = [0.0, 0.0, 0.0, 0.0]
internal = [0.7, 1.6, 2.9]
grid = [1.0, 2.0]
bad = 0
for growth in ([0.3, 0.3, 0.3], [0.3, -0.2, 0.5]):
    d = PiecewiseExponentialCoalescentGrid(torch.tensor([4.0]), torch.tensor(growth), torch.tensor(grid))
    got = d.log_prob(torch.tensor(sampling + internal)).item()
    want = reference(sampling, internal, 4.0, growth, grid)
    ok = abs(got - want) < 1e-4
    print(growth, 'torchtree', round(got, 6), 'reference', round(want, 6), 'OK' if ok else 'MISMATCH')
    bad += not ok
sys.exit(1 if bad else 0)
