#!/venv/bin/python
"""Static checks for the torchtree properties.

usage: check.py <ID> [--tier quick|thorough] [--repo /repo] [--out DIR]

Parses /repo/torchtree (never imports it), runs the rules serving property <ID>,
prints VIOLATION / KNOWN-FINDING / ANALYSIS-INCOMPLETE lines, rewrites
evidence/<ID>.json.  Exit 0 = all obligations hold (or are listed known findings),
1 = unlisted violation, 2 = the analyser could not see what it needs.
"""
from __future__ import annotations

import argparse
import importlib
import os
import sys
import traceback

HERE = os.path.dirname(os.path.abspath(__file__))
sys.path.insert(0, HERE)

from sa.loader import AnalysisError, Program  # noqa: E402
from sa.classes import ClassTable  # noqa: E402
from sa.report import Report  # noqa: E402

PROPS = [f"C{i:02d}" for i in range(1, 21)]


class Context:
    def __init__(self, repo: str):
        self.repo = repo
        self.prog = Program(repo)
        self.classes = ClassTable(self.prog)


def run_property(prop: str, tier: str, repo: str, out_dir=None, write_evidence=True) -> int:
    rep = Report(prop, tier, repo, out_dir)
    try:
        ctx = Context(repo)
        rep.analysed = {
            'files': len(ctx.prog.modules),
            'classes': len(ctx.classes.classes),
            'functions': sum(
                1
                for m in ctx.prog.modules.values()
                for n in __import__('ast').walk(m.tree)
                if n.__class__.__name__ in ('FunctionDef', 'AsyncFunctionDef')
            ),
        }
        mod = importlib.import_module(f"props.{prop.lower()}")
        mod.run(ctx, rep)
        return rep.finish(write_evidence)
    except AnalysisError as e:
        print(f"ANALYSIS-ERROR property={prop} {e}")
        return 2
    except Exception:
        traceback.print_exc()
        print(f"ANALYSIS-ERROR property={prop} internal error of the analyser (see traceback)")
        return 2


def main(argv=None) -> int:
    ap = argparse.ArgumentParser()
    ap.add_argument('prop')
    ap.add_argument('--tier', default=os.environ.get('VERIF_TIER', 'quick'), choices=['quick', 'thorough'])
    ap.add_argument('--repo', default=os.environ.get('VERIF_REPO', '/repo'))
    ap.add_argument('--out', default=None, help='directory receiving evidence/ (default /verif)')
    ap.add_argument('--no-evidence', action='store_true')
    a = ap.parse_args(argv)
    if a.prop not in PROPS:
        print(f"ANALYSIS-ERROR unknown property {a.prop}")
        return 2
    # an analysis that does not terminate must not hang the caller: ANALYSIS-ERROR (exit 2) after the budget (the analyser never runs the analysed code, so a hang is
    # a defect of the analyser on an unforeseen construct — e.g. a self-referential definition followed naively)
    import signal

    def _timeout(signum, frame):
        print(f"ANALYSIS-ERROR property={a.prop} the analysis did not finish within its time budget")
        os._exit(2)
    if hasattr(signal, 'SIGALRM'):
        signal.signal(signal.SIGALRM, _timeout)
        signal.alarm(int(os.environ.get('VERIF_ANALYSIS_BUDGET_S', '1500')))
    code = run_property(a.prop, a.tier, a.repo, a.out, not a.no_evidence)
    if hasattr(signal, 'SIGALRM'):
        signal.alarm(0)
    if code == 0 and a.tier == 'thorough':
        try:
            from sa import selftest

            st = selftest.run(a.prop, a.repo)
        except Exception:
            traceback.print_exc()
            print(f"ANALYSIS-ERROR property={a.prop} self-test driver failed")
            return 2
        if st != 0:
            print(f"ANALYSIS-ERROR property={a.prop} checker self-test failed: a rule no longer fires on its seeded break or fires on a benign twin")
            return 2
    return code


if __name__ == '__main__':
    sys.exit(main())
