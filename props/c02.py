"""C02 — invariance to how tree and data are written down.

Decided clause C02.M: switching between tip-state and tip-partial representations with
unknown/ambiguous symbols treated as missing selects the same tip vector for every symbol.
"""
from __future__ import annotations

import ast

from sa.consteval import fold_class
from sa.kernels import MODULE, extract, method_name
from sa.loader import AnalysisError, Unsupported, dotted_name, norm_text
from sa.report import where

DT = 'torchtree.evolution.datatype'


def partial_literal(cls_node: ast.ClassDef):
    """(string literal tested by `string not in '<lit>'`, what is returned in that case) of partial()."""
    fn = next((f for f in cls_node.body if isinstance(f, ast.FunctionDef) and f.name == 'partial'), None)
    if fn is None:
        raise Unsupported(cls_node, 'partial() not found')
    for n in ast.walk(fn):
        if isinstance(n, ast.If):
            lit = None
            for c in ast.walk(n.test):
                if isinstance(c, ast.Compare) and isinstance(c.ops[0], ast.NotIn) and isinstance(c.comparators[0], ast.Constant) and isinstance(c.comparators[0].value, str):
                    lit = c.comparators[0].value
            uses_flag = any(isinstance(x, ast.Name) and x.id == 'use_ambiguities' for x in ast.walk(n.test))
            if lit is not None and uses_flag and len(n.body) == 1 and isinstance(n.body[0], ast.Return):
                return fn, lit, n.body[0].value
    raise Unsupported(fn, 'missing-data branch of partial() not found')


def run(ctx, rep):
    rep.explanation = (
        "C02.M: for every one of the 128 code points and both table-driven data types, the tip vector that partial(c, use_ambiguities=False) returns "
        "(decided from the folded tables and the string literal of the missing-data branch) equals the column the tip-state kernels select for "
        "encoding(c) clamped to the state count: one-hot for a definite state, the appended all-ones column otherwise.  Extracted facts: the literal "
        "equals {c : STATES[c] < state_count}; the missing branch returns all ones; compress_alignment_states clamps at state_count; both tip-state "
        "kernels append exactly one column of ones on the last axis of the tip matrices and gather on that axis."
    )
    rep.rule('C02.M', "tip-state and tip-partial (ambiguities off) representations select the same tip vector for every symbol")
    rep.not_decided += ["permutations of taxa / sequences / children / columns", "rerooting", "pattern compression weights"]
    m = ctx.prog.module(DT)
    for cname, states_name, amb_name, nstates in (('NucleotideDataType', 'NUCLEOTIDE_STATES', 'NUCLEOTIDE_AMBIGUITY_STATES', 4),
                                                  ('AminoAcidDataType', 'AMINO_ACIDS_STATES', 'AMINO_ACIDS_AMBIGUITY_STATES', 20)):
        cls = m.classes.get(cname)
        if cls is None:
            raise AnalysisError(f"{cname} not found")
        W = where(m, cls)
        try:
            env = fold_class(cls)
            st, amb = env[states_name], env[amb_name]
            fn, lit, missing = partial_literal(cls)
        except (Unsupported, KeyError) as u:
            rep.undecided('C02.M', f"{cname}", W, str(u))
            continue
        definite = {chr(c) for c in range(128) if st[c] < nstates}
        rep.check('C02.M', f"{cname}::definite-symbol-literal", set(lit) == definite, where(m, fn),
                  {'literal': ''.join(sorted(lit)), 'symbols_with_a_definite_state': ''.join(sorted(definite))},
                  f"{cname}.partial treats {sorted(set(lit) ^ definite)} differently from encoding(): with ambiguities off the tip-partial representation "
                  f"and the tip-state representation disagree for these symbols")
        # missing branch returns all ones
        try:
            from sa.consteval import ConstEval
            ev = ConstEval(env, class_name=cname)
            mv = ev.expr(missing)
            ok = tuple(float(x) for x in mv) == (1.0,) * nstates
        except Unsupported:
            ok = False
            mv = None
        rep.check('C02.M', f"{cname}::missing-is-all-ones", ok, where(m, fn), {'returned': str(mv)[:80]},
                  f"{cname}.partial must return the all-ones vector for a symbol treated as missing")
        # per symbol
        bad = []
        for c in range(128):
            ch = chr(c)
            part = (1.0,) * nstates if ch not in lit else tuple(float(x) for x in amb[st[c]])
            enc = min(st[c], nstates)
            col = tuple(1.0 if (enc == nstates or i == enc) else 0.0 for i in range(nstates))
            if part != col:
                bad.append((c, ch, part, col))
        rep.check('C02.M', f"{cname}::all-128-symbols-agree", not bad, W, {'checked': 128, 'first_disagreement': str(bad[:1])},
                  f"{cname}: symbol {bad[0][1]!r} gives tip partial {bad[0][2]} but the tip-state kernels select {bad[0][3]}" if bad else '')
    # clamp at state_count
    sp = ctx.prog.module('torchtree.evolution.site_pattern')
    fn = sp.functions.get('compress_alignment_states')
    if fn is None:
        raise AnalysisError('compress_alignment_states not found')
    clamps = [c for c in ast.walk(fn) if isinstance(c, ast.Call) and method_name(c) in ('clamp', 'clip')]
    ok = False
    for c in clamps:
        mx = next((kw.value for kw in c.keywords if kw.arg == 'max'), c.args[2] if len(c.args) > 2 else None)
        enc = any(isinstance(x, ast.Call) and method_name(x) == 'encoding' for x in ast.walk(c))
        ok = ok or (mx is not None and ast.unparse(mx).endswith('data_type.state_count') and enc)
    rep.check('C02.M', 'compress_alignment_states::clamped-at-state-count', ok, where(sp, fn), None,
              "tip states must be data_type.encoding(symbol) clamped to state_count (the index of the all-ones column)")
    # kernels: one ones-column appended on the last axis, gathered on the last axis
    lm = ctx.prog.module(MODULE)
    n = 0
    for name, f in lm.functions.items():
        if 'tip_states' not in name:
            continue
        n += 1
        try:
            k = extract(f)
        except Unsupported as u:
            rep.undecided('C02.M', f"{name}::unknown-state-column", where(lm, f), str(u))
            continue
        mt = k.mat_tips or {}
        ok = mt.get('axis') == -1 and mt.get('first_is_tip_slice_of_mats') and mt.get('second_is_ones') and mt.get('one_column')
        gathers = [x for pos in ('first', 'second') for x in k.factors[pos] if x.kind == 'gather']
        ok = ok and len(gathers) == 2 and all(g.gather_last and g.matrix == mt.get('name') for g in gathers)
        rep.check('C02.M', f"{name}::unknown-state-column", bool(ok), where(lm, f), {'mat_tips': mt, 'gathers': [g.as_dict() for g in gathers]},
                  f"{name}: the tip matrices must get exactly one extra column of ones on the last axis (index state_count = unknown) and tip states must index that axis")
    if n < 2:
        raise AnalysisError('tip-state kernels not found')
