"""C02 (fixed): GeneralDataType.partial ignored use_ambiguities: with ambiguities treated as missing, the tip-partial representation kept the ambiguity code's
state set while the tip-state representation (encoding) maps it to the unknown state, so the two representations gave different likelihoods.
Run: PYTHONPATH=<tree> /venv/bin/python findings/c02_general_datatype_ignores_use_ambiguities.py   (exit 1 = defect present)"""
import sys
from torchtree.evolution.datatype import GeneralDataType

dt = GeneralDataType('dt', ('A', 'C', 'G', 'T'), {'R': ['A', 'G'], 'U': 'T', 'N': ['A', 'C', 'G', 'T']})
bad = 0
for c in 'ACGTURN?-':
    enc = dt.encoding(c)
    from_states = tuple(1.0 if (enc == dt.state_count or i == enc) else 0.0 for i in range(dt.state_count))
    from_partials = tuple(float(x) for x in dt.partial(c, False))
    ok = from_states == from_partials
    bad += not ok
    print(f"{c!r}: encoding {enc} -> tip-state column {from_states}; partial(use_ambiguities=False) {from_partials} {'' if ok else '  <-- differ'}")
    if tuple(float(x) for x in dt.partial(c, True)) != tuple(float(x) for x in dt.partial(c)):
        bad += 1
print('R with ambiguities on:', dt.partial('R', True))
if tuple(dt.partial('R', True)) != (1.0, 0.0, 1.0, 0.0):
    bad += 1
print('DEFECT present' if bad else 'OK')
sys.exit(1 if bad else 0)
