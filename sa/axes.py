"""Event-axis bookkeeping: a flow-sensitive abstract interpretation with two abstract values for a tensor that carries the sample dimensions —
  K  the trailing event axis is kept   (a parameter tensor `self.x`, a slice `t[..., a:b]`, a reduction with keepdim=True, `d.unsqueeze(-1)`)
  D  the trailing event axis is dropped (an element `t[..., i]`, a reduction over the last axis without keepdim, `k.squeeze(-1)`)
An element-wise operation between a K and a D value broadcasts [S, 1] against [S] into [S, S]: every sample is combined with every other sample.  With one sample the
result has the right numbers, which is why tests with unbatched inputs do not see it.  Everything else is "unknown" and never reported.
"""
from __future__ import annotations

import ast
from typing import Dict, List, Optional, Tuple

from sa.members import self_attr

K, D, C = 'K', 'D', 'C'   # C: a Python number or a fixed one-element constant (broadcasts with anything)
REDUCTIONS = {'sum', 'mean', 'prod', 'logsumexp', 'amax', 'amin', 'cumsum'}
POINTWISE = {'log', 'exp', 'clone', 'abs', 'sqrt', 'log1p', 'expm1', 'neg', 'detach', 'double', 'float', 'to', 'contiguous', 'lgamma', 'sigmoid', 'pow', 'square', 'reciprocal', 'rsqrt'}


def _last_index(sub: ast.Subscript):
    sl = sub.slice
    elts = sl.elts if isinstance(sl, ast.Tuple) else [sl]
    if len(elts) < 2 or not (isinstance(elts[0], ast.Constant) and elts[0].value is Ellipsis):
        return None
    return elts[-1]


TORCH_DISTRIBUTIONS = ('Gamma', 'Normal', 'LogNormal', 'Exponential', 'Beta', 'Cauchy', 'HalfCauchy', 'HalfNormal', 'Laplace', 'Weibull', 'Poisson', 'InverseGamma', 'StudentT', 'Uniform',
                       'Gumbel', 'Pareto', 'Chi2', 'FisherSnedecor', 'Kumaraswamy', 'LogisticNormal', 'Bernoulli', 'Geometric', 'NegativeBinomial', 'Binomial')


def _is_distribution_ctor(c) -> bool:
    """torch.distributions.Gamma(...), distributions.Normal(...), Gamma(...): a univariate torch distribution (its parameters broadcast element-wise against the value)"""
    from .loader import dotted_name
    dn = dotted_name(c.func) or ''
    return dn.split('.')[-1] in TORCH_DISTRIBUTIONS and (dn.count('.') == 0 or 'distributions' in dn)


class Axes:
    def __init__(self, fn: ast.FunctionDef, height_params=('node_heights', 'x', 'heights', 'value')):
        self.fn = fn
        self.height_params = set(height_params) & {a.arg for a in fn.args.args}
        self.reports: List[Tuple[ast.BinOp, str, str]] = []
        self._seen = set()
        self.decided = 0
        self._counted = set()
        self._depth = 0
        self._returns = None
        self.tensor_attrs = self._tensor_attrs(fn)
        self.const_attrs = self._const_attrs(fn)
        self._number_attrs = set()   # attributes known to hold a Python number on the current path (else of `isinstance(self.a, …Parameter)`)

    @staticmethod
    def _const_attrs(fn):
        """attributes set in the constructor from literals only (`torch.tensor([0.5])`, `torch.lgamma(self.shape)` of such): fixed, unbatched constants"""
        cl = getattr(fn, '_parent', None)
        while cl is not None and not isinstance(cl, ast.ClassDef):
            cl = getattr(cl, '_parent', None)
        out = set()
        if cl is None:
            return out
        # class-level constants: `shape = torch.tensor([0.5])`, `log_gamma_one_half = torch.lgamma(shape)`
        for st in cl.body:
            if isinstance(st, ast.Assign) and len(st.targets) == 1 and isinstance(st.targets[0], ast.Name) and isinstance(st.value, ast.Call):
                names = {x.id for x in ast.walk(st.value) if isinstance(x, ast.Name)} - {'torch', 'math'}
                if names <= out and (names or any(isinstance(x, ast.Constant) and isinstance(x.value, (int, float)) for x in ast.walk(st.value))):
                    out.add(st.targets[0].id)
        for init in [b for b in cl.body if isinstance(b, ast.FunctionDef) and b.name == '__init__']:
            params = {a.arg for a in init.args.args + init.args.kwonlyargs} - {'self'}
            for st in init.body:
                if isinstance(st, ast.Assign) and len(st.targets) == 1 and self_attr(st.targets[0]):
                    names = {x.id for x in ast.walk(st.value) if isinstance(x, ast.Name)} - {'torch', 'math', 'self'}
                    attrs = {self_attr(x) for x in ast.walk(st.value) if isinstance(x, ast.Attribute) and self_attr(x)}
                    if not (names & params) and not names and attrs <= out and any(isinstance(x, ast.Constant) and isinstance(x.value, (int, float)) for x in ast.walk(st.value)) or \
                            (not names and attrs and attrs <= out):
                        out.add(self_attr(st.targets[0]))
            # stores elsewhere (to()/cuda()) keep the value: ignore
        return out

    @staticmethod
    def _tensor_attrs(fn):
        """attributes of the enclosing class that hold a tensor handed to the constructor (annotated Tensor / Parameter): these have the event axis"""
        cl = getattr(fn, '_parent', None)
        while cl is not None and not isinstance(cl, ast.ClassDef):
            cl = getattr(cl, '_parent', None)
        out = set()
        if cl is None:
            return out
        for init in [b for b in cl.body if isinstance(b, ast.FunctionDef) and b.name == '__init__']:
            ann = {a.arg: ast.unparse(a.annotation) for a in init.args.args + init.args.kwonlyargs if a.annotation is not None}
            tens = {n for n, t in ann.items() if any(w in t for w in ('Tensor', 'Parameter'))}
            for st in ast.walk(init):
                if isinstance(st, ast.Assign) and isinstance(st.value, ast.Name) and st.value.id in tens:
                    for t in st.targets:
                        if self_attr(t):
                            out.add(self_attr(t))
        return out

    # -- expressions -----------------------------------------------------
    def kind(self, e, env) -> Optional[str]:
        if isinstance(e, ast.Name):
            return env.get(e.id)
        if isinstance(e, ast.Constant) and isinstance(e.value, (int, float)) and not isinstance(e.value, bool):
            return C
        if isinstance(e, ast.Attribute) and e.attr in ('taxa_count', 'state_count') or (isinstance(e, ast.Subscript) and isinstance(e.value, ast.Attribute) and e.value.attr == 'shape'):
            return C
        if isinstance(e, ast.Call) and isinstance(e.func, ast.Name) and e.func.id in ('len', 'int', 'float'):
            return C
        if isinstance(e, ast.Attribute) and self_attr(e) in self.const_attrs:
            return C
        if isinstance(e, ast.Attribute) and self_attr(e) and self_attr(e) in self._number_attrs:
            return C
        if isinstance(e, ast.Attribute) and self_attr(e):
            return K if self_attr(e) in self.tensor_attrs else None
        if isinstance(e, ast.Attribute) and e.attr == 'tensor' and isinstance(e.value, ast.Attribute) and self_attr(e.value) in self.tensor_attrs:
            return K      # the tensor of a parameter held by the object
        if isinstance(e, ast.Attribute) and e.attr in ('node_heights',) and isinstance(e.value, ast.Attribute) and self_attr(e.value):
            return K      # tree quantities are laid out [..., node]
        if isinstance(e, ast.Call) and isinstance(e.func, ast.Attribute) and e.func.attr in ('branch_lengths',) and isinstance(e.func.value, ast.Attribute) \
                and self_attr(e.func.value) and not e.args:
            return K      # [..., branch]
        if isinstance(e, ast.Subscript):
            li = _last_index(e)
            if li is None:
                return None
            base = self.kind(e.value, env)
            from_heights = isinstance(e.value, ast.Name) and e.value.id in self.height_params
            if not (base == K or from_heights):
                return None
            if isinstance(li, ast.Slice):
                return K
            if isinstance(li, ast.Constant) and isinstance(li.value, int) or (isinstance(li, ast.UnaryOp) and isinstance(li.operand, ast.Constant)):
                return D
            return None
        if isinstance(e, ast.UnaryOp):
            return self.kind(e.operand, env)
        if isinstance(e, ast.IfExp):
            a, b = self.kind(e.body, env), self.kind(e.orelse, env)
            return a if a == b else None
        if isinstance(e, ast.Call) and isinstance(e.func, ast.Attribute) and isinstance(e.func.value, ast.Name) and e.func.value.id == 'self' and self._depth < 3:
            r = self.call_method(e, env)
            return r if isinstance(r, str) else None
        # a torch distribution built from tensors and evaluated at a value is an element-wise combination of all of them:  Gamma(a, b).log_prob(x)
        if isinstance(e, ast.Call) and isinstance(e.func, ast.Attribute) and e.func.attr in ('log_prob', 'cdf', 'icdf') and len(e.args) == 1:
            ctor = e.func.value
            if isinstance(ctor, ast.Name) and isinstance(env.get(ctor.id), tuple) and env[ctor.id][:1] == ('dist',):
                arg_kinds = list(env[ctor.id][1])
            elif isinstance(ctor, ast.Call) and _is_distribution_ctor(ctor):
                arg_kinds = [self.kind(a, env) for a in ctor.args] + [self.kind(k.value, env) for k in ctor.keywords if k.arg not in ('validate_args',)]
            else:
                arg_kinds = None
            if arg_kinds is not None:
                kinds = [k for k in arg_kinds + [self.kind(e.args[0], env)] if k in (K, D)]
                if len(kinds) >= 2 and id(e) not in self._counted:
                    self._counted.add(id(e))
                    self.decided += 1
                if K in kinds and D in kinds:
                    if id(e) not in self._seen:
                        self._seen.add(id(e))
                        self.reports.append((e, K, D))
                    return None
                return kinds[0] if kinds else None
        if isinstance(e, ast.Call) and _is_distribution_ctor(e):
            return ('dist', tuple([self.kind(a, env) for a in e.args] + [self.kind(k.value, env) for k in e.keywords if k.arg not in ('validate_args',)]))
        if isinstance(e, ast.Call) and isinstance(e.func, ast.Attribute):
            a = e.func.attr
            torch_fn = isinstance(e.func.value, ast.Name) and e.func.value.id == 'torch'
            recv = (e.args[0] if e.args else None) if torch_fn else e.func.value
            rest = (e.args[1:] if torch_fn else e.args)
            if recv is None:
                return None
            if a in REDUCTIONS and a != 'cumsum':
                dim = rest[0] if rest else next((k.value for k in e.keywords if k.arg in ('dim', 'axis')), None)
                if dim is None or ast.unparse(dim) != '-1':
                    return None
                if self.kind(recv, env) != K:
                    return None
                keep = any(k.arg == 'keepdim' and isinstance(k.value, ast.Constant) and k.value.value is True for k in e.keywords) or \
                    (len(rest) > 1 and isinstance(rest[1], ast.Constant) and rest[1].value is True)
                return K if keep else D
            if a == 'unsqueeze' and rest and ast.unparse(rest[-1]) == '-1':
                return K if self.kind(recv, env) == D else None
            if a == 'squeeze' and rest and ast.unparse(rest[-1]) == '-1':
                return D if self.kind(recv, env) == K else None
            if a in POINTWISE or a == 'cumsum':
                return self.kind(recv, env)
            return None
        if isinstance(e, ast.BinOp) and isinstance(e.op, (ast.Add, ast.Sub, ast.Mult, ast.Div, ast.Pow)):
            l, r = self.kind(e.left, env), self.kind(e.right, env)
            if C in (l, r):
                return r if l == C else l
            if l and r and id(e) not in self._counted:
                self._counted.add(id(e))
                self.decided += 1
            if l and r and l != r and id(e) not in self._seen:
                self._seen.add(id(e))
                self.reports.append((e, l, r))
            if l == r:
                return l
            return None
        return None

    def call_method(self, call, env):
        """kind (or tuple of kinds) returned by a method of the same class, evaluated with the kinds of the actual arguments"""
        cl = getattr(self.fn, '_parent', None)
        while cl is not None and not isinstance(cl, ast.ClassDef):
            cl = getattr(cl, '_parent', None)
        if cl is None:
            return None
        target = next((b for b in cl.body if isinstance(b, ast.FunctionDef) and b.name == call.func.attr), None)
        if target is None or target is self.fn:
            return None
        params = [a.arg for a in target.args.args][1:]
        sub = Axes(target, height_params=())
        sub._depth = self._depth + 1
        sub.tensor_attrs, sub.const_attrs = self.tensor_attrs, self.const_attrs
        env2 = {p_: self.kind(a, env) for p_, a in zip(params, call.args)}
        env2.update({k.arg: self.kind(k.value, env) for k in call.keywords if k.arg})
        rets = []
        sub._returns = rets
        sub.block(target.body, env2)
        self.reports += [r for r in sub.reports if id(r[0]) not in self._seen and not self._seen.add(id(r[0]))]
        self.decided += sub.decided
        if not rets:
            return None
        first = rets[0]
        return first if all(r == first for r in rets) else None

    def _visit_exprs(self, node, env):
        """evaluate every arithmetic sub-expression of a statement's expressions (for the reports)"""
        for x in ast.walk(node):
            if isinstance(x, ast.BinOp):
                self.kind(x, env)
            elif isinstance(x, ast.Call) and isinstance(x.func, ast.Attribute) and x.func.attr in ('log_prob', 'cdf', 'icdf'):
                self.kind(x, env)       # Dist(a, b).log_prob(v) combines a, b and v element-wise

    # -- statements ------------------------------------------------------
    def block(self, stmts, env: Dict[str, Optional[str]]) -> Dict[str, Optional[str]]:
        for st in stmts:
            env = self.stmt(st, env)
        return env

    @staticmethod
    def merge(a, b):
        # a Python number (C) broadcasts with anything: where one branch binds a number and the other a tensor, the tensor's layout is the one that matters
        def j(x, y, both):
            if x == y:
                return x
            if both and x == C and y in (K, D):
                return y
            if both and y == C and x in (K, D):
                return x
            return None
        return {k: j(a.get(k), b.get(k), k in a and k in b) for k in set(a) | set(b)}

    @staticmethod
    def _parameter_guard(test):
        """`isinstance(self.a, AbstractParameter)` (or Parameter / a tuple of them): the attribute guarded, else None"""
        if isinstance(test, ast.Call) and isinstance(test.func, ast.Name) and test.func.id == 'isinstance' and len(test.args) == 2 and self_attr(test.args[0]):
            names = [x.id if isinstance(x, ast.Name) else x.attr for x in ast.walk(test.args[1]) if isinstance(x, (ast.Name, ast.Attribute))]
            if names and all(n.endswith('Parameter') for n in names):
                return self_attr(test.args[0])
        return None

    def stmt(self, st, env):
        if isinstance(st, ast.Assign):
            self._visit_exprs(st.value, env)
            tuple_kinds = None
            if isinstance(st.value, ast.Call) and isinstance(st.value.func, ast.Attribute) and isinstance(st.value.func.value, ast.Name) and st.value.func.value.id == 'self' \
                    and self._depth < 3 and any(isinstance(t, (ast.Tuple, ast.List)) for t in st.targets):
                r = self.call_method(st.value, env)
                tuple_kinds = r if isinstance(r, tuple) else None
                v = None
            else:
                v = self.kind(st.value, env)
            env = dict(env)
            for t in st.targets:
                if isinstance(t, ast.Name):
                    env[t.id] = v
                elif isinstance(t, (ast.Tuple, ast.List)):
                    for i_, x in enumerate(t.elts):
                        if isinstance(x, ast.Name):
                            env[x.id] = tuple_kinds[i_] if tuple_kinds is not None and i_ < len(tuple_kinds) else None
            return env
        if isinstance(st, ast.AugAssign):
            self._visit_exprs(st.value, env)
            if isinstance(st.target, ast.Name):
                l, r = env.get(st.target.id), self.kind(st.value, env)
                # an in-place update cannot broadcast its output: [S, 1] op= [S] raises for S > 1 (an error is allowed, a silent [S, S] is not) — not reported
                env = dict(env)
                env[st.target.id] = l if (l == r or r == C) else None
            return env
        if isinstance(st, ast.If):
            self._visit_exprs(st.test, env)
            a = self.block(st.body, dict(env))
            guarded = self._parameter_guard(st.test)
            saved = set(self._number_attrs)
            if guarded:
                self._number_attrs.add(guarded)
            b = self.block(st.orelse, dict(env))
            self._number_attrs = saved
            return self.merge(a, b)
        if isinstance(st, (ast.For, ast.While)):
            body_env = dict(env)
            if isinstance(st, ast.For):
                for x in ast.walk(st.target):
                    if isinstance(x, ast.Name):
                        body_env[x.id] = None
            a = self.block(st.body, body_env)
            return self.merge(env, a)
        if isinstance(st, ast.With):
            return self.block(st.body, env)
        if isinstance(st, ast.Try):
            a = self.block(st.body, dict(env))
            for h in st.handlers:
                a = self.merge(a, self.block(h.body, dict(env)))
            return self.block(st.finalbody, a)
        if isinstance(st, (ast.Return, ast.Expr)) and st.value is not None:
            self._visit_exprs(st.value, env)
            if isinstance(st, ast.Return) and self._returns is not None:
                if isinstance(st.value, ast.Tuple):
                    self._returns.append(tuple(self.kind(x, env) for x in st.value.elts))
                else:
                    self._returns.append(self.kind(st.value, env))
        return env

    def run(self):
        self.block(self.fn.body, {})
        return self.reports


POSITIVE = '''
class M:
    def __init__(self, origin: torch.Tensor, rate: torch.Tensor, count: int, root_edge: bool = False):
        self.origin = origin
        self.rate = rate
        self.count = count
        self.root_edge = root_edge

    def log_prob(self, node_heights):
        fine = self.count * node_heights[..., 0]
        root = node_heights[..., -1]
        if self.origin is None:
            origin = root
        else:
            origin = self.origin
            if self.root_edge:
                origin = origin + root
        ok = self.origin + node_heights[..., -1:]
        total = (self.rate * node_heights[..., 1:]).sum(-1)
        also_ok = total + root
        bad2 = self.rate.sum(-1, keepdim=True) * total
        return origin, ok, also_ok, bad2
'''


def self_check():
    t = ast.parse(POSITIVE)
    for n in ast.walk(t):
        for ch in ast.iter_child_nodes(n):
            ch._parent = n
    fn = t.body[0].body[1]
    got = sorted(ast.unparse(r[0]) for r in Axes(fn).run())
    want = ['origin + root', 'self.rate.sum(-1, keepdim=True) * total']
    if got != want:
        from sa.loader import AnalysisError
        raise AnalysisError(f"event-axis self-check failed: {got}")


def check_event_axes(ctx, rep, rule: str, module_prefixes, floor: int = 1) -> int:
    from sa.loader import norm_text
    from sa.report import where
    self_check()
    n_fn = n_dec = 0
    prefixes = tuple(module_prefixes)
    for mname, m in sorted(ctx.prog.modules.items()):
        if not any(mname == p.rstrip('.') or mname.startswith(p) for p in prefixes):
            continue
        for fn in ast.walk(m.tree):
            if not isinstance(fn, ast.FunctionDef):
                continue
            n_fn += 1
            a = Axes(fn)
            reports = a.run()
            n_dec += a.decided
            cl = getattr(fn, '_parent', None)
            scope = f"{cl.name}.{fn.name}" if isinstance(cl, ast.ClassDef) else fn.name
            for node, l, r in reports:
                txt = norm_text(node)[:70]
                rep.bad(rule, f"{mname.replace('torchtree.', '')}::{scope}::{txt}", where(m, node), {'left': l, 'right': r},
                        f"{scope}: `{txt}` combines a value that keeps the trailing event axis ([S, 1]) with one that dropped it ([S]): broadcasting gives [S, S], every sample "
                        f"is combined with every other sample (with a single sample the numbers are right, which is why unbatched tests pass)")
            if not reports and a.decided:
                rep.ok(rule, f"{mname.replace('torchtree.', '')}::{scope}::event-axis-consistent", where(m, fn), {'operations_with_both_sides_classified': a.decided})
    rep.analysed['event_axis_functions'] = n_fn
    rep.analysed['event_axis_operations_classified'] = n_dec
    if n_dec < floor:
        rep.incomplete(rule, '*', '', f"only {n_dec} operations had both operands classified (expected at least {floor})")
    return n_dec
