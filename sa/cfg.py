"""Statement-level control-flow graph for one function, with dominators,
post-dominators and must-pass-through queries.

Nodes are ast statements (compound statements are represented by a *header* node:
the `If`/`While` test, the `For` iterator, the `With` items, the `Try` entry) plus
synthetic ENTRY, EXIT (normal return / fall off the end) and RAISE (exception leaves
the function).  Nested function/class definitions are opaque single nodes.

Exceptions: an explicit `raise` goes to the innermost matching handler set (all handlers
of enclosing `try`, conservatively) or to RAISE.  Implicit exceptions of ordinary
statements are only modelled inside `try` bodies (edge from every body statement to every
handler), which is what the repo's idioms need (`try: … except KeyError`).
"""
from __future__ import annotations

import ast
from typing import Dict, Iterable, List, Optional, Set


class Node:
    __slots__ = ('id', 'stmt', 'kind', 'succ', 'pred', 'label')

    def __init__(self, id_, stmt, kind):
        self.id = id_
        self.stmt = stmt
        self.kind = kind  # 'entry','exit','raise','stmt','test','for','with','try','handler','with_exit'
        self.succ: List['Node'] = []
        self.pred: List['Node'] = []
        self.label = {}

    def __repr__(self):
        if self.stmt is None:
            return f"<{self.kind}>"
        return f"<{self.kind}@{getattr(self.stmt, 'lineno', '?')}>"


class CFG:
    def __init__(self, fn: ast.FunctionDef):
        self.fn = fn
        self.nodes: List[Node] = []
        self.entry = self._new(None, 'entry')
        self.exit = self._new(None, 'exit')
        self.raise_ = self._new(None, 'raise')
        self.by_stmt: Dict[int, Node] = {}
        # edge labels for branches: (src.id, dst.id) -> 'true'/'false'/'loop'/'exc'
        self.edge_label: Dict[tuple, str] = {}
        self._loop_stack: List[tuple] = []  # (continue_target, break_collect)
        self._handler_stack: List[List[Node]] = []
        self._finally_stack: List[object] = []
        ends = self._block(fn.body, [self.entry])
        self._connect(ends, self.exit)

    # -- construction ----------------------------------------------------
    def _new(self, stmt, kind) -> Node:
        n = Node(len(self.nodes), stmt, kind)
        self.nodes.append(n)
        if stmt is not None and kind not in ('with_exit',):
            self.by_stmt.setdefault(id(stmt), n)
        return n

    def _edge(self, a: Node, b: Node, label: Optional[str] = None):
        if b not in a.succ:
            a.succ.append(b)
            b.pred.append(a)
        if label:
            prev = self.edge_label.get((a.id, b.id))
            self.edge_label[(a.id, b.id)] = label if prev in (None, label) else 'both'

    def _connect(self, preds: Iterable, node: Node):
        for p in preds:
            if isinstance(p, tuple):
                self._edge(p[0], node, p[1])
            else:
                self._edge(p, node)

    def _exc_targets(self) -> List[Node]:
        if self._handler_stack:
            return self._handler_stack[-1]
        return [self.raise_]

    def _block(self, stmts: List[ast.stmt], preds: list) -> list:
        cur = preds
        for st in stmts:
            cur = self._stmt(st, cur)
        return cur

    def _stmt(self, st: ast.stmt, preds: list) -> list:
        if isinstance(st, ast.If):
            n = self._new(st, 'test')
            self._connect(preds, n)
            t_end = self._block(st.body, [(n, 'true')])
            if st.orelse:
                f_end = self._block(st.orelse, [(n, 'false')])
            else:
                f_end = [(n, 'false')]
            return t_end + f_end
        if isinstance(st, (ast.For, ast.AsyncFor, ast.While)):
            n = self._new(st, 'for' if not isinstance(st, ast.While) else 'test')
            self._connect(preds, n)
            breaks: list = []
            self._loop_stack.append((n, breaks))
            body_end = self._block(st.body, [(n, 'true')])
            self._loop_stack.pop()
            for e in body_end:
                if isinstance(e, tuple):
                    self._edge(e[0], n, e[1])
                else:
                    self._edge(e, n, 'loop')
            infinite = isinstance(st, ast.While) and isinstance(st.test, ast.Constant) and st.test.value is True
            out: list = []
            if not infinite:
                if st.orelse:
                    out = self._block(st.orelse, [(n, 'false')])
                else:
                    out = [(n, 'false')]
            return out + breaks
        if isinstance(st, (ast.With, ast.AsyncWith)):
            n = self._new(st, 'with')
            self._connect(preds, n)
            end = self._block(st.body, [n])
            x = self._new(st, 'with_exit')
            self._connect(end, x)
            return [x]
        if isinstance(st, ast.Try) or st.__class__.__name__ == 'TryStar':
            n = self._new(st, 'try')
            self._connect(preds, n)
            handlers = [self._new(h, 'handler') for h in st.handlers]
            catches_all = any(
                h.type is None
                or (isinstance(h.type, ast.Name) and h.type.id in ('Exception', 'BaseException'))
                for h in st.handlers
            )
            outer = self._exc_targets()
            targets = handlers + ([] if catches_all else outer)
            if not st.handlers:
                targets = outer
            self._handler_stack.append(targets)
            first = len(self.nodes)
            body_end = self._block(st.body, [n])
            last = len(self.nodes)
            self._handler_stack.pop()
            # implicit exceptions: every node created for the body may jump to handlers
            for bn in self.nodes[first:last]:
                if bn.kind in ('handler',):
                    continue
                for h in handlers:
                    self._edge(bn, h, 'exc')
            else_end = self._block(st.orelse, body_end) if st.orelse else body_end
            ends = list(else_end)
            for h, hn in zip(st.handlers, handlers):
                ends += self._block(h.body, [hn])
            if st.finalbody:
                ends = self._block(st.finalbody, ends)
            return ends
        if isinstance(st, ast.Return):
            n = self._new(st, 'stmt')
            self._connect(preds, n)
            self._edge(n, self.exit)
            return []
        if isinstance(st, ast.Raise):
            n = self._new(st, 'stmt')
            self._connect(preds, n)
            for t in self._exc_targets():
                self._edge(n, t, 'exc')
            return []
        if isinstance(st, ast.Break):
            n = self._new(st, 'stmt')
            self._connect(preds, n)
            if self._loop_stack:
                self._loop_stack[-1][1].append(n)
            return []
        if isinstance(st, ast.Continue):
            n = self._new(st, 'stmt')
            self._connect(preds, n)
            if self._loop_stack:
                self._edge(n, self._loop_stack[-1][0], 'loop')
            return []
        if isinstance(st, ast.Match):
            n = self._new(st, 'test')
            self._connect(preds, n)
            ends = []
            for case in st.cases:
                ends += self._block(case.body, [n])
            return ends + [n]
        # simple statement (incl. nested def / class, assert, expr, assign …)
        n = self._new(st, 'stmt')
        self._connect(preds, n)
        if isinstance(st, ast.Assert):
            for t in self._exc_targets():
                self._edge(n, t, 'exc')
        return [n]

    # -- queries -----------------------------------------------------------
    def node_of(self, stmt) -> Node:
        return self.by_stmt[id(stmt)]

    def stmt_nodes(self) -> List[Node]:
        return [n for n in self.nodes if n.stmt is not None]

    def reachable(self, start: Node, avoid: Set[int] = frozenset(), forward=True) -> Set[int]:
        seen = {start.id}
        stack = [start]
        while stack:
            n = stack.pop()
            for m in (n.succ if forward else n.pred):
                if m.id in seen or m.id in avoid:
                    continue
                seen.add(m.id)
                stack.append(m)
        return seen

    def reachable_after(self, start: Node, avoid: Set[int] = frozenset()) -> Set[int]:
        """Nodes reachable from `start` by ≥1 edge, not entering `avoid`."""
        seen: Set[int] = set()
        stack = [m for m in start.succ if m.id not in avoid]
        for m in stack:
            seen.add(m.id)
        while stack:
            n = stack.pop()
            for m in n.succ:
                if m.id in seen or m.id in avoid:
                    continue
                seen.add(m.id)
                stack.append(m)
        return seen

    def must_pass(self, a: Node, b: Node, through: Iterable[Node]) -> bool:
        """Every path a →+ b passes through one of `through` (True also if b is
        unreachable from a)."""
        avoid = {n.id for n in through}
        if a.id in avoid:
            avoid = avoid - {a.id}
        return b.id not in self.reachable_after(a, avoid)

    def dominators(self) -> Dict[int, Set[int]]:
        allids = {n.id for n in self.nodes}
        reach = self.reachable(self.entry)
        dom = {n.id: (set(allids) if n.id in reach else {n.id}) for n in self.nodes}
        dom[self.entry.id] = {self.entry.id}
        changed = True
        while changed:
            changed = False
            for n in self.nodes:
                if n is self.entry or n.id not in reach:
                    continue
                preds = [p for p in n.pred if p.id in reach]
                if preds:
                    new = set.intersection(*(dom[p.id] for p in preds)) | {n.id}
                else:
                    new = {n.id}
                if new != dom[n.id]:
                    dom[n.id] = new
                    changed = True
        return dom

    def dominates(self, a: Node, b: Node) -> bool:
        """Every path entry → b passes through a."""
        if a is b:
            return True
        return b.id not in self.reachable(self.entry, avoid={a.id})

    def postdominates(self, a: Node, b: Node, exits: Optional[List[Node]] = None) -> bool:
        """Every path from b to a normal exit passes through a."""
        if a is b:
            return True
        exits = exits or [self.exit]
        r = self.reachable(b, avoid={a.id})
        return not any(e.id in r for e in exits)

    def must_facts(self, gen, kill=None, at=None):
        """Forward must-analysis.  gen/kill: Node -> set of facts.  Returns the set of facts
        that hold on *every* path from entry at node `at` (default: normal exit), i.e. after
        executing all nodes before it."""
        at = at or self.exit
        reach = self.reachable(self.entry)
        TOP = None
        out = {n.id: TOP for n in self.nodes}
        out[self.entry.id] = set(gen(self.entry) or ())
        changed = True
        order = [n for n in self.nodes if n.id in reach]
        while changed:
            changed = False
            for n in order:
                if n is self.entry:
                    continue
                ins = [out[p.id] for p in n.pred if p.id in reach and out[p.id] is not TOP]
                if not ins:
                    continue
                cur = set.intersection(*ins)
                if n is not at or True:
                    k = kill(n) if kill else ()
                    new = (cur - set(k or ())) | set(gen(n) or ())
                if out[n.id] is TOP or new != out[n.id]:
                    out[n.id] = new
                    changed = True
        if at.id not in reach:
            return None  # unreachable: vacuous
        ins = [out[p.id] for p in at.pred if p.id in reach and out[p.id] is not TOP]
        if at is self.entry:
            return set()
        return set.intersection(*ins) if ins else set()

    def paths(self, a: Node, b: Node, limit: int = 2000) -> List[List[Node]]:
        """All simple paths a → b (bounded)."""
        out = []
        stack = [(a, [a])]
        while stack and len(out) < limit:
            n, p = stack.pop()
            for m in n.succ:
                if m is b:
                    out.append(p + [m])
                elif m not in p:
                    stack.append((m, p + [m]))
        return out


def own_nodes(stmt: ast.AST):
    """ast.walk over a statement *header*: does not descend into the bodies of
    compound statements or nested function/class definitions."""
    if isinstance(stmt, (ast.If, ast.While)):
        roots = [stmt.test]
    elif isinstance(stmt, (ast.For, ast.AsyncFor)):
        roots = [stmt.target, stmt.iter]
    elif isinstance(stmt, (ast.With, ast.AsyncWith)):
        roots = list(stmt.items)
    elif isinstance(stmt, ast.Try):
        roots = []
    elif isinstance(stmt, ast.ExceptHandler):
        roots = [stmt.type] if stmt.type is not None else []
    elif isinstance(stmt, (ast.FunctionDef, ast.AsyncFunctionDef, ast.ClassDef, ast.Lambda)):
        roots = []
    elif isinstance(stmt, ast.Match):
        roots = [stmt.subject]
    else:
        roots = [stmt]
    stack = list(roots)
    while stack:
        n = stack.pop()
        yield n
        for c in ast.iter_child_nodes(n):
            if isinstance(c, (ast.FunctionDef, ast.AsyncFunctionDef, ast.ClassDef, ast.Lambda)):
                yield c
                continue
            stack.append(c)


def calls_in(stmt: ast.AST) -> List[ast.Call]:
    return [n for n in own_nodes(stmt) if isinstance(n, ast.Call)]
