CLAIMED = {
    'C18': {
        'text': "Exhaustive abstract interpretation of the checkpoint writer over the file typestate {name,name.new,name.old}->{absent,complete,partial}: every crash prefix of every path, for every flag combination the resolved call sites can pass, closed under restart-after-crash. Shows that a complete checkpoint always survives and that the checkpoint name is never a truncated file. Finite state space, fully enumerated; this is the quantifier of the property (all crash points, any number of consecutive interrupted writes), which no test can reach.",
        'note': "Trusted: POSIX rename/replace are atomic and raise on a missing source; open(...,'w') truncates immediately; a with-block that exits normally leaves a complete file. Power-loss durability (fsync) and the content written are not decided.",
        'technique': "file typestate abstract interpretation + who-may-call/who-may-write over resolved call sites",
    },
}

NOT_APPLICABLE = {
    'C10': "every clause quantifies over runtime tensor shapes (which parameters are batched, S==K coincidences, which reduction branch fires); a sound static shape analysis would need shape types for every torch op, and the one structural candidate (_sample_shape mentions every registered parameter) is not a necessary condition, so arming it would raise false alarms",
}
