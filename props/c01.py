"""C01 — tree log-likelihood equals exact marginalisation.

C01.T  alphabet tables, exhaustively over the 128 code points (constant folding).
C01.K  structure of the pruning recurrence in all six kernels + sibling agreement.
"""
from __future__ import annotations

import ast
from typing import Dict, List, Optional

from sa.consteval import fold_class
from sa.kernels import MODULE, Kernel, extract, method_name
from sa.loader import AnalysisError, Unsupported, norm_text, dotted_name
from sa.members import self_attr
from sa.report import where

DT = 'torchtree.evolution.datatype'

IUPAC = {'A': 'A', 'C': 'C', 'G': 'G', 'T': 'T', 'U': 'T', 'R': 'AG', 'Y': 'CT', 'M': 'AC', 'W': 'AT', 'S': 'CG', 'K': 'GT',
         'B': 'CGT', 'D': 'AGT', 'H': 'ACT', 'V': 'ACG', 'N': 'ACGT'}
AA = 'ACDEFGHIKLMNPQRSTVWY'
AA_AMBIG = {'B': 'DN', 'Z': 'EQ'}


def expected_nucleotide(c: int) -> tuple:
    ch = chr(c).upper()
    states = IUPAC.get(ch, 'ACGT') if ch.isalpha() else 'ACGT'
    return tuple(1.0 if s in states else 0.0 for s in 'ACGT')


def expected_amino(c: int) -> tuple:
    ch = chr(c).upper()
    if ch in AA and chr(c).isalpha():
        states = ch
    elif ch in AA_AMBIG and chr(c).isalpha():
        states = AA_AMBIG[ch]
    else:
        states = AA
    return tuple(1.0 if s in states else 0.0 for s in AA)


def check_tables(ctx, rep):
    m = ctx.prog.module(DT)
    # nucleotides
    cls = m.classes.get('NucleotideDataType')
    if cls is None:
        raise AnalysisError('NucleotideDataType not found')
    env = fold_class(cls)
    W = where(m, cls)
    st, amb = env.get('NUCLEOTIDE_STATES'), env.get('NUCLEOTIDE_AMBIGUITY_STATES')
    if st is None or amb is None:
        raise Unsupported(cls, 'nucleotide tables could not be folded')
    rep.check('C01.T', 'nucleotide::128-code-points', len(st) == 128, W, {'len': len(st)}, f"NUCLEOTIDE_STATES has {len(st)} entries, not 128")
    if len(st) == 128:
        for c in range(128):
            try:
                got = tuple(float(x) for x in amb[st[c]])
            except (IndexError, TypeError):
                got = None
            want = expected_nucleotide(c)
            if got != want or c in (ord('A'), ord('R'), ord('N'), ord('-'), ord('?'), ord('u'), ord('b')):
                rep.check('C01.T', f"nucleotide::{c}:{chr(c) if 32 < c < 127 else '.'}", got == want, W, {'code_point': c, 'char': repr(chr(c)), 'got': got, 'expected': want},
                          f"nucleotide symbol {chr(c)!r} maps to the tip vector {got}, but it stands for the states {want} (IUPAC): "
                          f"an ambiguous tip is not the union of the states it may stand for")
        rep.ok('C01.T', 'nucleotide::all-other-code-points', W, {'checked': 128})
    # amino acids
    cls = m.classes.get('AminoAcidDataType')
    env = fold_class(cls)
    W = where(m, cls)
    st, amb = env.get('AMINO_ACIDS_STATES'), env.get('AMINO_ACIDS_AMBIGUITY_STATES')
    if st is None or amb is None:
        raise Unsupported(cls, 'amino-acid tables could not be folded')
    rep.check('C01.T', 'aminoacid::128-code-points', len(st) == 128, W, {'len': len(st)}, f"AMINO_ACIDS_STATES has {len(st)} entries")
    letters = env.get('AMINO_ACIDS')
    rep.check('C01.T', 'aminoacid::state-order', isinstance(letters, str) and letters[:20] == AA, W, {'letters': letters},
              "the first 20 letters of AMINO_ACIDS define the state order used by the rate matrices")
    if len(st) == 128:
        bad = 0
        for c in range(128):
            try:
                got = tuple(float(x) for x in amb[st[c]])
            except (IndexError, TypeError):
                got = None
            want = expected_amino(c)
            if got != want or c in (ord('A'), ord('B'), ord('Z'), ord('X'), ord('*'), ord('-'), ord('y')):
                rep.check('C01.T', f"aminoacid::{c}:{chr(c) if 32 < c < 127 else '.'}", got == want, W, {'code_point': c, 'got': got, 'expected': want},
                          f"amino-acid symbol {chr(c)!r} maps to {got}, expected {want}")
        rep.ok('C01.T', 'aminoacid::all-other-code-points', W, {'checked': 128})
    # codons
    cls = m.classes.get('CodonDataType')
    env = fold_class(cls)
    W = where(m, cls)
    tables, names, counts, trip = (env.get(k) for k in ('GENETIC_CODE_TABLES', 'GENETIC_CODE_NAMES', 'NUMBER_OF_CODONS', 'CODON_TRIPLETS'))
    if None in (tables, names, counts, trip):
        raise Unsupported(cls, 'codon tables could not be folded')
    rep.check('C01.T', 'codon::table-counts-agree', len(tables) == len(names) == len(counts), W, {'tables': len(tables), 'names': len(names), 'counts': len(counts)},
              "genetic code tables, names and codon counts have different lengths")
    for i, t in enumerate(tables):
        ok = len(t) == 64 and i < len(counts) and counts[i] == 64 - t.count('*')
        rep.check('C01.T', f"codon::table[{names[i] if i < len(names) else i}]", ok, W, {'length': len(t), 'stops': t.count('*'), 'declared_states': counts[i] if i < len(counts) else None},
                  f"genetic code {i}: {len(t)} symbols with {t.count('*')} stops but {counts[i] if i < len(counts) else '?'} states declared: state count and stop removal disagree")
    want = tuple(a + b + c for a in 'ACGT' for b in 'ACGT' for c in 'ACGT')
    rep.check('C01.T', 'codon::triplets-base4-order', tuple(trip[:64]) == want, W, None,
              "CODON_TRIPLETS is not in base-4 ACGT order, which encoding() (n1*16+n2*4+n3) assumes")


# ---------------------------------------------------------------------------
def kernels(ctx) -> Dict[str, Kernel]:
    m = ctx.prog.module(MODULE)
    out = {}
    for name, fn in m.functions.items():
        if name.startswith('calculate_treelikelihood'):
            out[name] = extract(fn)
    if len(out) < 6:
        raise AnalysisError(f"only {len(out)} pruning kernels found")
    return out


def check_kernel(ctx, rep, name: str, k: Kernel):
    m = ctx.prog.module(MODULE)
    W = where(m, k.fn)
    rep.check('C01.K', f"{name}::stores-into-partials[node]", not k.problems and k.product_ok, W, {'problems': k.problems},
              f"{name}: the recurrence must store the product of the two child terms into partials[node]")
    want = {'first': k.left, 'second': k.right}
    seen_children = set()
    for pos in ('first', 'second'):
        for f in k.factors[pos]:
            facts = f.as_dict()
            child = f.c_matrix
            seen_children.add(child)
            key = f"{name}::{pos}-factor::{f.kind}"
            ok_pair = f.c_matrix == f.c_partial and f.c_matrix in (k.left, k.right)
            rep.check('C01.K', key + '::matrix-and-partial-of-the-same-child', ok_pair, W, facts,
                      f"{name}: `{f.text}` takes the transition matrix of branch `{f.c_matrix}` but the partial of `{f.c_partial}`: "
                      f"a child's partial is propagated along the wrong branch")
            if f.kind == 'matmul':
                rep.check('C01.K', key + '::orientation-P·L', f.matrix_left is True and not f.transposed, W, facts,
                          f"{name}: `{f.text}` must be P(branch) @ partial (rows = parent state); a transposed or right-multiplied matrix gives "
                          f"Σ_parent instead of Σ_child — invisible for symmetric P (JC69), wrong for HKY/GTR with unequal frequencies")
            else:
                rep.check('C01.K', key + '::gathers-the-child-state-column', bool(f.gather_last) and not f.transposed, W, facts,
                          f"{name}: tip states must select the last (child state / column) axis of the tip matrices")
            # tip alternative guarded by the same child
            cond = getattr(f, 'cond', None)
            if cond:
                names = {n.id for t, _ in cond for n in ast.walk(t) if isinstance(n, ast.Name)}
                rep.check('C01.K', key + '::branch-guard-on-the-same-child', f.c_matrix in names, W, {'guard': [norm_text(t) for t, _ in cond]},
                          f"{name}: the tip/internal switch for `{f.c_matrix}` tests another node")
    both = {f.c_matrix for f in k.factors['first']} | {f.c_matrix for f in k.factors['second']}
    first = {f.c_matrix for f in k.factors['first']}
    second = {f.c_matrix for f in k.factors['second']}
    rep.check('C01.K', f"{name}::one-factor-per-child", both == {k.left, k.right} and len(first) == 1 and len(second) == 1 and first != second, W,
              {'first': sorted(first), 'second': sorted(second)},
              f"{name}: the product must have exactly one factor for the left child and one for the right child (found {sorted(first)} × {sorted(second)})")
    r = k.ret
    rep.check('C01.K', f"{name}::root-partial", r['root_is_last_postorder_node'], W, r, f"{name}: the likelihood must be read from partials[post_indexing[-1][0]] (the root)")
    rep.check('C01.K', f"{name}::frequencies-contract-states", r['freqs_left'], W, r, f"{name}: root frequencies must be the left operand of `freqs @ root partial`")
    has_props = len(k.params) > 5
    if has_props:
        rep.check('C01.K', f"{name}::categories-summed-before-log", r['category_axis'] == -3 and r['props_weight_partials'] is True, W, r,
                  f"{name}: the rate-category axis (-3) weighted by the proportions must be summed inside the log, before the frequency contraction; "
                  f"found axis {r['category_axis']}")
    rep.check('C01.K', f"{name}::weights-outside-log-sum-over-sites", r['weights_multiply_log'] and r['outer_axis'] == -1, W, r,
              f"{name}: pattern weights must multiply the per-site log-likelihood and the sum must run over the site axis (-1)")
    rep.check('C01.K', f"{name}::log-of-the-site-likelihood-itself", not r.get('log_argument_altered'), W, {'wrappers': r.get('log_argument_altered')},
              f"{name}: the site likelihood is passed through {r.get('log_argument_altered')} before the log: a likelihood below the bound is replaced by the bound, so the value "
              f"is no longer the marginal likelihood — and an underflow to zero no longer gives -inf, which is what switches the model to the rescaled kernels")
    if k.scaler is not None:
        ok = r.get('scaler_term') is not None and bool(r.get('scaler_inside_weighted_sum')) and bool(r.get('scaler_is_sum_log_cat'))
        rep.check('C01.K', f"{name}::log-scalers-are-per-site-terms-inside-the-weighted-sum", ok, W, {'scaler_term': r.get('scaler_term'), 'added_after_weights': r.get('term_added_after_weights')},
                  f"{name}: the per-site Σ log(scaler) is part of the site's log-likelihood and must be multiplied by the pattern weight with it; added outside, a pattern "
                  f"of weight w contributes its scalers once instead of w times")


def sibling_tuple(k: Kernel):
    r = k.ret
    f1 = sorted({(f.kind, f.matrix_left, f.transposed, f.n_trailing) for f in k.factors['first']}, key=str)
    f2 = sorted({(f.kind, f.matrix_left, f.transposed, f.n_trailing) for f in k.factors['second']}, key=str)
    return (r['freqs_left'], r['category_axis'], r['props_weight_partials'], r['outer_axis'], r['root_is_last_postorder_node'])


# ---------------------------------------------------------------------------
# C01.B — assembly of the per-branch quantities, and C01.W — pattern compression keeps every column
# ---------------------------------------------------------------------------
def _strip_shape_calls(e):
    while isinstance(e, ast.Call) and isinstance(e.func, ast.Attribute) and e.func.attr in ('expand', 'reshape', 'view', 'unsqueeze', 'contiguous', 'clone'):
        e = e.func.value
    return e


def check_assembly(ctx, rep):
    cls = ctx.classes.get(f"{MODULE}.TreeLikelihoodModel")
    r = cls.resolve('_call') if cls else None
    if r is None:
        raise Unsupported(None, 'TreeLikelihoodModel._call not found')
    fn = r[1]
    W = where(cls.module, fn)
    q = lambda e: ast.unparse(e)
    bl_names = {st.targets[0].id for st in ast.walk(fn) if isinstance(st, ast.Assign) and isinstance(st.targets[0], ast.Name)
                and 'tree_model.branch_lengths()' in q(st.value)}
    # the branch of `if self.clock_model is None`
    ifs = [n for n in fn.body if isinstance(n, ast.If) and 'clock_model' in q(n.test)]
    if len(ifs) != 1 or not bl_names:
        raise Unsupported(fn, 'clock / no-clock branches of _call not recognised')
    node = ifs[0]
    no_clock, clock = (node.body, node.orelse) if q(node.test).endswith('is None') else (node.orelse, node.body)
    # B1: unrooted: lengths of the 2N−3 branches in node order followed by one zero (the root's second child keeps the whole edge)
    cats = [st for st in no_clock if isinstance(st, ast.Assign) and isinstance(st.value, ast.Call) and method_name(st.value) == 'cat']
    verdict = None
    facts = {}
    if len(cats) == 1 and isinstance(cats[0].value.args[0], (ast.Tuple, ast.List)):
        parts = cats[0].value.args[0].elts
        axis = cats[0].value.args[1] if len(cats[0].value.args) > 1 else next((k.value for k in cats[0].value.keywords if k.arg == 'dim'), None)
        kinds = []
        for p_ in parts:
            base = _strip_shape_calls(p_)
            if isinstance(base, ast.Name) and base.id in bl_names:
                kinds.append('lengths')
            elif isinstance(base, ast.Subscript) and isinstance(_strip_shape_calls(base.value), ast.Name) and _strip_shape_calls(base.value).id in bl_names:
                kinds.append('slice-of-lengths')
            elif isinstance(p_, ast.Call) and method_name(p_) in ('zeros', 'zeros_like', 'new_zeros') and p_.args and q(p_.args[0]).replace(' ', '').endswith('+(1,)'):
                kinds.append('one-zero')
            else:
                kinds.append('other')
        facts = {'parts': [q(p_)[:60] for p_ in parts], 'kinds': kinds, 'axis': q(axis) if axis is not None else None}
        if kinds == ['lengths', 'one-zero'] and axis is not None and q(axis) == '-1':
            verdict = True
        elif 'slice-of-lengths' in kinds or kinds == ['one-zero', 'lengths'] or kinds.count('one-zero') > 1 or (kinds == ['lengths', 'one-zero'] and (axis is None or q(axis) != '-1')):
            verdict = False
    key = 'TreeLikelihoodModel._call::unrooted::branch-vector-is-lengths-then-one-zero'
    why = ("without a clock the per-node branch vector must be the tree model's branch lengths, unsliced and in their own order, followed by exactly one zero on the "
           "last axis (node i keeps length i; the padded entry belongs to the node the root edge was merged away from): any other layout pairs lengths with the wrong nodes")
    if verdict is None:
        rep.undecided('C01.B', key, W, 'construction of the padded branch vector not recognised', facts)
    else:
        rep.check('C01.B', key, verdict, W, facts, why)
    # B2: clock: rate × time, element-wise, same node order
    ok = False
    facts = {}
    target = cats[0].targets[0].id if len(cats) == 1 and isinstance(cats[0].targets[0], ast.Name) else 'bls'
    prods = [st for b in clock for st in ast.walk(b) if isinstance(st, ast.Assign) and any(isinstance(t, ast.Name) and t.id == target for t in st.targets)]
    if prods:
        ok = True
        for st in prods:
            good = False
            if isinstance(st.value, ast.BinOp) and isinstance(st.value.op, ast.Mult):
                l, r_ = _strip_shape_calls(st.value.left), _strip_shape_calls(st.value.right)
                sides = {q(l), q(r_)}
                good = 'self.clock_model.rates' in sides and any(isinstance(x, ast.Name) and x.id in bl_names for x in (l, r_))
            ok = ok and good
            facts[q(st)[:80]] = good
    rep.check('C01.B', 'TreeLikelihoodModel._call::clock::rate-times-time-per-branch', ok, W, facts,
              "with a clock the expected substitutions on a branch are clock rate × branch duration, element-wise in node order")
    # B3: scaled by the site rates before exponentiation
    pt = [c for c in ast.walk(fn) if isinstance(c, ast.Call) and method_name(c) == 'p_t']
    ok = len(pt) == 1 and isinstance(pt[0].args[0], ast.BinOp) and isinstance(pt[0].args[0].op, ast.Mult) and \
        {q(_strip_shape_calls(pt[0].args[0].left)), q(_strip_shape_calls(pt[0].args[0].right))} == {'bls', 'rates'}
    rep.check('C01.B', 'TreeLikelihoodModel._call::transition-matrices-of-length-times-site-rate', ok, W, {'argument': q(pt[0].args[0])[:80] if pt else None},
              "transition matrices must be p_t(branch quantity × site-model rate)")


def counter_keys_are_raw_columns(fn, counter='count_dict'):
    """(True/False/None, facts): the keys of the pattern counter are the alignment columns themselves — `Counter(zip(*S))` (possibly inside list()/tuple()),
    or incremental `counter[K] += 1` with K the loop variable of `for K in zip(*S)` (or tuple(K)); any key computed from the column by another function
    (an encoding, a case fold, a translation) merges columns whose symbols differ."""
    q = lambda e: ast.unparse(e)

    def strip(e):
        while isinstance(e, ast.Call) and isinstance(e.func, ast.Name) and e.func.id in ('list', 'tuple', 'iter') and len(e.args) == 1:
            e = e.args[0]
        return e

    def is_columns(e):
        e = strip(e)
        return isinstance(e, ast.Call) and isinstance(e.func, ast.Name) and e.func.id == 'zip' and len(e.args) == 1 and isinstance(e.args[0], ast.Starred) \
            and isinstance(e.args[0].value, ast.Name)
    col_vars = set()
    for st in ast.walk(fn):
        if isinstance(st, ast.For) and isinstance(st.target, ast.Name) and is_columns(st.iter):
            col_vars.add(st.target.id)
    assigns = [st for st in ast.walk(fn) if isinstance(st, ast.Assign) and any(isinstance(t, ast.Name) and t.id == counter for t in st.targets)]
    if not assigns:
        return None, {'why': f'no assignment to {counter}'}
    facts = {'constructions': [q(a.value)[:70] for a in assigns], 'column_loop_variables': sorted(col_vars)}
    for a in assigns:
        v = a.value
        if not (isinstance(v, ast.Call) and isinstance(v.func, (ast.Name, ast.Attribute)) and (dotted_name(v.func) or '').split('.')[-1] in ('Counter', 'defaultdict', 'dict', 'OrderedDict')):
            return None, {**facts, 'why': f'{counter} is not built by Counter(...)'}
        if v.args and (dotted_name(v.func) or '').split('.')[-1] == 'Counter':
            if not is_columns(v.args[0]):
                e = strip(v.args[0])
                # Counter(f(c) for c in zip(*S)) / Counter(map(f, zip(*S)))
                return False, {**facts, 'offending': f"`{q(e)[:80]}`"}
    stores = []
    for st in ast.walk(fn):
        tgts = st.targets if isinstance(st, ast.Assign) else ([st.target] if isinstance(st, ast.AugAssign) else [])
        for t in tgts:
            if isinstance(t, ast.Subscript) and isinstance(t.value, ast.Name) and t.value.id == counter:
                stores.append(t.slice)
    for c in ast.walk(fn):
        if isinstance(c, ast.Call) and isinstance(c.func, ast.Attribute) and isinstance(c.func.value, ast.Name) and c.func.value.id == counter and c.func.attr in ('update', 'setdefault'):
            if c.args and not is_columns(c.args[0]):
                stores.append(c.args[0])
    facts['incremental_keys'] = [q(k)[:60] for k in stores]
    local = {}
    for st in ast.walk(fn):
        if isinstance(st, ast.Assign) and len(st.targets) == 1 and isinstance(st.targets[0], ast.Name):
            local.setdefault(st.targets[0].id, []).append(st.value)
    for k in stores:
        e = strip(k)
        if isinstance(e, ast.Name) and e.id in local and e.id not in col_vars:
            vals = [strip(v) for v in local[e.id]]
            if all(isinstance(v, ast.Name) and v.id in col_vars for v in vals):
                continue
            return False, {**facts, 'offending': f"`{e.id} = {q(local[e.id][0])[:70]}`"}
        if not (isinstance(e, ast.Name) and e.id in col_vars):
            return False, {**facts, 'offending': f"`{q(e)[:80]}`"}
    if not stores and not any(a.value.args for a in assigns):
        return None, {**facts, 'why': 'empty counter that is never filled'}
    return True, facts


ALTERING = ('clamp', 'clamp_min', 'clamp_max', 'clip', 'abs', 'relu', 'round', 'floor', 'ceil', 'nan_to_num', 'maximum', 'minimum', 'fmax', 'fmin', 'max', 'min', 'where', 'exp', 'log', 'softplus')


def check_branch_length_accessors(ctx, rep):
    """C01.B — a tree model whose branch lengths ARE a parameter hands that parameter's tensor to the likelihood as it is (views allowed): a floor or clamp inside the
    accessor evaluates the likelihood of another tree than the one the parameter describes"""
    n = 0
    for cls in sorted(ctx.classes.classes.values(), key=lambda c: c.qualname):
        if not cls.module.name.startswith('torchtree.evolution.tree_model') or cls.is_abstract():
            continue
        r = cls.resolve('branch_lengths')
        if r is None or r[0] is not cls:
            continue
        fn = r[1]
        rets = [x for x in ast.walk(fn) if isinstance(x, ast.Return) and x.value is not None]
        body = [b for b in fn.body if not (isinstance(b, ast.Expr) and isinstance(b.value, ast.Constant))]
        if len(rets) != 1 or len(body) != 1:
            continue        # computed branch lengths (time trees): decided by C06
        e = rets[0].value
        wrappers = []
        while True:
            if isinstance(e, ast.Call) and isinstance(e.func, ast.Attribute) and e.func.attr in ('expand', 'reshape', 'view', 'unsqueeze', 'squeeze', 'contiguous', 'clone', 'to', 'detach'):
                e = e.func.value
            elif isinstance(e, ast.Call) and isinstance(e.func, ast.Attribute) and e.func.attr in ALTERING:
                wrappers.append(e.func.attr)
                e = e.func.value if not (isinstance(e.func.value, ast.Name) and e.func.value.id == 'torch') else (e.args[0] if e.args else e)
            else:
                break
        is_param = isinstance(e, ast.Attribute) and e.attr == 'tensor' and self_attr(e.value) is not None
        if not is_param:
            continue
        n += 1
        rep.check('C01.B', f"{cls.name}.branch_lengths::returns-the-parameter-values", not wrappers, where(r[0].module, rets[0]), {'returned': ast.unparse(rets[0].value)[:100], 'wrappers': wrappers},
                  f"{cls.name}.branch_lengths() returns `{ast.unparse(rets[0].value)[:80]}`: the branch-length parameter goes through {wrappers} on its way to the likelihood, so the "
                  f"likelihood is that of a tree with other branch lengths than the parameter holds (below the bound the parameter has no effect at all)")
    if n < 1:
        rep.incomplete('C01.B', 'branch-length-accessors', '', 'no tree model returning its branch-length parameter found')


def check_compress(ctx, rep):
    m = ctx.prog.module('torchtree.evolution.site_pattern')
    fn = m.functions.get('compress')
    if fn is None:
        raise Unsupported(None, 'site_pattern.compress not found')
    W = where(m, fn)
    q = lambda e: ast.unparse(e)
    assigns = [st for st in ast.walk(fn) if isinstance(st, ast.Assign) and any(isinstance(t, ast.Name) and t.id == 'count_dict' for t in st.targets)]
    all_counter = bool(assigns) and all(isinstance(st.value, ast.Call) and method_name(st.value) == 'Counter' for st in assigns)
    mutated = [q(c)[:60] for c in ast.walk(fn) if (isinstance(c, ast.Call) and isinstance(c.func, ast.Attribute) and isinstance(c.func.value, ast.Name) and c.func.value.id == 'count_dict'
                                                    and c.func.attr in ('pop', 'popitem', 'clear', 'update', '__delitem__'))
               or (isinstance(c, ast.Delete) and 'count_dict' in q(c))]
    order = [st for st in ast.walk(fn) if isinstance(st, ast.Assign) and 'count_dict' in q(st.value) and isinstance(st.targets[0], ast.Name) and st.targets[0].id != 'count_dict']
    keys_all = any(q(st.value).replace(' ', '') in ('sorted(list(count_dict.keys()))', 'sorted(count_dict.keys())', 'sorted(count_dict)', 'list(count_dict.keys())', 'list(count_dict)') for st in order)
    weights_from_counts = any('count_dict[' in q(st.value) for st in order)
    raw, raw_facts = counter_keys_are_raw_columns(fn)
    if raw is None:
        rep.undecided('C01.W', 'compress::patterns-are-the-distinct-raw-columns', W, raw_facts.get('why', 'construction of the column counter not recognised'), raw_facts)
    else:
        rep.check('C01.W', 'compress::patterns-are-the-distinct-raw-columns', raw, W, raw_facts,
                  f"two columns may share a pattern only when they are the same symbols taxon by taxon; here the counter is keyed by {raw_facts.get('offending')}: columns "
                  f"that differ in their symbols are merged (one of them stands for all, with the summed count), so sites are evaluated with another site's tip vectors — "
                  f"and which one depends on the order of the columns")
    rep.check('C01.W', 'compress::every-distinct-column-is-kept-with-its-count', all_counter and not mutated and keys_all and weights_from_counts, W,
              {'count_dict_assignments': [q(st.value)[:60] for st in assigns], 'mutations': mutated},
              "the site patterns must be every distinct column with its multiplicity (Counter over the columns, all keys, their counts as weights): a column that is "
              "filtered out or re-weighted changes the product over sites")


def run(ctx, rep):
    rep.explanation = (
        "C01.T: the alphabet tables of the nucleotide, amino-acid and codon data types are constant-folded from the class bodies and checked "
        "exhaustively: for each of the 128 code points the tip vector AMBIGUITY[STATES[c]] must be the indicator of the union of states the symbol "
        "stands for (IUPAC table written in the checker); genetic-code tables must have 64 symbols, a state count equal to 64 minus the stops, and "
        "base-4 triplet order.  C01.K: for each of the six pruning kernels the post-order loop is parsed: exactly one factor per child, matrix and "
        "partial indexed by the same child, orientation P·L without transpose, tip-state gather on the last axis, root = last post-order node, "
        "category axis -3 summed inside the log, weights outside; the kernels that take proportions must agree on these facts."
    )
    rep.rule('C01.T', "tip vectors: every symbol maps to the indicator of the union of states it stands for; codon tables are self-consistent")
    rep.rule('C01.K', "pruning recurrence: child/matrix pairing, orientation, gather axis, root selection, category-weight placement, weights; sibling agreement")
    rep.rule('C01.B', "assembly of per-branch quantities in TreeLikelihoodModel._call: lengths in node order then one zero (unrooted), rate × time (clock), × site rate")
    rep.rule('C01.W', "pattern compression keeps every distinct column with its count")
    rep.not_decided += ["numerical equality with an independent oracle", "broadcast shapes in TreeLikelihoodModel._call", "post-order / taxon indexing (setup_indexes)"]
    rep.assumptions += ["IUPAC nucleotide codes; B={D,N}, Z={E,Q}, X*?- = any amino acid; unknown code points mean 'any state'"]
    try:
        check_tables(ctx, rep)
    except Unsupported as u:
        rep.undecided('C01.T', 'tables', f"line {getattr(u.node, 'lineno', 0)}", str(u))
    try:
        ks = kernels(ctx)
    except Unsupported as u:
        rep.undecided('C01.K', 'kernels', f"line {getattr(u.node, 'lineno', 0)}", str(u))
        return
    for f, rule in ((check_assembly, 'C01.B'), (check_branch_length_accessors, 'C01.B'), (check_compress, 'C01.W')):
        try:
            f(ctx, rep)
        except Unsupported as u:
            rep.undecided(rule, f.__name__, f"line {getattr(u.node, 'lineno', 0)}", str(u))
    # the value that is reported is a likelihood, not the -inf of an underflow: every evaluation path of the model tests the plain result and recomputes it with rescaling
    # (the C03.G / C03.P / C03.W rules, consulted as a whole)
    from props import c03 as _c03
    from sa.report import RuleProxy as _RPu
    try:
        _c03.run(ctx, _RPu(rep, 'C01.K', 'underflow::'))
    except Unsupported as u:
        rep.undecided('C01.K', 'underflow::c03', '', str(u))
    # tip vectors handed to the likelihood must be the ones of *this* request (ambiguity flag, index set): no memo keyed on less
    from props import c11
    c11.check_memo_keys(ctx, rep, rule='C01.W', only=lambda m: m.name in ('torchtree.evolution.site_pattern', 'torchtree.evolution.alignment', 'torchtree.evolution.attribute_pattern'))
    # tip STATES: the index handed to the tip-state kernels for a gap / unknown symbol is that of the all-ones column they append (C02.M clamp rule)
    from props import c02 as _c02
    from sa.report import RuleProxy as _RPt
    _c02.check_tip_state_clamp(ctx, _RPt(rep, 'C01.W', 'tip-states::'))
    for name, k in sorted(ks.items()):
        check_kernel(ctx, rep, name, k)
    disc = {n: sibling_tuple(k) for n, k in ks.items() if len(k.params) > 5}
    vals = set(disc.values())
    rep.check('C01.K', 'kernels::siblings-agree', len(vals) == 1, where(ctx.prog.module(MODULE), list(ks.values())[0].fn), {n: str(v) for n, v in disc.items()},
              f"the kernels disagree on (frequency side, category axis, proportions, site axis, root): {disc}")
    # C01.N — the likelihood is that of *this* tree and *these* tip data: the plumbing that pairs leaves with sequences and builds the branch-length vector from a newick
    # string (decided by the C02.N machinery), and the site model's rates have weighted mean one (C05.N: otherwise every branch is silently rescaled)
    from props import c02, c05
    from sa.report import RuleProxy
    rep.rule('C01.N', "leaves are paired with their own tip data and the branch-length vector is that of the tree written down (C02.N rules); the discretised site rates the "
                      "likelihood multiplies branch lengths by have weighted mean one (C05.N rules)")
    try:
        c02.check_names(ctx, RuleProxy(rep, 'C01.N', 'names::'))
    except Unsupported as u:
        rep.undecided('C01.N', 'names', '', str(u))
    try:
        c05.check_discretized(ctx, RuleProxy(rep, 'C01.N', 'site-rates::'))
    except Unsupported as u:
        rep.undecided('C01.N', 'site-rates', '', str(u))
    # C01.H — the likelihood is that of the CURRENT branch lengths, rates and substitution parameters: the models it reads mark every cache dirty when a parameter
    # they listen to changes (C11.H rules on exactly these classes)
    from props import c11
    from sa.members import Kinds
    rep.rule('C01.H', "the tree, clock, site and substitution models the likelihood reads, and the likelihood model itself, invalidate their caches and pass the event on "
                      "whenever a parameter or model they listen to changes (C11.H rules on these classes)")
    kinds = Kinds(ctx.classes)
    nh = 0
    for cls in sorted(ctx.classes.classes.values(), key=lambda c: c.qualname):
        mn = cls.module.name
        if (mn.startswith('torchtree.evolution.tree_model') or mn in ('torchtree.evolution.branch_model', 'torchtree.evolution.site_model', 'torchtree.evolution.tree_likelihood')
                or mn.startswith('torchtree.evolution.substitution_model')) and not cls.is_abstract() and cls.has_base('torchtree.core.parametric.Parametric'):
            nh += 1
            c11.check_handlers(ctx, RuleProxy(rep, 'C01.H', 'handlers::'), kinds, cls)
    if nh < 15:
        rep.incomplete('C01.H', '*', '', f"only {nh} model classes found")
    # … and none of them keeps, from its constructor, a value (or a view) taken from a parameter's tensor and serves it later: a re-assigned parameter has a NEW tensor, the
    # view still shows the old one (C09.P snapshot rule on the models the likelihood reads)
    from props import c09
    c09.check_snapshots(ctx, rep, rule='C01.H', modules=['torchtree.evolution.branch_model', 'torchtree.evolution.site_model', 'torchtree.evolution.tree_likelihood'], floor=6)
    # C01.T (ambiguities off) — the default of TreeLikelihoodModel is use_ambiguities=False: the tip vector of every symbol that stands for ONE state must still be that
    # state's indicator (C02.M rules: partial() with the flag off against the encoding tables, all 128 code points, and the lookup data types)
    try:
        c02.check_table_datatypes(ctx, RuleProxy(rep, 'C01.T', 'ambiguities-off::'))
        c02.check_lookup_datatypes(ctx, RuleProxy(rep, 'C01.T', 'ambiguities-off::'))
    except Unsupported as u:
        rep.undecided('C01.T', 'ambiguities-off', '', str(u))
    # C01.N (dates): tips of a time tree sit at the heights their sampling dates mean (C06.C rules)
    from props import c06
    try:
        c06.check_date_conventions(ctx, RuleProxy(rep, 'C01.N', 'dates::'))
    except Unsupported as u:
        rep.undecided('C01.N', 'dates', '', str(u))
