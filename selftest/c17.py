from sa.selftest import Mut

AD = 'torchtree/inference/hmc/adaptation.py'
OPS = 'torchtree/inference/mcmc/operator.py'
MC = 'torchtree/inference/mcmc/mcmc.py'
OPT = 'torchtree/optim/optimizer.py'
HOP = 'torchtree/inference/hmc/operator.py'
INT = 'torchtree/inference/hmc/integrator.py'
PE = 'torchtree/core/parameter_encoder.py'
UT = 'torchtree/core/utils.py'
MAIN = 'torchtree/torchtree.py'

CORPUS = [
    Mut('c17-dualavg-original', AD, 'DualAveragingStepSize.load_state_dict', 'self._dual_avg._counter = state_dict["counter"]',
        'self._accepted = state_dict["accepted"]',
        expect=[('C17.K1', 'DualAveragingStepSize::accepted'), ('C17.K2', 'DualAveragingStepSize::counter'), ('C17.C', '_dual_avg._counter')]),
    Mut('c17-operator-reads-unwritten', OPS, 'MCMCOperator.load_state_dict', 'self._accept = state_dict["accept"]',
        'self._accept = state_dict["accepted"]', expect=[('C17.K1', 'ScalerOperator::accepted'), ('C17.K2', 'ScalerOperator::accept')]),
    Mut('c17-operator-drops-window', OPS, 'MCMCOperator.load_state_dict', 'self._accept_window = deque(state_dict["accept_window"])', 'pass',
        expect=[('C17.K2', 'SlidingWindowOperator::accept_window'), ('C17.C', 'ScalerOperator::self._accept_window')]),
    Mut('c17-operator-no-adapt-count', OPS, 'MCMCOperator.state_dict', 'state_dict = {…',
        'state_dict = {"id": self.id, "accept": self._accept, "reject": self._reject, "accept_window": list(self._accept_window)}',
        expect=[('C17.K1', 'DirichletOperator::adapt_count'), ('C17.C', 'DirichletOperator::self._adapt_count')]),
    Mut('c17-scaler-not-saved', OPS, 'ScalerOperator._state_dict', 'return {"scaler": self._scaler}', 'return {}',
        expect=[('C17.K1', 'ScalerOperator::scaler'), ('C17.C', 'ScalerOperator::self._scaler')]),
    Mut('c17-width-not-restored', OPS, 'SlidingWindowOperator._load_state_dict', 'self._width = state_dict["width"]', 'pass',
        expect=[('C17.K2', 'SlidingWindowOperator::width'), ('C17.C', 'SlidingWindowOperator::self._width')]),
    Mut('c17-mcmc-iteration-dropped', MC, 'MCMC.load_state_dict', 'self._epoch = state_dict["iteration"]', 'pass',
        expect=[('C17.K2', 'MCMC::iteration'), ('C17.C', 'MCMC::self._epoch')]),
    Mut('c17-mcmc-operators-no-id', OPS, 'MCMCOperator.state_dict', 'state_dict = {…',
        'state_dict = {"adapt_count": self._adapt_count, "accept": self._accept, "reject": self._reject, "accept_window": list(self._accept_window)}',
        expect=[('C17.K3', 'MCMC::operators[].id')]),
    Mut('c17-optimizer-scheduler-unguarded', OPT, 'Optimizer.load_state_dict', 'if self.scheduler is not None:…',
        'self.scheduler.load_state_dict(state_dict["scheduler"])', expect=[('C17.K3', 'Optimizer::scheduler')]),
    Mut('c17-optimizer-no-rekey', OPT, 'Optimizer.load_state_dict', 'self.optimizer.load_state_dict(optimizer_state)',
        'self.optimizer.load_state_dict(state_dict["optimizer"])', expect=[('C17.J', 'Optimizer::optimizer')]),
    Mut('c17-optimizer-no-rekey-alias', OPT, 'Optimizer.load_state_dict', "optimizer_state['state'] = {…", 'pass',
        expect=[('C17.J', 'Optimizer::optimizer')]),
    Mut('c17-hmc-adaptors-unguarded', HOP, 'HMCOperator._load_state_dict', 'for adaptor in self._adaptors:…',
        'self._adaptors[0].load_state_dict(state_dict["adaptors"][0])', expect=[('C17.K3', 'HMCOperator::adaptors')]),
    Mut('c17-integrator-steps-dropped', INT, 'LeapfrogIntegrator.load_state_dict', 'self.steps = state_dict["steps"]', 'pass',
        expect=[('C17.K2', 'LeapfrogIntegrator::steps')]),
    Mut('c17-adaptive-accepted-dropped', AD, 'AdaptiveStepSize._state_dict', 'state_dict = {…', 'state_dict = {"call_counter": self._call_counter}',
        expect=[('C17.K1', 'AdaptiveStepSize::accepted'), ('C17.C', 'AdaptiveStepSize::self._accepted')]),
    Mut('c17-massmatrix-samples-dropped', AD, 'MassMatrixAdaptor.load_state_dict', 'self.variance_estimator.samples = state_dict["samples"]', 'pass',
        expect=[('C17.K2', 'MassMatrixAdaptor::samples')]),
    Mut('c17-encoder-tag', PE, 'ParameterEncoder.default', "return {'id': obj.id, 'type': 'torchtree.Parameter', 'tensor': obj.tensor.tolist(), 'dtype': str(obj.tensor.dtype), 'nn': isinstance(obj.tensor, torch.nn.Parameter)}",
        "return {'id': obj.id, 'type': 'torchtree.core.parameter.Parameter', 'tensor': obj.tensor.tolist(), 'dtype': str(obj.tensor.dtype), 'nn': isinstance(obj.tensor, torch.nn.Parameter)}",
        expect=[('C17.E', 'main::parameter-tag')]),
    Mut('c17-encoder-no-dtype', PE, 'ParameterEncoder.default', "return {'id': obj.id, 'type': 'torchtree.Parameter', 'tensor': obj.tensor.tolist(), 'dtype': str(obj.tensor.dtype), 'nn': isinstance(obj.tensor, torch.nn.Parameter)}",
        "return {'id': obj.id, 'type': 'torchtree.Parameter', 'tensor': obj.tensor.tolist(), 'nn': isinstance(obj.tensor, torch.nn.Parameter)}",
        expect=[('C17.E', 'Parameter.from_json::dtype')]),
    Mut('c17-decoder-tag', UT, 'TensorEncoder.default', 'dic = {…',
        'dic = {"type": "torch.tensor", "values": obj.tolist(), "dtype": str(obj.dtype)}', expect=[('C17.E', 'TensorDecoder::tag')]),
    Mut('c17-mcmc-state-type', MC, 'MCMC.save_full_state', 'mcmc_state = {…', 'mcmc_state = {"id": self.id, "type": "Parameter"}',
        expect=[('C17.E', 'MCMC::save_full_state')]),
    Mut('c17-optimizer-state-no-id', OPT, 'Optimizer.save_full_state', 'optimizer_state = {…', 'optimizer_state = {"type": "Optimizer"}',
        expect=[('C17.E', 'Optimizer::save_full_state')]),
    # benign twins
    Mut('c17-benign-rename-local', AD, 'AdaptiveStepSize._state_dict', 'state_dict = {…',
        'state_dict = {}\nstate_dict["call_counter"] = self._call_counter\nstate_dict["accepted"] = self._accepted', benign=True),
    Mut('c17-benign-get-default', INT, 'LeapfrogIntegrator.load_state_dict', 'self.steps = state_dict["steps"]',
        'self.steps = state_dict.get("steps", self.steps)', benign=True),
    Mut('c17-benign-massmatrix-saves-more', AD, 'MassMatrixAdaptor.load_state_dict', 'self._call_counter = state_dict["call_counter"]',
        'self._call_counter = int(state_dict["call_counter"])', benign=True),
    Mut('c17-checkpoint-before-scheduler-step', 'torchtree/optim/optimizer.py', '', "            if self.scheduler is not None:\n                self.scheduler.step()\n\n            for logger in self.loggers:\n                logger(self._epoch)\n",
        "            for logger in self.loggers:\n                logger(self._epoch)\n", expect=[('C17.P', 'Optimizer._run')], mode='text',
        more=[dict(scope='', old="                    self.save_full_state(self.checkpoint)\n\n            self._epoch += 1\n\n        for logger in self.loggers:\n            logger.close()",
                   new="                    self.save_full_state(self.checkpoint)\n\n            if self.scheduler is not None:\n                self.scheduler.step()\n\n            self._epoch += 1\n\n        for logger in self.loggers:\n            logger.close()", mode='text')]),
    Mut('c17-benign-print-after-checkpoint', 'torchtree/optim/optimizer.py', '', "                    self.save_full_state(self.checkpoint)\n\n            self._epoch += 1\n\n        for logger in self.loggers:\n            logger.close()",
        "                    self.save_full_state(self.checkpoint)\n                    print('checkpoint written')\n\n            self._epoch += 1\n\n        for logger in self.loggers:\n            logger.close()", benign=True, mode='text'),
    Mut('c17-update-parameters-suffix-test', 'torchtree/core/utils.py', '', "        if 'type' in json_object and json_object['type'] in (\n            'torchtree.core.parameter.Parameter',\n            'torchtree.Parameter',\n            'Parameter',\n        ):",
        "        if 'type' in json_object and json_object['type'].endswith('Parameter'):", expect=[('C17.E', 'update_parameters::descends-into-derived-parameters')], mode='text'),
    Mut('c17-benign-update-parameters-last-component', 'torchtree/core/utils.py', '', "        if 'type' in json_object and json_object['type'] in (\n            'torchtree.core.parameter.Parameter',\n            'torchtree.Parameter',\n            'Parameter',\n        ):",
        "        if 'type' in json_object and json_object['type'].split('.')[-1] == 'Parameter':", benign=True, mode='text'),
    Mut('c17-main-injects-before-expanding-plates', 'torchtree/torchtree.py', '', "    remove_comments(data)\n    expand_plates(data)\n\n    others = {}", "    others = {}", expect=[('C17.E', 'main::plates-expanded-before-saved-tensors-are-injected')], mode='text',
        more=[dict(scope='', old="    dic = {}\n    try:", new="    remove_comments(data)\n    expand_plates(data)\n    dic = {}\n    try:", mode='text')]),
]
