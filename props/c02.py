"""C02 — invariance to how tree and data are written down.

Decided clause C02.M: switching between tip-state and tip-partial representations with
unknown/ambiguous symbols treated as missing selects the same tip vector for every symbol.
"""
from __future__ import annotations

import ast

from sa.consteval import fold_class
from sa.kernels import MODULE, extract, method_name
from sa.loader import AnalysisError, Unsupported, dotted_name, norm_text
from sa.report import where

DT = 'torchtree.evolution.datatype'


def class_states(cls_node: ast.ClassDef, ev):
    """the state tuple handed to AbstractDataType.__init__ by this class's constructor"""
    init = next((f for f in cls_node.body if isinstance(f, ast.FunctionDef) and f.name == '__init__'), None)
    if init is None:
        raise Unsupported(cls_node, '__init__ not found')
    for c in ast.walk(init):
        if isinstance(c, ast.Call) and isinstance(c.func, ast.Attribute) and c.func.attr == '__init__' and len(c.args) == 2:
            return tuple(ev.expr(c.args[1]))
    raise Unsupported(init, 'states passed to super().__init__ not found')


class Pred:
    """evaluates the guard of the missing-data branch of partial() for one symbol with use_ambiguities=False"""

    def __init__(self, ev, cls_node, string_name, flag_name):
        self.ev, self.cls_node, self.sn, self.fn = ev, cls_node, string_name, flag_name
        self._states = None

    def val(self, e, ch):
        if isinstance(e, ast.Name):
            if e.id == self.sn:
                return ch
            if e.id == self.fn:
                return False
        if isinstance(e, ast.Attribute) and isinstance(e.value, ast.Name) and e.value.id == 'self' and e.attr in ('states', '_states'):
            if self._states is None:
                self._states = class_states(self.cls_node, self.ev)
            return self._states
        if isinstance(e, ast.Attribute) and isinstance(e.value, ast.Name) and e.value.id == 'self' and e.attr in ('state_count', '_state_count'):
            if self._states is None:
                self._states = class_states(self.cls_node, self.ev)
            return len(self._states)
        if isinstance(e, ast.Call) and isinstance(e.func, ast.Attribute) and e.func.attr in ('upper', 'lower') and not e.args:
            v = self.val(e.func.value, ch)
            if not isinstance(v, str):
                raise Unsupported(e, 'upper/lower on a non-string')
            return getattr(v, e.func.attr)()
        if isinstance(e, ast.Call) and isinstance(e.func, ast.Name) and e.func.id == 'ord' and len(e.args) == 1:
            return ord(self.val(e.args[0], ch))
        if isinstance(e, ast.Call) and isinstance(e.func, ast.Attribute) and e.func.attr == 'encoding' and len(e.args) == 1 \
                and isinstance(e.func.value, ast.Name) and e.func.value.id == 'self':
            enc = next((f for f in self.cls_node.body if isinstance(f, ast.FunctionDef) and f.name == 'encoding'), None)
            ret = [n for n in ast.walk(enc) if isinstance(n, ast.Return)] if enc else []
            if len(ret) != 1:
                raise Unsupported(e, 'encoding() not a single return')
            return Pred(self.ev, self.cls_node, enc.args.args[1].arg, '').val(ret[0].value, self.val(e.args[0], ch))
        if isinstance(e, ast.BoolOp):
            vals = [self.val(x, ch) for x in e.values]
            return all(vals) if isinstance(e.op, ast.And) else any(vals)
        if isinstance(e, ast.UnaryOp) and isinstance(e.op, ast.Not):
            return not self.val(e.operand, ch)
        if isinstance(e, ast.Compare) and len(e.ops) == 1:
            a, b = self.val(e.left, ch), self.val(e.comparators[0], ch)
            op = e.ops[0]
            try:
                if isinstance(op, ast.In):
                    return a in b
                if isinstance(op, ast.NotIn):
                    return a not in b
                if isinstance(op, ast.Eq):
                    return a == b
                if isinstance(op, ast.NotEq):
                    return a != b
                if isinstance(op, ast.Lt):
                    return a < b
                if isinstance(op, ast.LtE):
                    return a <= b
                if isinstance(op, ast.Gt):
                    return a > b
                if isinstance(op, ast.GtE):
                    return a >= b
            except TypeError as ex:
                raise Unsupported(e, str(ex))
        if isinstance(e, ast.Subscript):
            obj = self.val(e.value, ch)
            try:
                return obj[self.val(e.slice, ch)]
            except Exception as ex:
                raise Unsupported(e, f"subscript: {ex}")
        return self.ev.expr(e)


def missing_branch(cls_node: ast.ClassDef, ev):
    """(partial(), set of symbols sent to the missing-data branch when use_ambiguities is False, returned expression)"""
    fn = next((f for f in cls_node.body if isinstance(f, ast.FunctionDef) and f.name == 'partial'), None)
    if fn is None:
        raise Unsupported(cls_node, 'partial() not found')
    sn, flag = fn.args.args[1].arg, fn.args.args[2].arg
    for n in fn.body:
        if isinstance(n, ast.If) and any(isinstance(x, ast.Name) and x.id == flag for x in ast.walk(n.test)) and len(n.body) == 1 and isinstance(n.body[0], ast.Return):
            pr = Pred(ev, cls_node, sn, flag)
            missing = {chr(c) for c in range(128) if pr.val(n.test, chr(c))}
            return fn, missing, n.body[0].value
    raise Unsupported(fn, 'missing-data branch of partial() not found')


def run(ctx, rep):
    rep.explanation = (
        "C02.M: for every one of the 128 code points and both table-driven data types, the tip vector that partial(c, use_ambiguities=False) returns "
        "(decided from the folded tables and the string literal of the missing-data branch) equals the column the tip-state kernels select for "
        "encoding(c) clamped to the state count: one-hot for a definite state, the appended all-ones column otherwise.  Extracted facts: the literal "
        "equals {c : STATES[c] < state_count}; the missing branch returns all ones; compress_alignment_states clamps at state_count; both tip-state "
        "kernels append exactly one column of ones on the last axis of the tip matrices and gather on that axis."
    )
    rep.rule('C02.M', "tip-state and tip-partial (ambiguities off) representations select the same tip vector for every symbol")
    rep.not_decided += ["permutations of taxa / sequences / children / columns", "rerooting", "pattern compression weights"]
    m = ctx.prog.module(DT)
    for cname, states_name, amb_name, nstates in (('NucleotideDataType', 'NUCLEOTIDE_STATES', 'NUCLEOTIDE_AMBIGUITY_STATES', 4),
                                                  ('AminoAcidDataType', 'AMINO_ACIDS_STATES', 'AMINO_ACIDS_AMBIGUITY_STATES', 20)):
        cls = m.classes.get(cname)
        if cls is None:
            raise AnalysisError(f"{cname} not found")
        W = where(m, cls)
        try:
            env = fold_class(cls)
            st, amb = env[states_name], env[amb_name]
            from sa.consteval import ConstEval
            ev = ConstEval(env, class_name=cname)
            fn, missing_set, missing = missing_branch(cls, ev)
            lit = {chr(c) for c in range(128)} - missing_set
        except (Unsupported, KeyError) as u:
            rep.undecided('C02.M', f"{cname}", W, str(u))
            continue
        definite = {chr(c) for c in range(128) if st[c] < nstates}
        rep.check('C02.M', f"{cname}::definite-symbol-literal", set(lit) == definite, where(m, fn),
                  {'literal': ''.join(sorted(lit)), 'symbols_with_a_definite_state': ''.join(sorted(definite))},
                  f"{cname}.partial treats {sorted(set(lit) ^ definite)} differently from encoding(): with ambiguities off the tip-partial representation "
                  f"and the tip-state representation disagree for these symbols")
        # missing branch returns all ones
        try:
            mv = ev.expr(missing)
            ok = tuple(float(x) for x in mv) == (1.0,) * nstates
        except Unsupported:
            ok = False
            mv = None
        rep.check('C02.M', f"{cname}::missing-is-all-ones", ok, where(m, fn), {'returned': str(mv)[:80]},
                  f"{cname}.partial must return the all-ones vector for a symbol treated as missing")
        # per symbol
        bad = []
        for c in range(128):
            ch = chr(c)
            part = (1.0,) * nstates if ch not in lit else tuple(float(x) for x in amb[st[c]])
            enc = min(st[c], nstates)
            col = tuple(1.0 if (enc == nstates or i == enc) else 0.0 for i in range(nstates))
            if part != col:
                bad.append((c, ch, part, col))
        rep.check('C02.M', f"{cname}::all-128-symbols-agree", not bad, W, {'checked': 128, 'first_disagreement': str(bad[:1])},
                  f"{cname}: symbol {bad[0][1]!r} gives tip partial {bad[0][2]} but the tip-state kernels select {bad[0][3]}" if bad else '')
    # clamp at state_count
    sp = ctx.prog.module('torchtree.evolution.site_pattern')
    fn = sp.functions.get('compress_alignment_states')
    if fn is None:
        raise AnalysisError('compress_alignment_states not found')
    clamps = [c for c in ast.walk(fn) if isinstance(c, ast.Call) and method_name(c) in ('clamp', 'clip')]
    ok = False
    for c in clamps:
        mx = next((kw.value for kw in c.keywords if kw.arg == 'max'), c.args[2] if len(c.args) > 2 else None)
        enc = any(isinstance(x, ast.Call) and method_name(x) == 'encoding' for x in ast.walk(c))
        ok = ok or (mx is not None and ast.unparse(mx).endswith('data_type.state_count') and enc)
    rep.check('C02.M', 'compress_alignment_states::clamped-at-state-count', ok, where(sp, fn), None,
              "tip states must be data_type.encoding(symbol) clamped to state_count (the index of the all-ones column)")
    # kernels: one ones-column appended on the last axis, gathered on the last axis
    lm = ctx.prog.module(MODULE)
    n = 0
    for name, f in lm.functions.items():
        if 'tip_states' not in name:
            continue
        n += 1
        try:
            k = extract(f)
        except Unsupported as u:
            rep.undecided('C02.M', f"{name}::unknown-state-column", where(lm, f), str(u))
            continue
        mt = k.mat_tips or {}
        ok = mt.get('axis') == -1 and mt.get('first_is_tip_slice_of_mats') and mt.get('second_is_ones') and mt.get('one_column')
        gathers = [x for pos in ('first', 'second') for x in k.factors[pos] if x.kind == 'gather']
        ok = ok and len(gathers) == 2 and all(g.gather_last and not g.transposed and g.matrix == mt.get('name') for g in gathers)
        rep.check('C02.M', f"{name}::unknown-state-column", bool(ok), where(lm, f), {'mat_tips': mt, 'gathers': [g.as_dict() for g in gathers]},
                  f"{name}: the tip matrices must get exactly one extra column of ones on the last axis (index state_count = unknown) and tip states must index that axis")
    if n < 2:
        raise AnalysisError('tip-state kernels not found')
