"""C09.U: BirthDeathModel._call read self.R/self.delta/self.s, which the constructor never defines (it stores
lambda_/mu/psi): the constant birth-death model could not be evaluated at all (AttributeError on the pinned tree).
C11.H: its handle_model_changed was `pass` although _call reads the tree model: stale after a height update."""
import torch
from torchtree.core.parameter import Parameter
from torchtree.core.utils import process_object
import torchtree.evolution.tree_model, torchtree.evolution.taxa
from torchtree.evolution.birth_death import BirthDeathModel
from torchtree.evolution.bdsk import PiecewiseConstantBirthDeath
dic = {}
tree = process_object({'id': 'tt', 'type': 'TimeTreeModel', 'newick': '((A:1,B:1):1,C:2);',
                       'taxa': {'id': 'taxa', 'type': 'Taxa', 'taxa': [{'id': t, 'type': 'Taxon', 'attributes': {'date': 0.0}} for t in 'ABC']},
                       'internal_heights': {'id': 'h', 'type': 'Parameter', 'tensor': [1.0, 2.0]}}, dic)
mk = lambda i, v: Parameter(i, torch.tensor([v]))
m = BirthDeathModel('bd', tree, mk('l', 2.0), mk('m', 1.0), mk('p', 0.5), mk('r', 0.3), mk('o', 3.0))
v1 = m()
print('constant model', v1)
sky = PiecewiseConstantBirthDeath(torch.tensor([2.0]), torch.tensor([1.0]), torch.tensor([0.5]), rho=torch.tensor([0.3]),
                                  origin=torch.tensor([3.0]), survival=True)
print('skyline, one epoch', sky.log_prob(tree.node_heights))
dic['h'].tensor = torch.tensor([1.5, 2.5])
fresh = BirthDeathModel('bd2', tree, m.lambda_, m.mu, m.psi, m.rho, m.origin)()
ok = torch.allclose(m(), fresh)
print('after height update:', 'OK' if ok else f'FAIL stale {m()} vs fresh {fresh}')
raise SystemExit(0 if ok else 1)
