"""KNOWN (C11.T): TransformedParameter stores its transform as a plain attribute; a transform that holds parameters
(ConvexCombinationTransform(weights), LinearTransform(weight,bias), the rate transforms) is never listened to, so
updating that parameter leaves the transformed tensor stale.  Exit 1 while the defect is present."""
import torch
from torchtree.core.parameter import Parameter, TransformedParameter
from torchtree.distributions.transforms import ConvexCombinationTransform
w = Parameter('w', torch.tensor([0.5, 0.5]))
x = Parameter('x', torch.tensor([1.0, 3.0]))
t = TransformedParameter('t', x, ConvexCombinationTransform(w))
before = t.tensor.clone()
w.tensor = torch.tensor([0.9, 0.1])
fresh = TransformedParameter('t2', x, ConvexCombinationTransform(w)).tensor
ok = torch.allclose(t.tensor, fresh)
print('OK' if ok else f'FAIL stale {t.tensor.tolist()} vs fresh {fresh.tolist()}')
raise SystemExit(0 if ok else 1)
