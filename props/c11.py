"""C11 — cached values never go stale; a parameter update never raises.

Class-hierarchy analysis of the listener wiring: which attributes of each concrete class
are registered (listened to), which dirty flags guard its caches and what those caches read,
and what the *resolved* change handlers do on every path.
"""
from __future__ import annotations

import ast
from typing import Dict, List, Optional, Set, Tuple

from sa.cfg import CFG, own_nodes
from sa.classes import ClassInfo
from sa.loader import AnalysisError, Unsupported, dotted_name, norm_text
from sa.members import (MODEL, OTHER, PARAM, PARAMETRIC, PARAM_BASE, MODEL_BASE, UNKNOWN, Kinds, attr_reads,
                        has_dynamic_members, instance_members, registered_attrs, self_attr, transitive_reads)
from sa.report import where
from sa.util import backward_slice, local_assignments

HP = 'handle_parameter_changed'
HM = 'handle_model_changed'


# ---------------------------------------------------------------------------
# dirty flags
# ---------------------------------------------------------------------------

def resolved_functions(cls: ClassInfo):
    """name -> (defining class, kind, fn) as resolved on an instance of cls."""
    seen = {}
    for c in cls.internal_mro():
        for kind, table in (('method', c.methods), ('getter', c.getters), ('setter', c.setters)):
            for name, fn in table.items():
                seen.setdefault((name, kind), (c, kind, fn))
    return seen


def find_flags(cls: ClassInfo) -> Dict[str, dict]:
    """cache flags: `if self.F:` (or `if not self.F`) whose taken branch re-assigns F to the
    opposite constant.  Returns F -> {'dirty': bool, 'guards': [(defcls, fn, ifnode, body)]}."""
    flags: Dict[str, dict] = {}
    for (name, kind), (c, _, fn) in resolved_functions(cls).items():
        if name in ('__init__', HP, HM):
            continue
        for node in ast.walk(fn):
            if not isinstance(node, ast.If):
                continue
            t = node.test
            tested, val = None, True
            if self_attr(t):
                tested, val = self_attr(t), True
            elif isinstance(t, ast.UnaryOp) and isinstance(t.op, ast.Not) and self_attr(t.operand):
                tested, val = self_attr(t.operand), False
            # sentinel cache: `if self.X is None: … self.X = <value>`  (dirty value None)
            if isinstance(t, ast.Compare) and len(t.ops) == 1 and isinstance(t.ops[0], ast.Is) and self_attr(t.left) \
                    and isinstance(t.comparators[0], ast.Constant) and t.comparators[0].value is None:
                cname = self_attr(t.left)
                fills = any(isinstance(st, ast.Assign) and any(self_attr(x) == cname for x in st.targets)
                            and not (isinstance(st.value, ast.Constant) and st.value.value is None)
                            for st in ast.walk(ast.Module(body=node.body, type_ignores=[])))
                if fills:
                    e = flags.setdefault(cname, {'dirty': None, 'guards': []})
                    if e['dirty'] is None:
                        e['guards'].append((c, fn, node))
                continue
            # sentinel cache with an early return: `if self.X is not None: return self.X` … `self.X = <value>` later in the same block (the refresh is the rest of the block)
            if isinstance(t, ast.Compare) and len(t.ops) == 1 and isinstance(t.ops[0], ast.IsNot) and self_attr(t.left) \
                    and isinstance(t.comparators[0], ast.Constant) and t.comparators[0].value is None and any(isinstance(x, ast.Return) for x in node.body):
                cname = self_attr(t.left)
                parent = getattr(node, '_parent', None)
                block = getattr(parent, 'body', []) if parent is not None else []
                if node in block:
                    rest = block[block.index(node) + 1:]
                    fills = any(isinstance(st, ast.Assign) and any(self_attr(x) == cname for x in st.targets) and not (isinstance(st.value, ast.Constant) and st.value.value is None)
                                for st in ast.walk(ast.Module(body=rest, type_ignores=[])))
                    if fills and rest:
                        synth = ast.If(test=t, body=rest, orelse=[])
                        ast.copy_location(synth, node)
                        synth._parent = parent
                        e = flags.setdefault(cname, {'dirty': None, 'guards': []})
                        if e['dirty'] is None:
                            e['guards'].append((c, fn, synth))
                continue
            if tested is None:
                continue
            resets = False
            for st in ast.walk(ast.Module(body=node.body, type_ignores=[])):
                if isinstance(st, ast.Assign) and any(self_attr(x) == tested for x in st.targets):
                    if isinstance(st.value, ast.Constant) and st.value.value is (not val):
                        resets = True
            if resets:
                e = flags.setdefault(tested, {'dirty': val, 'guards': []})
                if e['dirty'] == val:
                    e['guards'].append((c, fn, node))
    return flags


def guard_reads(cls: ClassInfo, guards) -> Set[str]:
    out: Set[str] = set()
    for c, fn, ifnode in guards:
        body = ast.Module(body=ifnode.body, type_ignores=[])
        out |= transitive_reads(cls, body, depth=4)
    return out


# ---------------------------------------------------------------------------
# handler summaries
# ---------------------------------------------------------------------------

class Summary:
    def __init__(self):
        self.sets: Set[Tuple[str, bool]] = set()  # (flag, value) assigned on every path
        self.fires_model = False
        self.fires_param = False
        self.trivial = False  # body is pass / ... / docstring only
        self.calls: List[str] = []


def is_trivial_body(fn: ast.FunctionDef) -> bool:
    for st in fn.body:
        if isinstance(st, ast.Pass):
            continue
        if isinstance(st, ast.Expr) and isinstance(st.value, ast.Constant):
            continue
        return False
    return True


def next_in_mro(cls: ClassInfo, after: ClassInfo, name: str):
    mro = cls.internal_mro()
    try:
        i = mro.index(after)
    except ValueError:
        return None
    for c in mro[i + 1:]:
        if name in c.methods:
            return c, c.methods[name]
    return None


def summarize(ctx, cls: ClassInfo, defcls: ClassInfo, fn: ast.FunctionDef, depth=0) -> Summary:
    """must-facts at the normal exit of fn (a method resolved for cls, defined in defcls)."""
    s = Summary()
    s.trivial = is_trivial_body(fn)
    cfg = CFG(fn)
    callee_cache: Dict[int, Optional[Summary]] = {}

    def callee_summary(call: ast.Call) -> Optional[Summary]:
        if id(call) in callee_cache:
            return callee_cache[id(call)]
        res = None
        f = call.func
        if depth < 3 and isinstance(f, ast.Attribute):
            target = None
            if isinstance(f.value, ast.Call) and isinstance(f.value.func, ast.Name) and f.value.func.id == 'super':
                target = next_in_mro(cls, defcls, f.attr)
            elif isinstance(f.value, ast.Name) and f.value.id == 'self':
                r = cls.resolve(f.attr)
                if r and f.attr not in ('fire_model_changed', 'fire_parameter_changed'):
                    target = r
            else:
                # Base.method(self, …)
                ci = ctx.classes.resolve_class_expr(defcls.module, f.value)
                if ci is not None and call.args and isinstance(call.args[0], ast.Name) and call.args[0].id == 'self':
                    r = ci.resolve(f.attr)
                    if r:
                        target = r
            if target is not None:
                res = summarize(ctx, cls, target[0], target[1], depth + 1)
        callee_cache[id(call)] = res
        return res

    def gen(node):
        facts = set()
        if node.stmt is None or node.kind == 'with_exit':
            return facts
        st = node.stmt
        for n in own_nodes(st):
            if isinstance(n, ast.Call):
                f = n.func
                if isinstance(f, ast.Attribute) and isinstance(f.value, ast.Name) and f.value.id == 'self':
                    if f.attr == 'fire_model_changed':
                        facts.add(('fire', 'model'))
                    elif f.attr == 'fire_parameter_changed':
                        facts.add(('fire', 'param'))
                cs = callee_summary(n)
                if cs is not None:
                    facts |= {('set',) + x for x in cs.sets}
                    if cs.fires_model:
                        facts.add(('fire', 'model'))
                    if cs.fires_param:
                        facts.add(('fire', 'param'))
        if isinstance(st, ast.Assign) and isinstance(st.value, ast.Constant) and (isinstance(st.value.value, bool) or st.value.value is None):
            for t in st.targets:
                a = self_attr(t)
                if a:
                    facts.add(('set', a, st.value.value))
        return facts

    def kill(node):
        k = set()
        st = node.stmt
        if st is not None and isinstance(st, ast.Assign):
            for t in st.targets:
                a = self_attr(t)
                if a:
                    k |= {('set', a, True), ('set', a, False), ('set', a, None)}
        return k

    facts = cfg.must_facts(gen, kill)
    if facts is None:
        facts = set()  # never returns normally
    for f in facts:
        if f[0] == 'set':
            s.sets.add((f[1], f[2]))
        elif f == ('fire', 'model'):
            s.fires_model = True
        elif f == ('fire', 'param'):
            s.fires_param = True
    return s


def explicit_listen_targets(cls: ClassInfo) -> Set[str]:
    """attributes X with `self.X.add_parameter_listener(self)` / loops over a container attr
    calling `.add_parameter_listener(self)` in __init__ (ViewParameter / CatParameter idiom)."""
    out = set()
    for c in cls.internal_mro():
        init = c.methods.get('__init__')
        if init is None:
            continue
        for n in ast.walk(init):
            if isinstance(n, ast.Call) and isinstance(n.func, ast.Attribute) and n.func.attr in (
                    'add_parameter_listener', 'add_model_listener'):
                if n.args and isinstance(n.args[0], ast.Name) and n.args[0].id == 'self':
                    recv = n.func.value
                    a = self_attr(recv)
                    if a:
                        out.add(a)
                    else:
                        # loop variable over something derived from self.<attr>
                        out.add('<loop>')
    return out


# ---------------------------------------------------------------------------
def run(ctx, rep):
    rep.explanation = (
        "Class-hierarchy analysis of the listener wiring.  For every concrete class under Parametric / "
        "AbstractParameter: registered attributes and their kinds (from the constructor chain and annotations), "
        "dirty flags and what the guarded caches read (transitively through self methods/properties), and a must-"
        "summary (CFG, every path) of the *resolved* change handlers with super()/helper calls followed.  "
        "Plus: every self.<member> used on the update path resolves; every tensor setter and in-place write "
        "notifies; optimiser steps are followed by notification before the next evaluation."
    )
    rep.rule('C11.H', "resolved handle_parameter_changed / handle_model_changed of every concrete class marks every cache that "
                      "depends on a registered attribute dirty and notifies its own listeners, on every path")
    rep.rule('C11.R', "every self.<name> used by a handler, tensor/requires_grad setter or fire_* method resolves on the instance "
                      "(Parametric.__getattr__ modelled): a parameter update never raises AttributeError")
    rep.rule('C11.W', "every tensor setter of a parameter class, and every in-place write to <p>.tensor, ends on all paths in a change "
                      "notification (fire_parameter_changed or assignment through another parameter's tensor setter)")
    rep.rule('C11.O', "after each in-place optimiser step / distribution draw in Optimizer, every path to the next evaluation of the "
                      "loss, loggers or convergence check passes through the notification loop over self.parameters")
    rep.rule('C11.T', "a parameter class whose cached tensor is computed by calling a plain attribute (a transform) that itself may hold "
                      "parameters/models listens to that attribute")
    rep.rule('C11.B', "the value cached by a CallableModel (`lp`) is read only behind its dirty flag inside CallableModel; everyone else calls the model")
    rep.rule('C11.F', "a dirty flag is cleared only on paths that ran the refresh it guards")
    rep.rule('C11.S', "a dirty flag that decides the refresh of several caches is cleared only where every one of them is refreshed")
    rep.rule('C11.D', "no Parametric class stores a value it uses as a parameter / model straight into self.__dict__ (registration as listened-to happens in __setattr__)")
    rep.rule('C11.L', "values that are listened to are selected by the abstract parameter / model kind, never by a concrete leaf class")
    rep.rule('C11.G', "an in-place indexed write into a parameter's tensor is done under torch.no_grad() (or where the tensor is known not to require grad): a parameter update never raises")
    rep.rule('C11.M', "a result memoised on the object is keyed by every method argument it depends on")
    rep.rule('C11.X', "no transform is built with torch's (x, y) cache switched on: the cache is keyed on the identity of the input tensor, which in-place updates "
                      "(optimiser steps, in-place proposals) do not change")
    rep.assumptions += [
        "torch.distributions.Transform(cache_size=1) returns the cached image when called again with the same tensor object (fact table)",
        "kinds of constructor arguments are taken from the repository's own annotations",
        "Parametric.__setattr__ registers values of AbstractParameter / Model kind as listened-to attributes",
    ]
    rep.not_decided += ["numerical equality with a freshly built model", "aliasing of tensors shared outside the parameter interface"]
    kinds = Kinds(ctx.classes)
    classes = sorted(
        {c.qualname: c for c in ctx.classes.subclasses(PARAMETRIC) + ctx.classes.subclasses(PARAM_BASE)}.values(),
        key=lambda c: c.qualname,
    )
    if len(classes) < 60:
        raise AnalysisError(f"only {len(classes)} classes under Parametric/AbstractParameter found")
    rep.analysed['parametric_classes'] = len(classes)
    for cls in classes:
        check_handlers(ctx, rep, kinds, cls)
        check_members(ctx, rep, cls)
        check_setters(ctx, rep, cls)
        check_transform_listen(ctx, rep, kinds, cls)
    check_inplace(ctx, rep)
    check_foreign_private_stores(ctx, rep)
    check_registration_listens(ctx, rep)
    if check_parameter_setters_are_reachable(ctx, rep) < 3:
        rep.incomplete('C11.H', 'setters-of-parametric-classes', '', 'fewer than 3 property setters found on Parametric classes')
    from sa import purity as _pur
    _pur.check_shared_class_containers(ctx, rep, 'C11.M', only=lambda m_: not m_.name.startswith('torchtree.cli'))
    check_optimizer(ctx, rep)
    check_transform_cache(ctx, rep)
    check_memo_keys(ctx, rep)
    check_flag_clears(ctx, rep)
    check_shared_flags(ctx, rep)
    check_handed_out_buffers(ctx, rep)
    # a notification never raises: the update that triggered it has already happened, the remaining listeners would not be told and the dirty flag would not be set
    nh_ = 0
    for cls_ in sorted(ctx.classes.classes.values(), key=lambda c: c.qualname):
        if '.cli.' in cls_.qualname:
            continue
        for hn_ in ('handle_parameter_changed', 'handle_model_changed'):
            f_ = cls_.methods.get(hn_)
            if f_ is None:
                continue
            nh_ += 1
            raises_ = [r for r in ast.walk(f_) if isinstance(r, ast.Raise)]
            rep.check('C11.H', f"{cls_.qualname}::{hn_}::a-notification-does-not-raise", not raises_, where(cls_.module, raises_[0] if raises_ else f_), None,
                      f"{cls_.name}.{hn_} can raise: the parameter already has its new value when the listeners are told, so the exception leaves this object's flag down, skips the "
                      f"listeners that come after it, and surfaces in whoever assigned the value")
    if nh_ < 20:
        rep.incomplete('C11.H', 'handlers-do-not-raise', '', f"only {nh_} handlers found")
    # the value a model hands out after an update is computed from refreshed inputs (C07.C caller rule), and nothing read from a parameter at construction is served later (C09.P)
    from props import c07 as _c07v, c09 as _c09v
    from sa.report import RuleProxy as _RPv
    try:
        _c07v.check_callers(ctx, _RPv(rep, 'C11.V', 'callers::'))
    except Unsupported as u_:
        rep.undecided('C11.V', 'callers::check_callers', '', str(u_))
    _c09v.check_snapshots(ctx, rep, rule='C11.M', modules=['torchtree.evolution.coalescent', 'torchtree.evolution.branch_model', 'torchtree.evolution.site_model',
                                                            'torchtree.evolution.tree_likelihood', 'torchtree.evolution.bdsk', 'torchtree.evolution.birth_death'], floor=15)
    if check_flag_cleared_after_the_refresh(ctx, rep) < 15:
        rep.incomplete('C11.S', 'flags-cleared-last', '', 'fewer than 15 flag-guarded refresh blocks found')
    check_cache_values(ctx, rep)
    rep.rule('C11.K', "a callable model whose value depends on an argument of the call (not only on its parameters) does not inherit the argument-blind cache of CallableModel.__call__")
    check_call_arguments(ctx, rep)
    check_dict_writes(ctx, rep)
    check_cache_bypass(ctx, rep)
    check_listener_filters(ctx, rep)


# ---------------------------------------------------------------------------
def check_flag_clears(ctx, rep, rule='C11.F'):
    """`if self.F: <refresh>; self.F = False` — the flag may only be cleared on paths that ran the refresh (every self-method call / cache store of the block)"""
    n = 0
    for m in ctx.prog.modules.values():
        for cname, cnode in m.classes.items():
            for fn in [b for b in cnode.body if isinstance(b, ast.FunctionDef)]:
                for node in ast.walk(fn):
                    if not isinstance(node, ast.If):
                        continue
                    flag = self_attr(node.test) if isinstance(node.test, ast.Attribute) else None
                    if flag is None:
                        continue
                    clears = [st for st in node.body if isinstance(st, ast.Assign) and any(self_attr(t) == flag for t in st.targets)
                              and isinstance(st.value, ast.Constant) and st.value.value is False]
                    if not clears:
                        continue
                    # refresh actions anywhere in the block (also nested): self.method(...) calls and stores to other self attributes
                    actions = []
                    for st in node.body:
                        for x in ast.walk(st):
                            if isinstance(x, ast.Call) and isinstance(x.func, ast.Attribute) and self_attr(x.func) and not x.func.attr.startswith('fire_'):
                                actions.append(x)
                            elif isinstance(x, ast.Assign) and any(self_attr(t) and self_attr(t) != flag for t in x.targets):
                                actions.append(x)
                    if not actions:
                        continue
                    n += 1
                    # an action nested under a further condition is skipped on some path to the clear
                    skipped = []
                    for a in actions:
                        p = getattr(a, '_parent', None)
                        cond = False
                        while p is not None and p is not node:
                            if isinstance(p, (ast.If, ast.For, ast.While, ast.Try, ast.IfExp)):
                                cond = True
                            p = getattr(p, '_parent', None)
                        if cond:
                            skipped.append(a)
                    unconditional = [a for a in actions if a not in skipped]
                    ok = bool(unconditional) or not skipped
                    rep.check(rule, f"{m.name}.{cname}.{fn.name}::self.{flag}-cleared-only-after-the-refresh", ok, where(m, clears[0]),
                              {'refresh_actions': [norm_text(a)[:50] for a in actions], 'conditional': [norm_text(a)[:50] for a in skipped]},
                              f"{cname}.{fn.name} clears self.{flag} although every refresh in the guarded block ({[norm_text(a)[:40] for a in skipped]}) sits under a further "
                              f"condition: on the path that skips it the cache is declared fresh without having been recomputed")
    rep.analysed[f'flag_clear_sites[{rule}]'] = n
    return n


BUFFER_POSITIVE = """
class G:
    def precision_matrix(self):
        q = self._q
        if q is None or q.shape != self.shape:
            q = torch.zeros(self.shape)
            self._q = q
        q[..., 0, 0] = self.precision.tensor
        return q
    def fresh(self):
        q = torch.zeros(self.shape)
        q[..., 0, 0] = self.precision.tensor
        return q
"""


def handed_out_buffers(fn):
    """(local, attributes, first in-place write) for a method that returns a tensor it also keeps on the object and writes into: the caller's copy of an earlier call is
    overwritten by the next one"""
    alias = {}
    for st in ast.walk(fn):
        if isinstance(st, ast.Assign) and len(st.targets) == 1:
            t, v = st.targets[0], st.value
            if isinstance(t, ast.Name) and self_attr(v):
                alias.setdefault(t.id, set()).add(self_attr(v))
            if self_attr(t) and isinstance(v, ast.Name):
                alias.setdefault(v.id, set()).add(self_attr(t))
            if self_attr(t) and isinstance(v, ast.IfExp):
                for b in (v.body, v.orelse):
                    if isinstance(b, ast.Name):
                        alias.setdefault(b.id, set()).add(self_attr(t))
    out = []
    for name, attrs in alias.items():
        written = [st for st in ast.walk(fn)
                   if (isinstance(st, ast.Assign) and any(isinstance(t, ast.Subscript) and isinstance(t.value, ast.Name) and t.value.id == name for t in st.targets))
                   or (isinstance(st, ast.AugAssign) and isinstance(st.target, ast.Subscript) and isinstance(st.target.value, ast.Name) and st.target.value.id == name)
                   or (isinstance(st, ast.Expr) and isinstance(st.value, ast.Call) and isinstance(st.value.func, ast.Attribute) and st.value.func.attr.endswith('_')
                       and not st.value.func.attr.startswith('_') and isinstance(st.value.func.value, ast.Name) and st.value.func.value.id == name)]
        returned = [r for r in ast.walk(fn) if isinstance(r, ast.Return) and isinstance(r.value, ast.Name) and r.value.id == name]
        if written and returned:
            out.append((name, sorted(attrs), written[0]))
    return out


def check_handed_out_buffers(ctx, rep, rule='C11.M', only=None):
    """A value that was handed out stays the value of the state it was computed for.  A method that returns a tensor it keeps on the object and refreshes IN PLACE at the next
    call changes what the caller of the previous call still holds: P(s) becomes P(t), the precision matrix of the current state becomes that of the proposed one."""
    t = ast.parse(BUFFER_POSITIVE)
    got = [len(handed_out_buffers(f)) for f in t.body[0].body]
    if got != [1, 0]:
        raise AnalysisError(f"{rule} self-check: handed-out buffers of the embedded example classified as {got}")
    n = 0
    for mname, m in sorted(ctx.prog.modules.items()):
        if not mname.startswith('torchtree') or '.cli' in mname:
            continue
        if only is not None and not only(m):
            continue
        for fn in ast.walk(m.tree):
            if not isinstance(fn, ast.FunctionDef):
                continue
            n += 1
            cl = getattr(fn, '_parent', None)
            scope = f"{cl.name}.{fn.name}" if isinstance(cl, ast.ClassDef) else fn.name
            for name, attrs, w in handed_out_buffers(fn):
                rep.bad(rule, f"{mname.replace('torchtree.', '')}::{scope}::{name}::returned-values-are-not-overwritten-later", where(m, w), {'kept_as': attrs},
                        f"{scope} returns `{name}`, which it also keeps as self.{attrs[0]} and writes in place (`{norm_text(w)[:50]}`): the tensor a caller received from an earlier "
                        f"call is overwritten by the next one — it no longer describes the state it was computed for")
    rep.ok(rule, 'handed-out-buffers::scanned', '', {'functions_scanned': n})
    return n


def check_flag_cleared_after_the_refresh(ctx, rep, rule='C11.S', only=None):
    """`if self.flag: <refresh>; self.flag = False`: the flag goes down AFTER the value it stands for has been stored.  Cleared first, an evaluation that raises (a parameter
    pushed out of its domain, a Cholesky failure) leaves the flag down over the OLD value: the next call returns it as if it were current.  Every flag-guarded refresh of the
    package clears its flag last (18 sites); a statement with a call after the clear, inside the guarded block, is reported."""
    n = 0
    for mname, m in sorted(ctx.prog.modules.items()):
        if '.cli' in mname or not mname.startswith('torchtree'):
            continue
        if only is not None and not only(m):
            continue
        for fn in ast.walk(m.tree):
            if not isinstance(fn, ast.FunctionDef):
                continue
            cl = getattr(fn, '_parent', None)
            scope = f"{cl.name}.{fn.name}" if isinstance(cl, ast.ClassDef) else fn.name
            for iff in ast.walk(fn):
                if not isinstance(iff, ast.If):
                    continue
                flags = {self_attr(x) for x in ast.walk(iff.test) if self_attr(x)}
                clear = None
                for i, st in enumerate(iff.body):
                    if isinstance(st, ast.Assign) and any(self_attr(t) in flags for t in st.targets) and isinstance(st.value, ast.Constant) and st.value.value is False:
                        clear = i
                        break
                if clear is None:
                    continue
                n += 1
                flag = next(self_attr(t) for t in iff.body[clear].targets if self_attr(t) in flags)
                # what runs after the clear and belongs to the refresh: a call of one of the object's own methods or a store into the object computed by a call (a log
                # line or an assertion after the clear changes nothing)
                after = [st for st in iff.body[clear + 1:] if any((isinstance(c, ast.Call) and self_attr(c.func)) for c in ast.walk(st))
                         or (isinstance(st, (ast.Assign, ast.AugAssign)) and any(self_attr(t) for t in (st.targets if isinstance(st, ast.Assign) else [st.target]))
                             and any(isinstance(c, ast.Call) for c in ast.walk(st.value)))]
                # … and it goes down only when the refresh has actually run: the statements in front of the clear refresh unconditionally (a refresh nested under a further
                # test — "did the inputs really move?" — leaves a path on which the flag is cleared over the old value)
                before = iff.body[:clear]
                any_call = any(isinstance(x, ast.Call) and self_attr(x.func) for st in before for x in ast.walk(st))

                def refreshes(st):
                    # the refresh is the call of the object's own method that recomputes; where the block computes inline, its stores into the object
                    if any_call:
                        return any(isinstance(x, ast.Call) and self_attr(x.func) for x in ast.walk(st))
                    return any(isinstance(x, (ast.Assign, ast.AugAssign)) and any(
                        self_attr(t) and self_attr(t) not in flags for t in (x.targets if isinstance(x, ast.Assign) else [x.target])) for x in ast.walk(st))
                top = [st for st in before if not isinstance(st, (ast.If, ast.Try, ast.While, ast.For)) and refreshes(st)]
                nested = [st for st in before if isinstance(st, ast.If) and refreshes(st) and not (st.orelse and all(refreshes(b) for b in [ast.Module(body=st.body, type_ignores=[]), ast.Module(body=st.orelse, type_ignores=[])]))]
                if before and not top and nested:
                    rep.bad(rule, f"{mname.replace('torchtree.', '')}::{scope}::self.{flag}::refreshed-whenever-it-is-cleared", where(m, nested[0]), {'condition': norm_text(nested[0].test)[:80]},
                            f"{scope} clears self.{flag} after a refresh that only runs when `{norm_text(nested[0].test)[:60]}`: on the other path the flag goes down over the value "
                            f"computed for an earlier state (a change judged too small to matter is never seen again, and such changes add up)")
                else:
                    rep.ok(rule, f"{mname.replace('torchtree.', '')}::{scope}::self.{flag}::refreshed-whenever-it-is-cleared", where(m, iff), None)
                rep.check(rule, f"{mname.replace('torchtree.', '')}::{scope}::self.{flag}::cleared-after-the-refresh", not after, where(m, after[0] if after else iff.body[clear]),
                          {'statements_after_the_clear': [norm_text(a)[:60] for a in after]},
                          f"{scope} clears self.{flag} and THEN runs `{norm_text(after[0])[:60] if after else ''}`: if that evaluation raises, the flag stays down over the value of the "
                          f"previous state and the next call hands it out as current (a fresh object would raise again)")
    return n


def check_shared_flags(ctx, rep, rule='C11.S', only=None):
    """a dirty flag that decides the refresh of several caches may only be cleared where all of them are refreshed: `if self.F: self._A = …; self.F = False` in one
    method and `if self.F: self._B = …` in another declares _B fresh without recomputing it whenever the first method runs before the second"""
    n = 0
    for cls in sorted(ctx.classes.classes.values(), key=lambda c: c.qualname):
        if only is not None and not only(cls):
            continue
        # resolved methods of the class (own and inherited)
        names = set()
        for k in cls.internal_mro():
            for b in k.node.body:
                if isinstance(b, ast.FunctionDef):
                    names.add(b.name)
        fns = {}
        for nm in sorted(names):
            for kind in ('method', 'getter', 'setter'):
                try:
                    r = cls.resolve(nm, kind)
                except Exception:
                    r = None
                if r:
                    fns[(nm, kind)] = r[1]
        if not fns:
            continue

        def stores_of(node, depth=0, seen=None):
            """cache attributes stored by executing `node` (following self.method() calls and self.property reads)"""
            seen = seen if seen is not None else set()
            out = set()
            for x in ast.walk(node):
                if isinstance(x, (ast.Assign, ast.AugAssign)):
                    for t in (x.targets if isinstance(x, ast.Assign) else [x.target]):
                        a = self_attr(t)
                        if a:
                            out.add(a)
                elif isinstance(x, ast.Attribute) and self_attr(x) and isinstance(x.ctx, ast.Load) and depth < 4:
                    nm = x.attr
                    par = getattr(x, '_parent', None)
                    is_call = isinstance(par, ast.Call) and par.func is x
                    key = (nm, 'method') if is_call else (nm, 'getter')
                    if key in fns and key not in seen:
                        seen.add(key)
                        out |= stores_of(fns[key], depth + 1, seen)
            return out

        def flag_of_test(test):
            return sorted({self_attr(x) for x in ast.walk(test) if isinstance(x, ast.Attribute) and self_attr(x) and isinstance(x.ctx, ast.Load)
                           and ('need' in x.attr and 'update' in x.attr)})
        guarded = {}   # flag -> {cache: (fn, if-node)}
        companions = {}   # (flag, cache) -> other flags in the same refresh test (`if self.f or self.g:`)
        clears = []    # (flag, fn, if-node or None, clear stmt)
        for (nm, kind), fn in fns.items():
            for node in ast.walk(fn):
                if isinstance(node, ast.If):
                    for flag in flag_of_test(node.test):
                        body_stores = set()
                        for st in node.body:
                            # (stores made by the methods the block calls count as well: `if self.F: self.update_X()`)
                            body_stores |= {a for a in stores_of(st) if not ('need' in a and 'update' in a)}
                        # only caches that this method also serves (reads outside the guarded block, e.g. `return self._X`) rely on the flag
                        served = {self_attr(x) for x in ast.walk(fn) if isinstance(x, ast.Attribute) and self_attr(x) and isinstance(x.ctx, ast.Load)
                                  and not any(x is y for st in node.body for y in ast.walk(st))}
                        for a in body_stores & served:
                            guarded.setdefault(flag, {}).setdefault(a, (nm, node))
                            companions.setdefault((flag, a), set()).update(set(flag_of_test(node.test)) - {flag})
                if isinstance(node, ast.Assign) and isinstance(node.value, ast.Constant) and node.value.value is False:
                    for t in node.targets:
                        a = self_attr(t)
                        if a and 'need' in a and 'update' in a:
                            # innermost enclosing `if` that tests the flag, else the whole function
                            p = getattr(node, '_parent', None)
                            blk = None
                            while p is not None and p is not fn:
                                if isinstance(p, ast.If) and a in flag_of_test(p.test):
                                    blk = p
                                    break
                                p = getattr(p, '_parent', None)
                            clears.append((a, nm, fn, blk, node))
        for flag, nm, fn, blk, st in clears:
            caches = guarded.get(flag, {})
            if len(caches) < 1:
                continue
            n += 1
            refreshed = stores_of(blk if blk is not None else fn)
            missing = sorted(c for c, (where_nm, _) in caches.items() if c not in refreshed)

            def covered_by_companion(cache):
                """the cache is also refreshed under another flag g that is raised wherever `flag` is raised: clearing `flag` alone leaves g up"""
                for g in companions.get((flag, cache), ()):
                    raise_f = [f2 for f2 in fns.values() if any(isinstance(x, ast.Assign) and any(self_attr(t) == flag for t in x.targets) and isinstance(x.value, ast.Constant)
                                                                 and x.value.value is True for x in ast.walk(f2)) and f2.name != '__init__']
                    if raise_f and all(any(isinstance(x, ast.Assign) and any(self_attr(t) == g for t in x.targets) and isinstance(x.value, ast.Constant) and x.value.value is True
                                           for x in ast.walk(f2)) for f2 in raise_f):
                        return True
                return False
            missing = [c for c in missing if not covered_by_companion(c)]
            mod = next((k.module for k in cls.internal_mro() if any(b is fn for b in k.node.body)), cls.module)
            rep.check(rule, f"{cls.qualname}.{nm}::self.{flag}-cleared-where-every-cache-it-guards-is-refreshed", not missing, where(mod, st),
                      {'caches_guarded_by_flag': {c: v[0] for c, v in caches.items()}, 'refreshed_here': sorted(refreshed & set(caches))},
                      f"{cls.name}.{nm} clears self.{flag} after refreshing {sorted(refreshed & set(caches))}, but {missing} "
                      f"({', '.join(caches[c][0] for c in missing)}) is also recomputed only when self.{flag} is set: once {nm} has run, {missing} is served stale")
    rep.analysed[f'shared_flag_clear_sites[{rule}]'] = n
    return n


PARAM_USES = {'tensor', 'shape', 'sample_shape', 'requires_grad', 'dtype', 'device', 'fire_parameter_changed', 'add_parameter_listener', 'parameters', 'sample', 'log_prob', 'rsample'}


def check_dict_writes(ctx, rep, rule='C11.D', only=None):
    """Parametric.__setattr__ is what registers a parameter / model stored on an object as listened-to.  A value written straight into `self.__dict__` (or through
    object.__setattr__) is stored without being registered; if the class then reads it as a parameter or model, changes to it never reach the object's caches."""
    n = 0
    # the site patterns must recognise the embedded example on every run (the expected count on the repository is zero)
    t = ast.parse(DICT_POSITIVE)
    hits = [x for x in ast.walk(t) if (isinstance(x, ast.Call) and isinstance(x.func, ast.Attribute) and x.func.attr == 'update' and isinstance(x.func.value, ast.Attribute)
                                       and x.func.value.attr == '__dict__') or (isinstance(x, ast.Call) and ast.unparse(x.func) == 'object.__setattr__')
            or (isinstance(x, ast.Assign) and any(isinstance(tt, ast.Subscript) and isinstance(tt.value, ast.Attribute) and tt.value.attr == '__dict__' for tt in x.targets))]
    if len(hits) != 3:
        raise AnalysisError(f"{rule} self-check: {len(hits)} of 3 direct writes recognised in the embedded example")
    base = ctx.classes.get(PARAMETRIC)
    classes = [c for c in ctx.classes.subclasses(PARAMETRIC) if c.module.name != base.module.name]
    for cls in sorted(classes, key=lambda c: c.qualname):
        if only is not None and not only(cls):
            continue
        for fn in [b for b in cls.node.body if isinstance(b, ast.FunctionDef)]:
            for x in ast.walk(fn):
                names = 'none'
                if isinstance(x, ast.Call) and isinstance(x.func, ast.Attribute) and x.func.attr == 'update' and isinstance(x.func.value, ast.Attribute) \
                        and x.func.value.attr == '__dict__' and isinstance(x.func.value.value, ast.Name) and x.func.value.value.id == 'self':
                    a = x.args[0] if x.args else None
                    if isinstance(a, ast.Dict) and all(isinstance(k, ast.Constant) for k in a.keys):
                        names = {k.value for k in a.keys}
                    elif isinstance(a, ast.Name) and fn.args.kwarg is not None and a.id == fn.args.kwarg.arg:
                        # the keywords callers pass to this function
                        names = set()
                        for sub in [cls] + ctx.classes.subclasses(cls.qualname, strict=True):
                            for c2 in ast.walk(sub.node):
                                if isinstance(c2, ast.Call) and isinstance(c2.func, ast.Attribute) and c2.func.attr == fn.name and isinstance(c2.func.value, ast.Call) \
                                        and isinstance(c2.func.value.func, ast.Name) and c2.func.value.func.id == 'super':
                                    params = {p.arg for p in fn.args.args + fn.args.kwonlyargs}
                                    names |= {k.arg for k in c2.keywords if k.arg and k.arg not in params}
                                    if any(k.arg is None for k in c2.keywords):
                                        names = None
                                        break
                            if names is None:
                                break
                    else:
                        names = None
                    names = {k.value for k in x.keywords if False} | names if isinstance(names, set) else names
                    if isinstance(names, set):
                        names |= {k.arg for k in x.keywords if k.arg}
                elif isinstance(x, ast.Assign) and any(isinstance(t, ast.Subscript) and isinstance(t.value, ast.Attribute) and t.value.attr == '__dict__'
                                                      and isinstance(t.value.value, ast.Name) and t.value.value.id == 'self' for t in x.targets):
                    t = next(t for t in x.targets if isinstance(t, ast.Subscript))
                    names = {t.slice.value} if isinstance(t.slice, ast.Constant) else None
                elif isinstance(x, ast.Call) and ast.unparse(x.func) == 'object.__setattr__' and len(x.args) == 3 and isinstance(x.args[0], ast.Name) and x.args[0].id == 'self':
                    names = {x.args[1].value} if isinstance(x.args[1], ast.Constant) else None
                if names == 'none':
                    continue
                n += 1
                key = f"{cls.qualname}.{fn.name}::{norm_text(x)[:50]}"
                if names is None:
                    rep.undecided(rule, key, where(cls.module, x), 'attribute names written into self.__dict__ are not static')
                    continue
                used = {}
                for sub in [cls] + ctx.classes.subclasses(cls.qualname, strict=True):
                    for y in ast.walk(sub.node):
                        if isinstance(y, ast.Attribute) and isinstance(y.value, ast.Attribute) and self_attr(y.value) in names and y.attr in PARAM_USES:
                            used.setdefault(self_attr(y.value), f"{sub.name}: self.{self_attr(y.value)}.{y.attr}")
                        if isinstance(y, ast.Call) and isinstance(y.func, ast.Attribute) and self_attr(y.func) in names:
                            used.setdefault(self_attr(y.func), f"{sub.name}: self.{self_attr(y.func)}()")
                rep.check(rule, key, not used, where(cls.module, x), {'names_written': sorted(names), 'read_as_parameter_or_model': used},
                          f"{cls.name}.{fn.name} stores {sorted(used)} straight into self.__dict__, bypassing Parametric.__setattr__: the values are used as parameters / models "
                          f"({'; '.join(sorted(used.values()))}) but the object never listens to them, so its cached value survives their updates")
    rep.analysed[f'dict_write_sites[{rule}]'] = n
    return n


DICT_POSITIVE = """
class A(Parametric):
    def __init__(self, id_, theta, **kwargs):
        self.theta = theta
        self.__dict__.update(kwargs)
        self.__dict__['scale'] = kwargs.get('scale')
        object.__setattr__(self, 'shift', None)
class B(A):
    def __init__(self, id_, theta, growth, label):
        super().__init__(id_, theta, growth=growth, label=label)
    def f(self):
        return self.growth.tensor * 2, self.label
"""


# ---------------------------------------------------------------------------
def check_listener_filters(ctx, rep, rule='C11.L'):
    """in constructors of Parametric classes, a comprehension that selects what is put into a listened Container / registered list by `isinstance(v, K)` must use the
    abstract kind (AbstractParameter / Model …): with a concrete leaf class (Parameter) transformed, view and concatenated parameters are used but not listened to"""
    n = 0
    concrete = {c.name for c in ctx.classes.subclasses(PARAM_BASE) if c.name not in ('AbstractParameter',)}
    for cls in ctx.classes.subclasses(PARAMETRIC):
        init = cls.methods.get('__init__') if hasattr(cls, 'methods') else None
        fn = init if isinstance(init, ast.FunctionDef) else (init[1] if init else None)
        if fn is None:
            continue
        for comp in ast.walk(fn):
            if not isinstance(comp, (ast.ListComp, ast.GeneratorExp, ast.SetComp, ast.DictComp)):
                continue
            for g in comp.generators:
                for cond in g.ifs:
                    for c in ast.walk(cond):
                        if isinstance(c, ast.Call) and isinstance(c.func, ast.Name) and c.func.id == 'isinstance' and len(c.args) == 2:
                            names = [x.id for x in ast.walk(c.args[1]) if isinstance(x, ast.Name)]
                            n += 1
                            bad = [k for k in names if k in concrete]
                            rep.check(rule, f"{cls.qualname}.__init__::{norm_text(cond)[:50]}", not bad, where(cls.module, comp), {'classes': names},
                                      f"{cls.name}.__init__ selects the values it listens to with `{norm_text(cond)[:60]}`: {bad} is one concrete parameter class, so a "
                                      f"TransformedParameter / ViewParameter / CatParameter given in the same place is read at evaluation but never listened to")
    rep.analysed[f'listener_filters[{rule}]'] = n
    return n


# ---------------------------------------------------------------------------
LP_READERS_OK = {
    ('torchtree.optim.convergence', 'VariationalConvergence.check'): "samples == 0 asks for the loss value of the optimisation step itself (documented option), not for a fresh evaluation",
    ('torchtree.optim.convergence', 'StanVariationalConvergence.check'): "samples == 0 asks for the loss value of the optimisation step itself (documented option), not for a fresh evaluation",
}


def check_cache_bypass(ctx, rep, rule='C11.B', only=None):
    """who may read the cached value: `.lp` of a CallableModel is read only inside CallableModel (behind the dirty flag); anyone else must call the model"""
    n = 0
    for m in ctx.prog.modules.values():
        if m.name == 'torchtree.core.model':
            continue
        if only is not None and not only(m):
            continue
        for x in ast.walk(m.tree):
            if not (isinstance(x, ast.Attribute) and x.attr in ('lp', 'lp_needs_update') and isinstance(x.ctx, ast.Load)):
                continue
            if isinstance(x.value, ast.Name) and x.value.id == 'self' and any(c.has_base('torchtree.core.model.CallableModel') for c in ctx.classes.classes.values()
                                                                              if c.module is m and _encloses(c.node, x)):
                continue      # a CallableModel subclass looking at its own cache
            fn = x
            while fn is not None and not isinstance(fn, ast.FunctionDef):
                fn = getattr(fn, '_parent', None)
            cl = fn
            while cl is not None and not isinstance(cl, ast.ClassDef):
                cl = getattr(cl, '_parent', None)
            qual = f"{cl.name + '.' if cl is not None else ''}{fn.name if fn is not None else '<module>'}"
            n += 1
            key = f"{m.name}::{qual}::{norm_text(x)[:40]}"
            if (m.name, qual) in LP_READERS_OK:
                rep.excluded(rule, key, where(m, x), LP_READERS_OK[(m.name, qual)])
                continue
            rep.bad(rule, key, where(m, x), None,
                    f"{qual} reads `{norm_text(x)}` — the value cached by the last call — instead of calling the model: if a parameter changed since (a rejected proposal was "
                    f"restored, another operator moved, …) the value belongs to another state than the one being reported")
    rep.analysed[f'cache_reads[{rule}]'] = n
    return n


def _encloses(node, x) -> bool:
    p = x
    while p is not None:
        if p is node:
            return True
        p = getattr(p, '_parent', None)
    return False


# ---------------------------------------------------------------------------
def check_memo_keys(ctx, rep, rule='C11.M', only=None):
    """a result kept on the object across calls (`if K not in self.C: self.C[K] = E`, `if self.C is None: self.C = E`) must not depend on an argument of the
    method that is neither part of the key nor of the guard: the second caller with another argument gets the first caller's result"""
    n = 0
    for m in ctx.prog.modules.values():
        if only is not None and not only(m):
            continue
        for cname, cnode in m.classes.items():
            for fn in [b for b in cnode.body if isinstance(b, ast.FunctionDef)]:
                params = {a.arg for a in fn.args.args + fn.args.kwonlyargs} - {'self', 'cls'}
                if fn.name in ('__init__', 'from_json', 'json_factory'):
                    continue
                defs = local_assignments(fn)
                if not params:
                    # a value derived from the tensor of a parameter the object holds, kept under a guard that compares only its shape / dtype / device: assigning a new
                    # value of the same shape leaves the old one in place — unless a change handler of the class drops the cache
                    ci_ = ctx.classes.find(f"{m.name}.{cname}")
                    for node in ast.walk(fn):
                        if not isinstance(node, ast.If):
                            continue
                        if isinstance(node.test, ast.BoolOp) and isinstance(node.test.op, ast.Or):
                            first, others = node.test.values[0], node.test.values[1:]
                        else:
                            first, others = node.test, []       # `if self.C is None:` — filled once, never looked at again
                        if not (isinstance(first, ast.Compare) and len(first.ops) == 1 and isinstance(first.ops[0], ast.Is) and self_attr(first.left)
                                and isinstance(first.comparators[0], ast.Constant) and first.comparators[0].value is None):
                            continue
                        cache = self_attr(first.left)
                        stores = [st for st in node.body if isinstance(st, ast.Assign) and any(self_attr(tg) == cache for tg in st.targets)]
                        value_compared = False
                        for other in others:
                            for x in ast.walk(other):
                                # a comparison of VALUES: `a != b` / `not torch.equal(a, b)` on the tensors themselves.  `a is not b` compares identities: an in-place update
                                # (optimiser step + fire_parameter_changed) keeps the identity; `.shape` / `.dtype` / `len()` compare the metadata only
                                if isinstance(x, ast.Compare) and any(isinstance(o, (ast.Eq, ast.NotEq)) for o in x.ops):
                                    sides = [x.left] + list(x.comparators)
                                    if not any(isinstance(y, ast.Attribute) and y.attr in ('shape', 'dtype', 'device', 'ndim', 'requires_grad', 'is_leaf', 'grad_fn') for sd in sides for y in ast.walk(sd)) and \
                                            not any(isinstance(y, ast.Call) and isinstance(y.func, ast.Name) and y.func.id in ('len', 'type', 'id') for sd in sides for y in ast.walk(sd)):
                                        value_compared = True
                                if isinstance(x, ast.Call) and (dotted_name(x.func) or '').split('.')[-1] in ('equal', 'allclose'):
                                    value_compared = True
                        for st in stores:
                            deps = sorted({self_attr(x.value) for e in backward_slice(st.value, defs) for x in ast.walk(e)
                                           if isinstance(x, ast.Attribute) and x.attr == 'tensor' and self_attr(x.value)})
                            if not deps and ci_ is not None:
                                # `self.m()` whose implementations (in the class or its subclasses) read parameter tensors: self.distribution() -> Dist(self.theta.tensor, …)
                                for e in backward_slice(st.value, defs):
                                    for x in ast.walk(e):
                                        if isinstance(x, ast.Call) and self_attr(x.func) and not x.args:
                                            impls = []
                                            for k_ in [ci_] + ctx.classes.subclasses(ci_.qualname, strict=True):
                                                r_ = k_.resolve(x.func.attr)
                                                if r_ is not None and all(r_[1] is not i_ for i_ in impls):
                                                    impls.append(r_[1])
                                            for f_ in impls:
                                                deps += sorted({self_attr(y.value) for y in ast.walk(f_) if isinstance(y, ast.Attribute) and y.attr == 'tensor' and self_attr(y.value)})
                                deps = sorted(set(deps))
                            if not deps:
                                # `[p.tensor for p in self.<collection>.values()]`: tensors of the parameters held in a collection of the object
                                for e in backward_slice(st.value, defs):
                                    for x in ast.walk(e):
                                        if isinstance(x, (ast.ListComp, ast.GeneratorExp, ast.DictComp)) and any(isinstance(y, ast.Attribute) and y.attr == 'tensor' for y in ast.walk(x)):
                                            deps += sorted({self_attr(y) for g in x.generators for y in ast.walk(g.iter) if self_attr(y)})
                            if not deps:
                                continue
                            n += 1
                            dropped = False
                            if ci_ is not None:
                                for hn in ('handle_parameter_changed', 'handle_model_changed'):
                                    r_ = ci_.resolve(hn)
                                    if r_ and any(isinstance(y, ast.Assign) and any(self_attr(t) == cache for t in y.targets) for y in ast.walk(r_[1])):
                                        dropped = True
                            rep.check(rule, f"{m.name}.{cname}.{fn.name}::self.{cache}", value_compared or dropped, where(m, st), {'derived_from': deps, 'guard': norm_text(node.test)[:100]},
                                      f"{cname}.{fn.name} keeps `{norm_text(st.value)[:60]}`, computed from the tensor of self.{deps[0]}, in self.{cache} and recomputes it only under a test that does not compare the values (shape / dtype / device / identity of the tensors): after an update that leaves those "
                                      f"unchanged (`{deps[0]}.tensor = <new value of the same shape>`, or an in-place optimiser step followed by the change notification) the old value is still served")
                    continue
                for node in ast.walk(fn):
                    if not isinstance(node, ast.If):
                        continue
                    t = node.test
                    store_key = None
                    # `K not in self.C`
                    if isinstance(t, ast.Compare) and len(t.ops) == 1 and isinstance(t.ops[0], ast.NotIn) and self_attr(t.comparators[0]):
                        cache = self_attr(t.comparators[0])
                        guard_names = {x.id for x in ast.walk(t.left) if isinstance(x, ast.Name)}
                        stores = [st for st in node.body if isinstance(st, ast.Assign) and any(isinstance(tg, ast.Subscript) and self_attr(tg.value) == cache for tg in st.targets)]
                    elif isinstance(t, ast.Compare) and len(t.ops) == 1 and isinstance(t.ops[0], ast.Is) and self_attr(t.left) and isinstance(t.comparators[0], ast.Constant) \
                            and t.comparators[0].value is None:
                        cache = self_attr(t.left)
                        guard_names = set()
                        stores = [st for st in node.body if isinstance(st, ast.Assign) and any(self_attr(tg) == cache for tg in st.targets)]
                    elif isinstance(t, ast.BoolOp) and isinstance(t.op, ast.Or) and isinstance(t.values[0], ast.Compare) and len(t.values[0].ops) == 1 \
                            and isinstance(t.values[0].ops[0], ast.Is) and self_attr(t.values[0].left) and isinstance(t.values[0].comparators[0], ast.Constant) \
                            and t.values[0].comparators[0].value is None:
                        # `if self.C is None or <other tests>`: an argument is part of the key only if a test compares its VALUE (not its shape, dtype or length)
                        cache = self_attr(t.values[0].left)
                        guard_names = set()
                        for other in t.values[1:]:
                            for x in ast.walk(other):
                                if isinstance(x, ast.Name):
                                    par_ = getattr(x, '_parent', None)
                                    meta = isinstance(par_, ast.Attribute) and par_.attr in ('shape', 'dtype', 'device', 'ndim', 'dim', 'size', 'numel') \
                                        or (isinstance(par_, ast.Call) and isinstance(par_.func, ast.Name) and par_.func.id in ('len', 'type', 'id'))
                                    if not meta:
                                        guard_names.add(x.id)
                        stores = [st for st in node.body if isinstance(st, ast.Assign) and any(self_attr(tg) == cache for tg in st.targets)]
                    else:
                        continue
                    # a cache kept on the class (`Cls.C = E`, `type(self).C = E`, `self.__class__.C = E`) and read through self is shared by every instance and subclass
                    if not stores:
                        stores = [st for st in node.body if isinstance(st, ast.Assign) and any(
                            isinstance(tg, ast.Attribute) and tg.attr == cache and (
                                (isinstance(tg.value, ast.Name) and tg.value.id in (cname, 'cls'))
                                or ast.unparse(tg.value) in ('type(self)', 'self.__class__')) for tg in st.targets)]
                    for st in stores:
                        n += 1
                        dep = {x.id for e in backward_slice(st.value, defs) for x in ast.walk(e) if isinstance(x, ast.Name) and x.id in params}
                        key_names = set(guard_names)
                        for tg in st.targets:
                            if isinstance(tg, ast.Subscript):
                                key_names |= {x.id for x in ast.walk(tg.slice) if isinstance(x, ast.Name)}
                        missing = sorted(dep - key_names)
                        rep.check(rule, f"{m.name}.{cname}.{fn.name}::self.{cache}", not missing, where(m, st), {'depends_on': sorted(dep), 'key': sorted(key_names)},
                                  f"{cname}.{fn.name} keeps `{norm_text(st.value)[:60]}` in self.{cache} across calls, but that value depends on the argument(s) {missing} which are not part "
                                  f"of the key: a later call with another argument is answered with the first caller's result")
    rep.analysed[f'memo_sites[{rule}]'] = n


# ---------------------------------------------------------------------------
def check_transform_cache(ctx, rep, rule='C11.X', modules=None, floor=5):
    n = 0
    for m in ctx.prog.modules.values():
        if modules is not None and m.name not in modules:
            continue
        for c in ast.walk(m.tree):
            if not isinstance(c, ast.Call):
                continue
            for k in c.keywords:
                if k.arg != 'cache_size':
                    continue
                n += 1
                fn = c
                while fn is not None and not isinstance(fn, ast.FunctionDef):
                    fn = getattr(fn, '_parent', None)
                cl = fn
                while cl is not None and not isinstance(cl, ast.ClassDef):
                    cl = getattr(cl, '_parent', None)
                key = f"{m.name}::{cl.name + '.' if cl is not None else ''}{fn.name if fn else '<module>'}::{norm_text(c)[:60]}"
                v = k.value
                ok = isinstance(v, ast.Constant) and v.value == 0
                if isinstance(v, ast.Name) and fn is not None:
                    # pass-through of a constructor argument whose default is 0
                    names = [a.arg for a in fn.args.args + fn.args.kwonlyargs]
                    defaults = dict(zip([a.arg for a in fn.args.args][len(fn.args.args) - len(fn.args.defaults):], fn.args.defaults))
                    defaults.update({a.arg: d for a, d in zip(fn.args.kwonlyargs, fn.args.kw_defaults) if d is not None})
                    d = defaults.get(v.id)
                    ok = v.id in names and isinstance(d, ast.Constant) and d.value == 0
                rep.check(rule, key, ok, where(m, c), None,
                          f"`{norm_text(c)[:70]}` switches on the transform's (x, y) cache, which is keyed on the identity of x: after an in-place update of the "
                          f"parameter (optimiser step + fire_parameter_changed, in-place proposal) the transform returns the image of the old value")
    if n < floor:
        raise AnalysisError(f"only {n} cache_size arguments found (transform constructors moved?)")


# ---------------------------------------------------------------------------
def check_handlers(ctx, rep, kinds, cls: ClassInfo):
    if cls.is_abstract():
        rep.excluded('C11.H', cls.qualname, where(cls.module, cls.node),
                     f"abstract (unimplemented: {', '.join(cls.abstract_members()[:4])}): its handlers are never the resolved ones")
        return
    is_param = cls.has_base(PARAM_BASE)
    is_model = cls.has_base(MODEL_BASE)
    parametric = cls.has_base(PARAMETRIC)
    regs = registered_attrs(kinds, cls) if parametric else {}
    P = {a for a, e in regs.items() if PARAM in e['kinds']}
    M = {a for a, e in regs.items() if MODEL in e['kinds']}
    U = {a for a, e in regs.items() if UNKNOWN in e['kinds']}
    explicit = explicit_listen_targets(cls)
    if explicit:
        P |= {a for a in explicit}
    flags = find_flags(cls)
    flag_reads = {f: guard_reads(cls, e['guards']) for f, e in flags.items()}
    # reads of registered models outside the constructor / handlers
    used_attrs: Set[str] = set()
    for (name, kind), (c, _, fn) in resolved_functions(cls).items():
        if name in ('__init__', HP, HM, 'from_json', 'json_factory', '__repr__', '__str__', 'to', 'cuda', 'cpu'):
            continue
        used_attrs |= attr_reads(fn)
    for handler, regset, label in ((HP, P, 'parameters'), (HM, M, 'models')):
        key = f"{cls.qualname}::{handler}"
        r = cls.resolve(handler)
        listens = set(regset)
        maybe = set(U)
        if handler == HM:
            listens = {a for a in listens if a in used_attrs or a == '<dynamic>'}
            maybe = {a for a in maybe if a in used_attrs}
        if r is None:
            if listens:
                rep.bad('C11.H', key, where(cls.module, cls.node), {'registered': sorted(listens)},
                        f"class registers {label} {sorted(listens)} but no {handler} resolves")
            continue
        defcls, fn = r
        if any((dotted_name(d) or '').endswith('abstractmethod') for d in fn.decorator_list):
            if listens:
                rep.bad('C11.H', key, where(defcls.module, fn), {'registered': sorted(listens)},
                        f"{handler} resolves to an abstract stub while {label} {sorted(listens)} are registered")
            continue
        try:
            s = summarize(ctx, cls, defcls, fn)
        except RecursionError:
            rep.undecided('C11.H', key, where(defcls.module, fn), 'recursive handler')
            continue
        need_flags = {}
        for f, e in flags.items():
            deps = flag_reads[f]
            if deps & listens or (handler == HP and '<loop>' in listens) or '<dynamic>' in listens:
                need_flags[f] = e['dirty']
        facts = {
            'registered_' + label: sorted(listens), 'unknown_kind': sorted(maybe),
            'flags_depending': {f: sorted(flag_reads[f] & (listens | maybe))[:6] for f in need_flags},
            'handler_defined_in': defcls.qualname,
            'sets_on_all_paths': sorted(s.sets), 'fires_model': s.fires_model, 'fires_param': s.fires_param,
        }
        if not listens:
            if maybe and not ((s.fires_model or s.fires_param) or not (is_model or is_param)):
                rep.undecided('C11.H', key, where(defcls.module, fn),
                              f"attributes of unknown kind {sorted(maybe)} and handler does not notify", facts)
            else:
                rep.ok('C11.H', key, where(defcls.module, fn), facts)
            continue
        problems = []
        for f, dirty in sorted(need_flags.items()):
            if (f, dirty) not in s.sets:
                problems.append(f"does not set self.{f} = {dirty} on every path (its cache reads {sorted(flag_reads[f] & listens)})")
        if is_param and not s.fires_param:
            problems.append("does not call self.fire_parameter_changed() on every path")
        if is_model and not is_param and not s.fires_model:
            problems.append("does not call self.fire_model_changed() on every path")
        if problems:
            rep.bad('C11.H', key, where(defcls.module, fn), facts,
                    f"{cls.name} listens to {label} {sorted(listens)} but the resolved {handler} (in {defcls.name}) " + '; '.join(problems))
        else:
            rep.ok('C11.H', key, where(defcls.module, fn), facts)


UPDATE_PATH = (HP, HM, 'fire_model_changed', 'fire_parameter_changed', 'add_parameter_listener', 'add_model_listener')


def check_members(ctx, rep, cls: ClassInfo):
    if cls.is_abstract():
        return
    if cls.opaque_externals():
        rep.excluded('C11.R', cls.qualname, where(cls.module, cls.node), f"opaque external base {cls.opaque_externals()}")
        return
    members = instance_members(cls)
    dynamic = has_dynamic_members(cls)
    todo = []
    for (name, kind), (c, _, fn) in resolved_functions(cls).items():
        if name in UPDATE_PATH and kind == 'method':
            todo.append((name, kind, c, fn))
        elif name in ('tensor', 'requires_grad') and kind in ('setter', 'getter'):
            todo.append((name, kind, c, fn))
    # methods called from those (self.m()), one level
    extra = []
    for name, kind, c, fn in todo:
        for n in ast.walk(fn):
            if isinstance(n, ast.Call) and self_attr(n.func):
                r = cls.resolve(self_attr(n.func))
                if r and all(r[1] is not t[3] for t in todo + extra):
                    extra.append((self_attr(n.func), 'method', r[0], r[1]))
    for name, kind, c, fn in todo + extra:
        key = f"{cls.qualname}::{name}" + ('' if kind == 'method' else f".{kind}")
        unresolved = []
        for n in ast.walk(fn):
            a = self_attr(n)
            if a and isinstance(n.ctx, ast.Load) and a not in members:
                unresolved.append((a, n.lineno))
        if unresolved and dynamic:
            rep.undecided('C11.R', key, where(c.module, fn), 'class sets attributes dynamically (setattr with computed name)')
        elif unresolved:
            a, ln = unresolved[0]
            rep.bad('C11.R', key, f"{c.module.relpath}:{ln}", {'unresolved': sorted({u[0] for u in unresolved}), 'defined_in': c.qualname},
                    f"self.{a} is used but no class in the MRO of {cls.name} defines or assigns it: AttributeError when this runs")
        else:
            rep.ok('C11.R', key, where(c.module, fn))


def notifies(cls: ClassInfo, fn: ast.FunctionDef) -> Tuple[bool, dict]:
    """every normal path through a setter reaches a notification."""
    cfg = CFG(fn)

    def gen(node):
        st = node.stmt
        if st is None or node.kind == 'with_exit':
            return ()
        for n in own_nodes(st):
            if isinstance(n, ast.Call) and isinstance(n.func, ast.Attribute) and n.func.attr == 'fire_parameter_changed':
                return {'notify'}
        if isinstance(st, (ast.Assign, ast.AugAssign)):
            targets = st.targets if isinstance(st, ast.Assign) else [st.target]
            for t in targets:
                if isinstance(t, ast.Attribute) and t.attr in ('tensor', 'requires_grad') and self_attr(t) is None \
                        and not (self_attr(t.value) or '').endswith('_tensor') and not (isinstance(t.value, ast.Attribute) and t.value.attr in ('_tensor', 'data', 'grad')):
                    return {'notify'}  # assignment through another parameter's setter (a raw tensor attribute has no listeners)
        if isinstance(st, ast.For):
            # loop over sub-parameters assigning through their setters (CatParameter idiom)
            for b in ast.walk(ast.Module(body=st.body, type_ignores=[])):
                if isinstance(b, ast.Assign):
                    for t in b.targets:
                        if isinstance(t, ast.Attribute) and t.attr in ('tensor', 'requires_grad') and self_attr(t) is None:
                            return {'notify'}
        return ()

    facts = cfg.must_facts(gen)
    return (facts is None or 'notify' in facts), {'never_returns_normally': facts is None}


def check_setters(ctx, rep, cls: ClassInfo):
    if not cls.has_base(PARAM_BASE) or cls.is_abstract():
        return
    for prop in ('tensor',):
        r = cls.resolve(prop, 'setter')
        key = f"{cls.qualname}::{prop}.setter"
        if r is None:
            rep.bad('C11.W', key, where(cls.module, cls.node), None, f"parameter class has no {prop} setter")
            continue
        defcls, fn = r
        ok, facts = notifies(cls, fn)
        rep.check('C11.W', key, ok, where(defcls.module, fn), facts,
                  f"{defcls.name}.{prop} setter can return without notifying listeners (no fire_parameter_changed / delegated setter on some path)")
    r = cls.resolve('requires_grad', 'setter')
    if r is not None:
        defcls, fn = r
        stores = any(isinstance(n, ast.Assign) for n in ast.walk(fn))
        if stores:
            ok, facts = notifies(cls, fn)
            rep.check('C11.W', f"{cls.qualname}::requires_grad.setter", ok, where(defcls.module, fn), facts,
                      f"{defcls.name}.requires_grad setter stores without notifying")


def check_transform_listen(ctx, rep, kinds, cls: ClassInfo):
    """C11.T: cached tensor computed by calling a plain attribute whose declared type can hold
    parameters/models, while the class' model handler ignores changes."""
    if not cls.has_base(PARAM_BASE) or not cls.has_base(PARAMETRIC) or cls.is_abstract():
        return
    regs = registered_attrs(kinds, cls)
    flags = find_flags(cls)
    done_t = set()
    for f, e in flags.items():
        for c, fn, ifnode in e['guards']:
            body = ast.Module(body=ifnode.body, type_ignores=[])
            called = set()
            for n in ast.walk(body):
                if isinstance(n, ast.Call):
                    a = self_attr(n.func)
                    if a:
                        called.add(a)
                        r = cls.resolve(a)
                        if r:
                            for m in ast.walk(r[1]):
                                if isinstance(m, ast.Call) and self_attr(m.func):
                                    called.add(self_attr(m.func))
            for a in sorted(called):
                if a not in regs or cls.resolve(a) or (a in done_t):
                    continue
                done_t.add(a)
                ks = regs[a]['kinds']
                if ks & {PARAM, MODEL}:
                    continue
                # plain attribute that is *called* to compute the cache: what is its declared type?
                init = None
                for cc in cls.internal_mro():
                    if '__init__' in cc.methods:
                        init = (cc, cc.methods['__init__'])
                        break
                ann = None
                if init:
                    for arg in init[1].args.args:
                        if arg.arg == a and arg.annotation is not None:
                            ann = arg.annotation
                if ann is None:
                    continue
                base_q = ctx.prog.resolve_name(init[0].module, dotted_name(ann) or '')
                # in-package subclasses of the declared type that take parameters/models
                holders = []
                for sub in ctx.classes.classes.values():
                    if sub.has_base(base_q) or any(isinstance(b, str) and b == base_q for b in sub.mro):
                        sinit = sub.methods.get('__init__')
                        if sinit is None:
                            continue
                        for arg in sinit.args.args[1:]:
                            k = kinds.annotation_kinds(sub.module, arg.annotation)
                            if k & {PARAM, MODEL}:
                                holders.append(f"{sub.name}({arg.arg})")
                                break
                key = f"{cls.qualname}::{a}"
                if not holders:
                    rep.ok('C11.T', key, where(cls.module, cls.node), {'attribute': a, 'declared': base_q})
                    continue
                hm = cls.resolve(HM)
                s = summarize(ctx, cls, hm[0], hm[1]) if hm else None
                ok = s is not None and (f, e['dirty']) in s.sets
                rep.check('C11.T', key, ok, where(cls.module, cls.node),
                          {'attribute': a, 'declared': base_q, 'parametric_implementations': holders[:6], 'flag': f},
                          f"{cls.name} caches self.{a}(...) under flag {f}; self.{a} may be {holders[0]} etc. holding parameters, "
                          f"but it is stored as a plain attribute (never listened to) and handle_model_changed does not invalidate the cache")


# ---------------------------------------------------------------------------
def _grad_switched_off(e) -> bool:
    """`torch.set_grad_enabled(False)` or `torch.set_grad_enabled(<…> and not <x>.requires_grad)`: gradient recording is off whenever the written tensor requires grad"""
    if not (isinstance(e, ast.Call) and (dotted_name(e.func) or '').endswith('set_grad_enabled') and e.args):
        return False
    a = e.args[0]
    if isinstance(a, ast.Constant) and a.value is False:
        return True
    conj = a.values if isinstance(a, ast.BoolOp) and isinstance(a.op, ast.And) else [a]
    return any(isinstance(v, ast.UnaryOp) and isinstance(v.op, ast.Not) and 'requires_grad' in ast.unparse(v.operand) for v in conj)


INPLACE_POSITIVE = """
def reject(parameters, saved):
    for parameter, saved_tensor in zip(parameters, saved):
        with torch.no_grad():
            parameter.tensor.copy_(saved_tensor)
        parameter.fire_parameter_changed()
"""
INPLACE_NEGATIVE = """
def propose(parameters, index, s):
    p = parameters[index].tensor
    p[index] *= s
    parameters[index].tensor = p
"""


def check_inplace(ctx, rep, rule='C11.W', only=None):
    """in-place writes to <p>.tensor (directly or through a local alias) are followed by a
    notification on all paths."""
    n_sites = [0]

    def one(m, fn, rep):
        aliases: Dict[str, ast.AST] = {}
        alias_defs: Dict[str, list] = {}
        other_defs: Dict[str, list] = {}
        for st in ast.walk(fn):
            if isinstance(st, ast.Assign) and len(st.targets) == 1 and isinstance(st.targets[0], ast.Name):
                v = st.value
                if isinstance(v, ast.Attribute) and v.attr == 'tensor' and self_attr(v) is None:
                    aliases[st.targets[0].id] = v.value
                    alias_defs.setdefault(st.targets[0].id, []).append(st)
                else:
                    other_defs.setdefault(st.targets[0].id, []).append(st)
        # a name that is also bound to something else (a dict, a list …) is an alias of the tensor only where the alias definition reaches (flow-sensitive)
        _cfg = None

        def alias_reaches(name, st):
            nonlocal _cfg
            if name not in other_defs:
                return True
            try:
                if _cfg is None:
                    _cfg = CFG(fn)
                node = _cfg.node_of(st)
                dn = [_cfg.node_of(d) for d in alias_defs[name]]
                on = [_cfg.node_of(d) for d in other_defs[name]]
            except KeyError:
                return True
            return any(node.id in _cfg.reachable_after(d, {x.id for x in on}) for d in dn)
        writes = []
        for st in ast.walk(fn):
            tgt = None
            if isinstance(st, ast.AugAssign):
                tgt = st.target
            elif isinstance(st, ast.Assign) and len(st.targets) == 1 and isinstance(st.targets[0], ast.Subscript):
                tgt = st.targets[0]
            if tgt is None:
                continue
            base = tgt.value if isinstance(tgt, ast.Subscript) else tgt
            owner = None
            if isinstance(base, ast.Attribute) and base.attr == 'tensor' and self_attr(base) is None:
                owner = base.value
            elif isinstance(base, ast.Name) and base.id in aliases and isinstance(tgt, ast.Subscript) and alias_reaches(base.id, st):
                owner = aliases[base.id]
            if owner is not None:
                writes.append((st, owner))
        # in-place tensor methods: <p>.tensor.copy_(…), alias.add_(…), and Parameter.copy_ (which writes into the stored tensor without notifying)
        in_param_class = False
        pc = fn
        while pc is not None and not isinstance(pc, ast.ClassDef):
            pc = getattr(pc, '_parent', None)
        for st in ast.walk(fn):
            if not (isinstance(st, ast.Expr) and isinstance(st.value, ast.Call) and isinstance(st.value.func, ast.Attribute)):
                continue
            c = st.value
            name = c.func.attr
            if not name.endswith('_') or name.startswith('_') or name in ('requires_grad_', 'retain_grad_'):
                continue
            recv = c.func.value
            owner = None
            if isinstance(recv, ast.Attribute) and recv.attr == 'tensor' and self_attr(recv) is None:
                owner = recv.value
            elif isinstance(recv, ast.Name) and recv.id in aliases and alias_reaches(recv.id, st):
                owner = aliases[recv.id]
            elif name == 'copy_' and self_attr(recv) is not None and pc is not None:
                ci = ctx.classes.classes.get(f"{m.name}.{pc.name}")
                if ci is not None:
                    from sa.members import Kinds, instance_members, PARAM
                    try:
                        k = Kinds(ctx.classes).attr_kind(ci, self_attr(recv)) if hasattr(Kinds(ctx.classes), 'attr_kind') else None
                    except Exception:
                        k = None
                    if k == PARAM or (k is None and _is_param_attr(ctx, ci, self_attr(recv))):
                        owner = recv
            elif name == 'copy_' and isinstance(recv, ast.Name):
                # `for parameter … in zip(self.parameters, …): parameter.copy_(v)` — the loop variable runs over the parameters the object holds, or an
                # isinstance(…, Parameter) test says what it is: Parameter.copy_ writes into the stored tensor without telling anybody
                from_params = any(isinstance(lp_, (ast.For, ast.comprehension)) and any(isinstance(x, ast.Name) and x.id == recv.id for x in ast.walk(lp_.target))
                                  and any(self_attr(y) in ('parameters', '_parameters') for y in ast.walk(lp_.iter)) for lp_ in ast.walk(fn))
                typed = any(isinstance(c_, ast.Call) and isinstance(c_.func, ast.Name) and c_.func.id == 'isinstance' and len(c_.args) == 2 and isinstance(c_.args[0], ast.Name)
                            and c_.args[0].id == recv.id and 'Parameter' in ast.unparse(c_.args[1]) for c_ in ast.walk(fn))
                if from_params or typed:
                    owner = recv
            if owner is not None:
                writes.append((st, owner))
        if not writes:
            return
        # C11.G: a leaf that requires grad cannot be written in place outside torch.no_grad(): the write raises instead of updating the parameter
        if rule == 'C11.W':
            for st, owner in writes:
                if not (isinstance(st, (ast.Assign, ast.AugAssign))):
                    continue
                guarded = False
                p_, child_ = getattr(st, '_parent', None), st
                while p_ is not None and p_ is not fn:
                    if isinstance(p_, ast.With) and any('no_grad' in ast.unparse(i.context_expr) or _grad_switched_off(i.context_expr) for i in p_.items):
                        guarded = True
                    if isinstance(p_, ast.If) and 'requires_grad' in ast.unparse(p_.test):
                        # only the branch on which the tensor is known not to require grad is safe
                        negated = isinstance(p_.test, ast.UnaryOp) and isinstance(p_.test.op, ast.Not)
                        in_else = any(child_ is x for x in p_.orelse)
                        if (in_else and not negated) or (not in_else and negated):
                            guarded = True
                    p_, child_ = getattr(p_, '_parent', None), p_
                pc2 = fn
                while pc2 is not None and not isinstance(pc2, ast.ClassDef):
                    pc2 = getattr(pc2, '_parent', None)
                scope2 = f"{pc2.name}.{fn.name}" if pc2 is not None else fn.name
                rep.check('C11.G', f"{m.name}::{scope2}::{norm_text(st)[:60]}", guarded, where(m, st), {'owner': ast.unparse(owner)},
                          f"{scope2}: `{norm_text(st)[:60]}` writes into the tensor of {ast.unparse(owner)} in place; when that parameter requires grad (the optimiser switches "
                          f"it on) PyTorch refuses (\"a leaf Variable that requires grad is being used in an in-place operation\"): the update raises")
        cfg = CFG(fn)
        for st, owner in writes:
            n_sites[0] += 1
            otext = ast.unparse(owner)
            cls = None
            p = fn
            while p is not None and not isinstance(p, ast.ClassDef):
                p = getattr(p, '_parent', None)
            scope = f"{p.name}.{fn.name}" if p is not None else fn.name
            key = f"{m.name}::{scope}::{norm_text(st)}"
            notif = []
            for node in cfg.stmt_nodes():
                s2 = node.stmt
                if node.kind == 'with_exit':
                    continue
                if isinstance(s2, ast.Assign):
                    for t in s2.targets:
                        if isinstance(t, ast.Attribute) and t.attr == 'tensor' and ast.unparse(t.value) == otext:
                            notif.append(node)
                for n in own_nodes(s2):
                    if isinstance(n, ast.Call) and isinstance(n.func, ast.Attribute) and n.func.attr == 'fire_parameter_changed' \
                            and ast.unparse(n.func.value) == otext:
                        notif.append(node)
            try:
                src = cfg.node_of(st)
            except KeyError:
                rep.undecided(rule, key, where(m, st), 'statement not in CFG')
                continue
            ok = cfg.must_pass(src, cfg.exit, notif)
            rep.check(rule, key, ok, where(m, st), {'owner': otext, 'notifications': [n.stmt.lineno for n in notif]},
                      f"in-place write to {otext}'s tensor (`{norm_text(st)[:60]}`) is not followed on every path by `{otext}.tensor = …` or "
                      f"`{otext}.fire_parameter_changed()`: listeners keep stale caches")
            # client code (outside the parameter classes) does not know the kind of the parameter it is handed: the getter of a view returns a view of ANOTHER
            # parameter's storage, that of a transformed parameter its cache, that of a concatenation a copy.  Only the setter, which every kind implements for
            # itself, writes the value where it lives and notifies the parameters it is derived from; `fire_parameter_changed()` on the handle alone does not.
            abstract_slot = False
            if self_attr(owner) is not None and p is not None:
                # an attribute for which the class ITSELF builds a derived kind (`self.x = CatParameter(…)` when it is given a list) is known to the class not to be plain:
                # the getter of that kind returns a copy / cache, only its setter writes the value where it lives
                for b_ in p.body:
                    if isinstance(b_, ast.FunctionDef) and b_.name == '__init__':
                        for a2_ in ast.walk(b_):
                            if isinstance(a2_, ast.Assign) and any(self_attr(t_) == self_attr(owner) for t_ in a2_.targets) and isinstance(a2_.value, ast.Call) \
                                    and (dotted_name(a2_.value.func) or '').split('.')[-1] in ('CatParameter', 'ViewParameter', 'TransformedParameter'):
                                abstract_slot = True
            if rule == 'C11.W' and m.name != 'torchtree.core.parameter' and (self_attr(owner) is None or abstract_slot) or (rule == 'C11.W' and m.name == '<example>'):
                local_plain = isinstance(owner, ast.Name) and any(
                    isinstance(a_, ast.Assign) and any(isinstance(t_, ast.Name) and t_.id == owner.id for t_ in a_.targets) and isinstance(a_.value, ast.Call)
                    and (dotted_name(a_.value.func) or '').split('.')[-1] == 'Parameter' for a_ in ast.walk(fn))
                if not local_plain:
                    setters = [n_ for n_ in notif if isinstance(n_.stmt, ast.Assign)
                               and any(isinstance(t, ast.Attribute) and t.attr == 'tensor' and ast.unparse(t.value) == otext for t in n_.stmt.targets)]
                    ok2 = cfg.must_pass(src, cfg.exit, setters)
                    rep.check(rule, key + '::through-the-setter', ok2, where(m, st), {'owner': otext, 'setter_assignments': [n_.stmt.lineno for n_ in setters]},
                              f"`{norm_text(st)[:60]}` writes in place into what the tensor getter of {otext} returns and then only calls fire_parameter_changed (or nothing): "
                              f"for a view the write lands in the viewed parameter whose listeners are not told, for a transformed or concatenated parameter it lands "
                              f"in a cache/copy and is lost; assign through `{otext}.tensor = …` instead")

    # the rule for client code (expected count on the repository: zero) must recognise the embedded example on every run
    if rule == 'C11.W':
        import types

        class _Collect:
            def __init__(self):
                self.failed = []
                self.passed = []

            def check(self, rule_, key, ok, *a, **k):
                (self.passed if ok else self.failed).append(key)

            def undecided(self, *a, **k):
                pass
        for text, expect_fail in ((INPLACE_POSITIVE, 1), (INPLACE_NEGATIVE, 0)):
            t = ast.parse(text)
            for x in ast.walk(t):
                for ch in ast.iter_child_nodes(x):
                    ch._parent = x
            col = _Collect()
            saved = n_sites[0]
            for f_ in t.body:
                one(types.SimpleNamespace(name='<example>', relpath='<example>', tree=t), f_, col)
            n_sites[0] = saved
            got = len([k_ for k_ in col.failed if k_.endswith('::through-the-setter')])
            if got != expect_fail:
                raise AnalysisError(f"C11.W self-check: the embedded example gives {got} setter obligations violated, expected {expect_fail}")
    for m in ctx.prog.modules.values():
        for fn in ast.walk(m.tree):
            if not isinstance(fn, (ast.FunctionDef, ast.AsyncFunctionDef)):
                continue
            if only is not None and not only(m, fn):
                continue
            one(m, fn, rep)
    n_sites = n_sites[0]
    rep.analysed[f'inplace_write_sites[{rule}]'] = n_sites
    return n_sites


def _is_param_attr(ctx, ci, attr: str) -> bool:
    """self.<attr> is assigned a Parameter(...) / a constructor argument annotated as a parameter in the class's __init__ chain"""
    for c in [ci] + list(ci.internal_mro()):
        r = c.methods.get('__init__') if hasattr(c, 'methods') else None
        fn = r if isinstance(r, ast.FunctionDef) else (r[1] if r else None)
        if fn is None:
            continue
        ann = {a.arg: (ast.unparse(a.annotation) if a.annotation is not None else '') for a in fn.args.args}
        for st in ast.walk(fn):
            if isinstance(st, ast.Assign) and any(self_attr(t) == attr for t in st.targets):
                v = st.value
                if isinstance(v, ast.Call) and (dotted_name(v.func) or '').split('.')[-1] in ('Parameter', 'TransformedParameter', 'CatParameter', 'ViewParameter'):
                    return True
                if isinstance(v, ast.Name) and 'Parameter' in ann.get(v.id, ''):
                    return True
    return False


# ---------------------------------------------------------------------------
def check_optimizer(ctx, rep):
    cls = ctx.classes.get('torchtree.optim.optimizer.Optimizer')
    m = cls.module
    for name in ('_run', '_run_closure'):
        r = cls.resolve(name)
        if r is None:
            raise AnalysisError(f"Optimizer.{name} not found")
        fn = r[1]
        cfg = CFG(fn)
        # notification loops: for p in self.parameters: p.fire_parameter_changed()
        notif = []
        mutators = []
        evals = []
        for node in cfg.stmt_nodes():
            st = node.stmt
            if node.kind == 'with_exit':
                continue
            if isinstance(st, ast.For) and self_attr(st.iter) == 'parameters':
                if any(isinstance(n, ast.Call) and isinstance(n.func, ast.Attribute) and n.func.attr == 'fire_parameter_changed'
                       for n in ast.walk(ast.Module(body=st.body, type_ignores=[]))):
                    notif.append(node)
                    continue
            for n in own_nodes(st):
                if not isinstance(n, ast.Call) or not isinstance(n.func, ast.Attribute):
                    continue
                recv = n.func.value
                if n.func.attr == 'step' and self_attr(recv) == 'optimizer':
                    mutators.append((node, 'optimizer.step'))
                elif n.func.attr in ('sample', 'rsample') and isinstance(recv, ast.Name):
                    mutators.append((node, f"{recv.id}.{n.func.attr}"))
                elif self_attr(n.func) == 'loss':
                    evals.append((node, 'self.loss()'))
                elif n.func.attr == 'check' and self_attr(recv) == 'convergence':
                    evals.append((node, 'convergence.check'))
                elif isinstance(recv, ast.Name) and recv.id == 'logger' and n.func.attr in ('log', '__call__'):
                    evals.append((node, 'logger'))
                if isinstance(n.func, ast.Name) and n.func.id == 'logger':
                    evals.append((node, 'logger()'))
            for n in own_nodes(st):
                if isinstance(n, ast.Call) and isinstance(n.func, ast.Name) and n.func.id == 'logger':
                    evals.append((node, 'logger()'))
        if not any(k == 'optimizer.step' for _, k in mutators):
            raise AnalysisError(f"Optimizer.{name}: optimizer.step call not found")
        # a nested closure that notifies at its start and is passed to step() also counts
        for mnode, mkind in mutators:
            if mkind != 'optimizer.step':
                # draws by distributions write through the tensor setter (C11.W): they notify themselves
                continue
            for enode, ekind in evals:
                key = f"Optimizer.{name}::{mkind}->{ekind}@{norm_text(enode.stmt)[:50]}"
                if enode.id not in cfg.reachable_after(mnode):
                    continue
                ok = cfg.must_pass(mnode, enode, notif)
                # the path may loop back through the step itself; cut at the next step
                ok = ok or cfg.must_pass(mnode, enode, notif + [mn for mn, k in mutators if k == 'optimizer.step' and mn is not mnode])
                if not ok:
                    # paths that re-enter the same step: consider only paths not passing through mnode again
                    avoid = {n.id for n in notif} | {mnode.id}
                    ok = enode.id not in cfg.reachable_after(mnode, avoid)
                rep.check('C11.O', key, ok, where(m, enode.stmt),
                          {'step': mnode.stmt.lineno, 'evaluation': enode.stmt.lineno, 'notifications': [n.stmt.lineno for n in notif]},
                          f"Optimizer.{name}: after the in-place {mkind} at line {mnode.stmt.lineno} the evaluation `{ekind}` at line "
                          f"{enode.stmt.lineno} can be reached without `for p in self.parameters: p.fire_parameter_changed()`: "
                          f"the cached (pre-step) value is returned")


def check_cache_values(ctx, rep, rule='C11.V', only=None):
    """a cache that is refreshed under a dirty flag (`if self.F: self._A = E; self.F = False`) stands for the value E of the current inputs.  Any other store to
    the cache must write that same expression (the constructor's first evaluation) — a method that writes something else into it and leaves or declares it fresh
    (write-through of an assigned value, a partially updated copy) makes the object return a value that a freshly built one would not compute."""
    n = 0
    for cls in sorted(ctx.classes.classes.values(), key=lambda c: c.qualname):
        if only is not None and not only(cls):
            continue
        fns = {}
        for k in reversed(cls.internal_mro()):
            for b in k.node.body:
                if isinstance(b, ast.FunctionDef):
                    deco = [ast.unparse(d) for d in b.decorator_list]
                    kind = 'setter' if any(d.endswith('.setter') for d in deco) else 'getter' if 'property' in deco else 'method'
                    fns[(b.name, kind)] = (k, b)

        def flag_of_test(test):
            return sorted({self_attr(x) for x in ast.walk(test) if isinstance(x, ast.Attribute) and self_attr(x) and isinstance(x.ctx, ast.Load)
                           and ('need' in x.attr and 'update' in x.attr)})

        def stores_in(nodes, depth=0, seen=None):
            seen = seen if seen is not None else set()
            out = []
            for nd in nodes:
                for x in ast.walk(nd):
                    if isinstance(x, ast.Assign):
                        for t in x.targets:
                            a = self_attr(t)
                            if a:
                                out.append((a, ast.unparse(x.value), x))
                    elif isinstance(x, ast.Call) and isinstance(x.func, ast.Attribute) and self_attr(x.func) and depth < 3:
                        key = (x.func.attr, 'method')
                        if key in fns and key not in seen:
                            seen.add(key)
                            out += stores_in(fns[key][1].body, depth + 1, seen)
            return out
        refresh = {}    # cache -> {value text}
        refresh_nodes = set()
        flag_for = {}
        for (nm, kind), (k, fn) in fns.items():
            for node in ast.walk(fn):
                if isinstance(node, ast.If) and flag_of_test(node.test):
                    served = {self_attr(x) for x in ast.walk(fn) if isinstance(x, ast.Attribute) and self_attr(x) and isinstance(x.ctx, ast.Load)
                              and not any(x is y for st in node.body for y in ast.walk(st))}
                    for a, val, st in stores_in(node.body):
                        if a in served and not ('need' in a and 'update' in a):
                            refresh.setdefault(a, set()).add(val)
                            refresh_nodes.add(id(st))
                            flag_for.setdefault(a, flag_of_test(node.test)[0])
        for cache, values in sorted(refresh.items()):
            for (nm, kind), (k, fn) in sorted(fns.items()):
                for x in ast.walk(fn):
                    if isinstance(x, ast.Assign) and any(self_attr(t) == cache for t in x.targets) and id(x) not in refresh_nodes:
                        n += 1
                        val = ast.unparse(x.value)
                        okv = val in values or (isinstance(x.value, ast.Constant) and x.value.value is None)
                        # the same value on another device: self._A = self._A.to(…) / .cuda(…) / .cpu()
                        if isinstance(x.value, ast.Call) and isinstance(x.value.func, ast.Attribute) and x.value.func.attr in ('to', 'cuda', 'cpu') \
                                and self_attr(x.value.func.value) == cache:
                            okv = True
                        if nm == '__init__' and not okv:
                            # the constructor's first evaluation names its arguments directly (`module()` for `self.module()`), or stores a placeholder
                            # that is never served because the flag is raised in the constructor
                            strip = lambda t_: t_.replace('self.', '')
                            flag = flag_for.get(cache)
                            raised = any(isinstance(y, ast.Assign) and any(self_attr(t) == flag for t in y.targets) and isinstance(y.value, ast.Constant)
                                         and y.value.value is True for k2 in cls.internal_mro() for b2 in k2.node.body
                                         if isinstance(b2, ast.FunctionDef) and b2.name == '__init__' for y in ast.walk(b2))
                            okv = strip(val) in {strip(v) for v in values} or raised
                        if not okv:
                            # a foreign value is harmless when the flag is raised again on every path before the method returns: the cache is then never served
                            flag = flag_for.get(cache)
                            try:
                                cfg = CFG(fn)
                                ups = [cfg.node_of(y) for y in ast.walk(fn) if isinstance(y, ast.Assign) and any(self_attr(t) == flag for t in y.targets)
                                       and isinstance(y.value, ast.Constant) and y.value.value is True]
                                if ups and cfg.must_pass(cfg.node_of(x), cfg.exit, ups):
                                    okv = True
                            except KeyError:
                                pass
                        rep.check(rule, f"{cls.qualname}.{nm}{'@setter' if kind == 'setter' else ''}::self.{cache}-holds-its-refresh-value", okv, where(k.module, x),
                                  {'refresh_values': sorted(values), 'stored': val, 'flag': flag_for.get(cache)},
                                  f"{cls.name}.{nm} stores `{val}` into self.{cache}, a cache that is otherwise recomputed as {sorted(values)} when self.{flag_for.get(cache)} is set: "
                                  f"the object then serves a value that a freshly built one would not compute from the same inputs")
    rep.analysed[f'cache_value_store_sites[{rule}]'] = n
    return n


def call_argument_data_uses(fn: ast.FunctionDef):
    """(tainted names, data uses): values taken from the call arguments of `_call` (`kwargs[...]`, `kwargs.get(...)`, `args[...]`) and the places where they enter the
    computation as operands.  Uses that only steer the evaluation — the argument of `.sample()` / `.rsample()`, `len(...)`, a comparison or membership test — are not data."""
    va = fn.args.vararg.arg if fn.args.vararg else None
    kw = fn.args.kwarg.arg if fn.args.kwarg else None
    if va is None and kw is None:
        return set(), []

    def from_arguments(e):
        for x in ast.walk(e):
            if isinstance(x, ast.Subscript) and isinstance(x.value, ast.Name) and x.value.id in (va, kw):
                return True
            if isinstance(x, ast.Call) and isinstance(x.func, ast.Attribute) and x.func.attr in ('get', 'pop') and isinstance(x.func.value, ast.Name) and x.func.value.id == kw:
                return True
        return False

    def control_context(n):
        p, child = getattr(n, '_parent', None), n
        while p is not None and not isinstance(p, ast.stmt):
            if isinstance(p, ast.Call):
                nm = p.func.attr if isinstance(p.func, ast.Attribute) else (p.func.id if isinstance(p.func, ast.Name) else '')
                if nm in ('sample', 'rsample', 'len', 'isinstance') and child is not p.func:
                    return True
            if isinstance(p, ast.Compare):
                return True
            p, child = getattr(p, '_parent', None), p
        return isinstance(p, (ast.If, ast.While)) and any(child is x or any(child is y for y in ast.walk(x)) for x in [p.test])
    tainted = set()
    changed = True
    while changed:
        changed = False
        for st in ast.walk(fn):
            tgt, val = None, None
            if isinstance(st, ast.Assign) and len(st.targets) == 1 and isinstance(st.targets[0], ast.Name):
                tgt, val = st.targets[0].id, st.value
            elif isinstance(st, ast.AnnAssign) and isinstance(st.target, ast.Name) and st.value is not None:
                tgt, val = st.target.id, st.value
            if tgt is None or tgt in tainted:
                continue
            if from_arguments(val) or any(isinstance(x, ast.Name) and x.id in tainted and not control_context(x) for x in ast.walk(val)):
                tainted.add(tgt)
                changed = True
    uses = []
    for x in ast.walk(fn):
        if isinstance(x, ast.Name) and x.id in tainted and isinstance(x.ctx, ast.Load) and not control_context(x):
            uses.append(x)
        if isinstance(x, ast.Subscript) and isinstance(x.value, ast.Name) and x.value.id in (va, kw) and isinstance(x.ctx, ast.Load) and not control_context(x):
            st = x
            while st is not None and not isinstance(st, ast.stmt):
                st = getattr(st, '_parent', None)
            if not isinstance(st, (ast.Assign, ast.AnnAssign)):
                uses.append(x)
    return tainted, uses


def check_call_arguments(ctx, rep, rule='C11.K', module_prefix=None):
    """CallableModel.__call__ serves the last value until a parameter or sub-model changes; it does not look at the call's arguments.  A model whose `_call` computes with
    an argument of the call (the Hamiltonian's momentum) must therefore not inherit that cache: a second call with another argument returns the value of the first."""
    n = 0
    for cls in sorted(ctx.classes.subclasses('torchtree.core.model.CallableModel'), key=lambda c: c.qualname):
        if cls.is_abstract() or (module_prefix is not None and not cls.module.name.startswith(module_prefix)):
            continue
        rc, rcall = cls.resolve('_call'), cls.resolve('__call__')
        if not rc or not rcall:
            continue
        tainted, uses = call_argument_data_uses(rc[1])
        if not tainted:
            continue
        n += 1
        cached = rcall[0].qualname == 'torchtree.core.model.CallableModel'
        key = f"{cls.qualname}::call-arguments-that-enter-the-value-are-not-served-from-the-cache"
        rep.check(rule, key, not (uses and cached), where(rc[0].module, rc[1]),
                  {'values_from_call_arguments': sorted(tainted), 'operand_uses': [f"{u.lineno}:{ast.unparse(u)}" for u in uses][:6], '__call__': rcall[0].qualname},
                  f"{cls.name}._call computes with {sorted(tainted)} taken from the arguments of the call, but {cls.name} is called through CallableModel.__call__, which returns the "
                  f"cached value of the previous call as long as no parameter changed: a second evaluation with a different argument returns the value of the first")
    rep.analysed[f'callable_models_reading_call_arguments[{rule}]'] = n
    if n < (5 if module_prefix is None else 1):
        rep.incomplete(rule, '*', '', f"only {n} callable models read their call arguments (expected the variational objectives and the Hamiltonian)")
    return n


FOREIGN_POSITIVE = """
class Cat:
    def set(self, tensor):
        for parameter in self._parameters:
            if isinstance(parameter, Parameter):
                parameter._tensor = tensor
            else:
                parameter.tensor = tensor
        self._tensor = tensor
"""


def foreign_private_stores(tree):
    """stores into the private storage of ANOTHER object (`p._tensor = v`, `p._need_update = …`): the owner's setter — the only place that notifies the owner's listeners — is bypassed"""
    out = []
    for st in ast.walk(tree):
        tgts = st.targets if isinstance(st, ast.Assign) else ([st.target] if isinstance(st, (ast.AugAssign, ast.AnnAssign)) else [])
        for t in tgts:
            for x in ast.walk(t):
                if isinstance(x, ast.Attribute) and isinstance(x.ctx, ast.Store) and x.attr.startswith('_') and not x.attr.startswith('__') \
                        and not (isinstance(x.value, ast.Name) and x.value.id in ('self', 'cls')) and x.attr in ('_tensor', '_need_update', 'need_update', '_parameters', '_listeners', 'listeners'):
                    out.append((st, x))
    return out


def check_foreign_private_stores(ctx, rep, rule='C11.W'):
    if len(foreign_private_stores(ast.parse(FOREIGN_POSITIVE))) != 1:
        raise AnalysisError('C11.W self-check: the foreign store of the embedded example is not recognised')
    hits = []
    n = 0
    for m in ctx.prog.modules.values():
        n += 1
        for st, x in foreign_private_stores(m.tree):
            hits.append((m, st, x))
    for m, st, x in hits:
        fn = st
        while fn is not None and not isinstance(fn, ast.FunctionDef):
            fn = getattr(fn, '_parent', None)
        cl = getattr(fn, '_parent', None) if fn is not None else None
        scope = f"{cl.name}.{fn.name}" if isinstance(cl, ast.ClassDef) else (fn.name if fn is not None else '<module>')
        rep.bad(rule, f"{m.name}::{scope}::{norm_text(st)[:50]}::storage-of-another-object", where(m, st), {'attribute': ast.unparse(x)},
                f"{scope}: `{norm_text(st)[:60]}` writes the private storage of another object: its tensor setter — which is what tells its listeners — is bypassed, so every model "
                f"that listens to that object keeps the value it computed before")
    rep.ok(rule, 'package::private-storage-is-written-by-its-owner-only', '', {'modules_scanned': n})


def check_parameter_setters_are_reachable(ctx, rep, rule='C11.H', only=None):
    """`Parametric.__setattr__` takes every assignment of an AbstractParameter (or Model) to an attribute of a Parametric object: it registers the value under that name and
    returns, a property setter of the same name is never entered.  A setter written to receive a parameter — and to re-wire caches, raise the dirty flag, tell the listeners
    — is therefore dead code: `model.mu = parameter` stores the parameter and nothing else happens."""
    from sa.members import Kinds, PARAM, MODEL
    kinds = Kinds(ctx.classes)
    n = 0
    for cls in sorted(ctx.classes.classes.values(), key=lambda c: c.qualname):
        if not cls.has_base('torchtree.core.parametric.Parametric'):
            continue
        if only is not None and not only(cls):
            continue
        for name, fn in cls.setters.items():
            n += 1
            a = fn.args.args[1] if len(fn.args.args) > 1 else None
            ks = kinds.annotation_kinds(cls.module, a.annotation) if a is not None and a.annotation is not None else set()
            takes = bool(ks & {PARAM, MODEL})
            if not takes and a is not None:
                # un-annotated: the body treats the value as a parameter (stores it into a slot the class reads `.tensor` of)
                stored = {self_attr(t) for st in ast.walk(fn) if isinstance(st, ast.Assign) and isinstance(st.value, ast.Name) and st.value.id == a.arg for t in st.targets if self_attr(t)}
                takes = any(isinstance(x, ast.Attribute) and x.attr == 'tensor' and self_attr(x.value) in stored for f in cls.methods.values() for x in ast.walk(f))
            rep.check(rule, f"{cls.qualname}::{name}.setter::reachable-for-what-it-is-given", not takes, where(cls.module, fn), {'value_kinds': sorted(ks)},
                      f"{cls.name}.{name} has a property setter meant for a parameter / model, but {cls.name} is Parametric: `obj.{name} = <parameter>` is intercepted by "
                      f"Parametric.__setattr__, which registers the value and never calls the setter — the caches the setter re-wires keep the old parameter and the listeners are "
                      f"not told")
    return n


def check_registration_listens(ctx, rep, rule='C11.H'):
    """Parametric.register_parameter / register_model are what makes an object hear about the parameter or model it is handed: on every path they store it AND add the object as
    a listener of it.  A registration that skips the listener for a name that is already bound leaves the object deaf to a parameter assigned over an old one."""
    cls = ctx.classes.get(PARAMETRIC)
    for meth, adder in (('register_parameter', 'add_parameter_listener'), ('register_model', 'add_model_listener')):
        r = cls.resolve(meth)
        key = f"{cls.qualname}::{meth}::listens-on-every-path"
        if r is None:
            rep.undecided(rule, key, where(cls.module, cls.node), f"{meth} not found")
            continue
        fn = r[1]
        obj = fn.args.args[2].arg if len(fn.args.args) > 2 else None
        cfg = CFG(fn)
        adds = [n for n in cfg.stmt_nodes() if isinstance(n.stmt, ast.Expr) and isinstance(n.stmt.value, ast.Call) and isinstance(n.stmt.value.func, ast.Attribute)
                and n.stmt.value.func.attr == adder and isinstance(n.stmt.value.func.value, ast.Name) and n.stmt.value.func.value.id == obj
                and n.stmt.value.args and isinstance(n.stmt.value.args[0], ast.Name) and n.stmt.value.args[0].id == 'self']
        ok = bool(adds) and cfg.must_pass(cfg.entry, cfg.exit, adds)
        rep.check(rule, key, ok, where(r[0].module, fn), {'listener_calls': [a.stmt.lineno for a in adds]},
                  f"Parametric.{meth} does not call `{obj}.{adder}(self)` on every path: an attribute assigned a second time (a new parameter over an old one) is stored but never "
                  f"listened to, so updates of the new object leave every cache of the holder stale")
