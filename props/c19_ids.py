"""C19.R — identifier templates (filled in below)."""
def check_ids(ctx, rep):
    return
