"""C19 (fixed): `mcmc --coalescent skygrid --gmrf_integrated` emitted a GMRF block-updating operator that refers to 'gmrf', which with --gmrf_integrated is a
GMRFGammaIntegrated (the precision is integrated out): the operator reads gmrf.precision and torchtree stopped with AttributeError.  The sliding-window operator is used
for the log population sizes in that case.
Run: PYTHONPATH=<tree> /venv/bin/python findings/c19_block_update_with_integrated_gmrf.py   (exit 1 = defect present)"""
import os, subprocess, sys, tempfile
REPO = os.environ.get('PYTHONPATH', '/repo').split(':')[0]
cmd = [sys.executable, '-c', 'from torchtree.cli.cli import main; main()', 'mcmc', '-i', f'{REPO}/data/fluA.fa', '-t', f'{REPO}/data/fluA.tree', '--clock', 'strict',
       '--coalescent', 'skygrid', '--grid', '5', '--cutoff', '10', '--gmrf_integrated', '--iter', '400', '--stem', os.path.join(tempfile.gettempdir(), 'c19_gmrf')]
r = subprocess.run(cmd, capture_output=True, text=True)
if r.returncode != 0:
    print('rejected by the CLI:', r.stderr.strip().splitlines()[-1][:120]); print('OK'); sys.exit(0)
with tempfile.NamedTemporaryFile('w', suffix='.json', delete=False) as fp:
    fp.write(r.stdout)
run = subprocess.run([sys.executable, '-c', 'from torchtree.torchtree import main; main()', fp.name], capture_output=True, text=True, cwd=tempfile.gettempdir())
os.unlink(fp.name)
err = [l for l in run.stderr.splitlines() if 'Error' in l]
print('block-updating operator emitted:', 'GMRFPiecewiseCoalescentBlockUpdatingOperator' in r.stdout, '| torchtree:', err[-1][:120] if err else 'runs')
sys.exit(1 if err or run.returncode else 0)
